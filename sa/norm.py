"""E4 - condition normaliser: atoms, linear terms, vector atoms, must-facts."""

import ast
import collections
from fractions import Fraction

from .index import dotted_text


def txt(expr):
    """Canonical text of an expression."""
    if expr is None:
        return ''
    if isinstance(expr, str):
        return expr
    return ast.unparse(expr)


def mentions(expr):
    """Names and dotted attribute chains mentioned by an expression."""
    out = set()
    if expr is None:
        return out
    for sub in ast.walk(expr):
        if isinstance(sub, ast.Name):
            out.add(sub.id)
        elif isinstance(sub, ast.Attribute):
            dotted = dotted_text(sub)
            if dotted:
                out.add(dotted)
    return out


def _is_reference(expr):
    """expr names an existing object (name, attribute, constant-keyed or
    name-keyed subscript): a local bound to it is an alias, so changes made
    through the local are changes of that object."""
    if isinstance(expr, ast.Name):
        return True
    if isinstance(expr, ast.Attribute):
        return _is_reference(expr.value)
    if isinstance(expr, ast.Subscript):
        idx = expr.slice
        if isinstance(idx, ast.UnaryOp) and isinstance(idx.op, ast.USub):
            idx = idx.operand           # t[-1]
        return _is_reference(expr.value) and isinstance(
            idx, (ast.Constant, ast.Name, ast.Attribute))
    return False


def copy_env(func_node, graph=None):
    """Local names assigned exactly once in the function (plain
    ``name = expr``, not a loop / with / except target, not a parameter,
    not augmented) -> their defining expression.  Used for copy
    propagation so that ``x = app.traits; if x != 0`` normalises like
    ``if app.traits != 0``."""
    counts = {}
    defs = {}
    banned = set()
    mutated = set()         # banned only because changed in place
    hard_banned = set()     # re-bound by other constructs
    stored_paths = set()
    args = func_node.args
    for arg in args.posonlyargs + args.args + args.kwonlyargs:
        banned.add(arg.arg)
        hard_banned.add(arg.arg)
    if args.vararg:
        banned.add(args.vararg.arg)
        hard_banned.add(args.vararg.arg)
    if args.kwarg:
        banned.add(args.kwarg.arg)
        hard_banned.add(args.kwarg.arg)
    stack = list(func_node.body)
    while stack:
        node = stack.pop()
        if isinstance(node, (ast.FunctionDef, ast.AsyncFunctionDef,
                             ast.ClassDef, ast.Lambda)):
            banned.add(getattr(node, 'name', ''))
            hard_banned.add(getattr(node, 'name', ''))
            continue
        if isinstance(node, ast.Assign):
            for tgt in node.targets:
                if isinstance(tgt, ast.Name) and len(node.targets) == 1:
                    counts[tgt.id] = counts.get(tgt.id, 0) + 1
                    defs[tgt.id] = node.value
                elif len(node.targets) == 1 and _unpack_defs(tgt, node.value):
                    # a, b = t  ->  a = t[0], b = t[1];  a, b = x, y
                    for name, val in _unpack_defs(tgt, node.value):
                        counts[name] = counts.get(name, 0) + 1
                        defs[name] = val
                else:
                    for leaf in ast.walk(tgt):
                        if isinstance(leaf, ast.Name) and \
                                isinstance(leaf.ctx, ast.Store):
                            banned.add(leaf.id)
                            hard_banned.add(leaf.id)
        elif isinstance(node, (ast.AugAssign, ast.AnnAssign)):
            # x += 1 re-binds x; x[k] += 1 / x.f += 1 change the object x
            # names (handled below like any store through x)
            if isinstance(node.target, ast.Name):
                banned.add(node.target.id)
                hard_banned.add(node.target.id)
        elif isinstance(node, (ast.For, ast.AsyncFor)):
            for leaf in ast.walk(node.target):
                if isinstance(leaf, ast.Name):
                    banned.add(leaf.id)
                    hard_banned.add(leaf.id)
        elif isinstance(node, (ast.With, ast.AsyncWith)):
            for item in node.items:
                if item.optional_vars is not None:
                    for leaf in ast.walk(item.optional_vars):
                        if isinstance(leaf, ast.Name):
                            banned.add(leaf.id)
                            hard_banned.add(leaf.id)
        elif isinstance(node, ast.ExceptHandler) and node.name:
            banned.add(node.name)
            hard_banned.add(node.name)
        for sub in ast.walk(node) if isinstance(node, ast.expr) else []:
            pass
        # a local that is mutated in place is not a value to propagate
        if isinstance(node, (ast.Subscript, ast.Attribute)) and \
                isinstance(node.ctx, (ast.Store, ast.Del)):
            stored_paths.add(txt(node))
            base = node.value
            while isinstance(base, (ast.Subscript, ast.Attribute)):
                base = base.value
            if isinstance(base, ast.Name):
                mutated.add(base.id)
                banned.add(base.id)
        if isinstance(node, ast.Call) and isinstance(
                node.func, ast.Attribute) and node.func.attr in (
                    'append', 'extend', 'add', 'update', 'pop', 'remove',
                    'discard', 'clear', 'insert', 'setdefault', 'popitem',
                    'sort', 'reverse', 'appendleft', 'popleft') and \
                isinstance(node.func.value, ast.Name):
            mutated.add(node.func.value.id)
            banned.add(node.func.value.id)
        for extra in getattr(node, '_inline_body', None) or ():
            stack.append(extra)
        for child in ast.iter_child_nodes(node):
            if isinstance(child, (ast.comprehension,)):
                for leaf in ast.walk(child.target):
                    if isinstance(leaf, ast.Name):
                        banned.add(leaf.id)
                        hard_banned.add(leaf.id)
            stack.append(child)
    out = {}
    for name, cnt in counts.items():
        if cnt == 1 and (name not in banned or (
                name in mutated and name not in hard_banned and
                _is_reference(defs[name]))):
            val = defs[name]
            # only pure-looking definitions: names, attributes, constants,
            # subscripts, arithmetic, and calls without keyword side
            # effects are all accepted; a definition mentioning the name
            # itself is not
            if name in mentions(val):
                continue
            # a snapshot of a field that the function also assigns
            # (x = o.f ... o.f = v) is not the field any more
            hit = set(txt(sub) for sub in ast.walk(val)
                      if isinstance(sub, (ast.Subscript, ast.Attribute))
                      and txt(sub) in stored_paths) if stored_paths else ()
            if hit and not _stores_after_uses(graph, name, hit):
                continue
            out[name] = val
    return out


def _unpack_defs(tgt, value):
    """Definitions made by a destructuring assignment of plain names from a
    reference expression (projection by position) or from a display of the
    same length; None when it is anything else."""
    if not isinstance(tgt, (ast.Tuple, ast.List)) or not tgt.elts or \
            not all(isinstance(e, ast.Name) for e in tgt.elts):
        return None
    names = [e.id for e in tgt.elts]
    if len(set(names)) != len(names):
        return None
    if isinstance(value, (ast.Tuple, ast.List)):
        if len(value.elts) != len(names) or any(
                isinstance(e, ast.Starred) for e in value.elts):
            return None
        if set(names) & set(n.id for e in value.elts for n in ast.walk(e)
                            if isinstance(n, ast.Name)):
            return None         # a, b = b, a
        return list(zip(names, value.elts))
    if isinstance(value, ast.Subscript) and \
            isinstance(value.slice, ast.Slice) and \
            _is_reference(value.value) and value.slice.step is None and \
            not (set(names) & mentions(value)):
        # a, b = t[:2]  /  a, b = t[1:3]
        low = value.slice.lower
        if low is None or (isinstance(low, ast.Constant) and
                           isinstance(low.value, int) and low.value >= 0):
            start = low.value if low is not None else 0
            return [(name, ast.Subscript(value=value.value,
                                         slice=ast.Constant(
                                             value=start + idx),
                                         ctx=ast.Load()))
                    for idx, name in enumerate(names)]
        return None
    if (_is_reference(value) or (
            isinstance(value, ast.Call) and
            isinstance(value.func, ast.Attribute) and
            value.func.attr in ('partition', 'rpartition', 'split',
                                'rsplit'))) and \
            not (set(names) & mentions(value)):
        # the pieces of a split string are projected like a reference:
        # h, _s, p = d.partition(':') makes h stand for d.partition(':')[0]
        return [(name, ast.Subscript(value=value,
                                     slice=ast.Constant(value=idx),
                                     ctx=ast.Load()))
                for idx, name in enumerate(names)]
    return None


def _stores_after_uses(graph, name, paths):
    """Every store to one of ``paths`` happens where no use of the local
    ``name`` can follow: the snapshot x = o.f is then still o.f wherever x
    is read.  Decided on the CFG; without one the answer is no."""
    if graph is None:
        return False
    from . import cfg as C
    stores, uses = [], []
    for node in graph.nodes:
        if node.ast is None:
            continue
        roots = C.node_exprs(node) if node.kind != 'stmt' else [node.ast]
        for root in roots:
            if root is None:
                continue
            for sub in ast.walk(root):
                if isinstance(sub, (ast.Subscript, ast.Attribute)) and \
                        isinstance(sub.ctx, (ast.Store, ast.Del)) and \
                        txt(sub) in paths:
                    stores.append(node)
                if isinstance(sub, ast.Name) and sub.id == name and \
                        isinstance(sub.ctx, ast.Load):
                    uses.append(node)
                # a call on the object may change the field as well
    if not stores:
        return True
    uses = set(uses)
    defs = [node for node in graph.nodes if node.kind == 'stmt' and
            isinstance(node.ast, ast.Assign) and any(
                isinstance(t, ast.Name) and t.id == name
                for t in node.ast.targets)]
    for store in stores:
        # a store matters when it can run after the binding and before a
        # use, without the binding being executed again in between
        if defs and not any(store in C.reach_after(d) for d in defs):
            continue
        after = C.reach_after(store, blocked=defs)
        if uses & after:
            return False
    return True


NAMEDTUPLES = {}     # constructor name -> field names (filled by the index)


def _project(ctor_call, field=None, position=None):
    """NT(a, b).f / NT(a, b)[i] / NT(f=a).f -> the argument, else None."""
    if not (isinstance(ctor_call, ast.Call) and
            isinstance(ctor_call.func, ast.Name) and
            ctor_call.func.id in NAMEDTUPLES):
        return None
    fields = NAMEDTUPLES[ctor_call.func.id]
    if field is not None:
        if field not in fields:
            return None
        position = fields.index(field)
        for kw in ctor_call.keywords:
            if kw.arg == field:
                return kw.value
    if position is not None and 0 <= position < len(ctor_call.args) and \
            not any(isinstance(a, ast.Starred) for a in ctor_call.args):
        return ctor_call.args[position]
    return None


class _Subst(ast.NodeTransformer):
    def __init__(self, env, depth=0):
        self.env = env
        self.depth = depth

    def visit_Name(self, node):
        if isinstance(node.ctx, ast.Load) and node.id in self.env and \
                self.depth < 4:
            import copy
            val = copy.deepcopy(self.env[node.id])
            return _Subst(self.env, self.depth + 1).visit(val)
        return node

    def visit_Attribute(self, node):
        node = self.generic_visit(node)
        if isinstance(node.ctx, ast.Load):
            hit = _project(node.value, field=node.attr)
            if hit is not None:
                return hit
        return node

    def visit_Subscript(self, node):
        node = self.generic_visit(node)
        if isinstance(node.ctx, ast.Load) and isinstance(
                node.slice, ast.Constant) and isinstance(
                    node.slice.value, int):
            hit = _project(node.value, position=node.slice.value)
            if hit is not None:
                return hit
            if isinstance(node.value, ast.Tuple) and \
                    0 <= node.slice.value < len(node.value.elts):
                return node.value.elts[node.slice.value]
        # {'k': v, ...}['k']  ->  v  (a record built and read back)
        if isinstance(node.value, ast.Dict) and \
                isinstance(node.slice, ast.Constant) and \
                isinstance(node.ctx, ast.Load):
            for key, val in zip(node.value.keys, node.value.values):
                if isinstance(key, ast.Constant) and \
                        key.value == node.slice.value:
                    return val
        return node

    def visit_Lambda(self, node):
        return node

    def visit_ListComp(self, node):
        # inside a comprehension: everything except the names it binds
        # itself (and definitions that mention such a name)
        bound = set()
        for gen in node.generators:
            for leaf in ast.walk(gen.target):
                if isinstance(leaf, ast.Name):
                    bound.add(leaf.id)
        env = {k: v for k, v in self.env.items()
               if k not in bound and not (mentions(v) & bound)}
        if not env:
            return node
        return _Subst(env, self.depth).generic_visit(node)

    visit_SetComp = visit_DictComp = visit_GeneratorExp = visit_ListComp


def subst(expr, env):
    """Expression with single-assignment locals replaced by their
    definitions (copy propagation); the input is not modified."""
    if not env or expr is None:
        return expr
    import copy
    if not (mentions(expr) & set(env)):
        return expr
    return _Subst(env).visit(copy.deepcopy(expr))


class Atom(object):
    """A normalised condition; hashable by ``key``.  ``raw`` is None for an
    atom read directly from the source and, for the copy-propagated twin of
    such an atom, the atom it was derived from."""
    __slots__ = ('key', 'mentions', 'raw')

    def __init__(self, key, ment=(), raw=None):
        self.key = key
        self.mentions = frozenset(ment)
        self.raw = raw

    def __hash__(self):
        return hash(self.key)

    def __eq__(self, other):
        return isinstance(other, Atom) and self.key == other.key

    def __repr__(self):
        return show(self)

    @property
    def kind(self):
        return self.key[0]


# ---------------------------------------------------------------------------
# linear terms
# ---------------------------------------------------------------------------

def linear(expr):
    """dict term_text -> Fraction ; '' is the constant term."""
    out = collections.defaultdict(Fraction)

    def add(node, coeff):
        if isinstance(node, ast.BinOp) and isinstance(node.op, ast.Add):
            add(node.left, coeff)
            add(node.right, coeff)
        elif isinstance(node, ast.BinOp) and isinstance(node.op, ast.Sub):
            add(node.left, coeff)
            add(node.right, -coeff)
        elif isinstance(node, ast.UnaryOp) and isinstance(node.op, ast.USub):
            add(node.operand, -coeff)
        elif isinstance(node, ast.UnaryOp) and isinstance(node.op, ast.UAdd):
            add(node.operand, coeff)
        elif isinstance(node, ast.BinOp) and isinstance(node.op, ast.Mult) \
                and _num(node.left) is not None:
            add(node.right, coeff * _num(node.left))
        elif isinstance(node, ast.BinOp) and isinstance(node.op, ast.Mult) \
                and _num(node.right) is not None:
            add(node.left, coeff * _num(node.right))
        elif _num(node) is not None:
            out[''] += coeff * _num(node)
        else:
            out[txt(node)] += coeff

    add(expr, Fraction(1))
    return {k: v for k, v in out.items() if v != 0}


def _num(node):
    if isinstance(node, ast.Constant) and isinstance(node.value, (int, float)) \
            and not isinstance(node.value, bool):
        try:
            return Fraction(node.value)
        except (ValueError, OverflowError):
            return None
    return None


def _lin_key(lin):
    return tuple(sorted(lin.items()))


def _neg_lin(lin):
    return {k: -v for k, v in lin.items()}


_FLIP = {'<': '>', '>': '<', '<=': '>=', '>=': '<=', '==': '==', '!=': '!='}
_NEG = {'<': '>=', '>': '<=', '<=': '>', '>=': '<', '==': '!=', '!=': '=='}
_OPS = {ast.Lt: '<', ast.LtE: '<=', ast.Gt: '>', ast.GtE: '>=',
        ast.Eq: '==', ast.NotEq: '!='}


def cmp_atom(left, op, right):
    """Atom for ``left op right`` (AST operands), canonicalised:
    L - R (op) 0 with op in < <= == != ."""
    lin = linear(ast.BinOp(left=left, op=ast.Sub(), right=right))
    ment = mentions(left) | mentions(right)
    return _cmp_from_lin(lin, op, ment)


def _cmp_from_lin(lin, op, ment):
    if op in ('>', '>='):
        lin = _neg_lin(lin)
        op = _FLIP[op]
    if op in ('==', '!='):
        items = sorted(lin.items())
        if items and items[0][1] < 0:
            lin = _neg_lin(lin)
    # scale so that the smallest-text non-constant term has |coeff| 1
    items = sorted((k, v) for k, v in lin.items() if k != '')
    if items:
        scale = abs(items[0][1])
        if scale not in (0, 1):
            lin = {k: v / scale for k, v in lin.items()}
    return Atom(('cmp', op, _lin_key(lin)), ment)


# ---------------------------------------------------------------------------
# vector helpers (interpreted from the repo's own definitions)
# ---------------------------------------------------------------------------

_OPERATOR = {'operator.lt': '<', 'operator.le': '<=', 'operator.gt': '>',
             'operator.ge': '>=', 'operator.eq': '==', 'operator.ne': '!=',
             'np.isclose': '~=', 'numpy.isclose': '~='}


class VecHelpers(object):
    """Summaries of the module's short-circuit vector comparison helpers.

    generic[name] = (quant, oper_param_idx, left_idx, right_idx)
    concrete[name] = (quant, op, left_idx, right_idx)
    """

    def __init__(self, module):
        self.generic = {}
        self.concrete = {}
        self.module = module
        funcs = module.functions
        for _round in range(4):
            for name, func in funcs.items():
                if name in self.generic or name in self.concrete:
                    continue
                self._summarise(name, func)

    def _summarise(self, name, func):
        body = [s for s in func.raw.body
                if not (isinstance(s, ast.Expr) and
                        isinstance(s.value, ast.Constant))]
        if len(body) != 1 or not isinstance(body[0], ast.Return):
            return
        ret = body[0].value
        params = func.params()
        if not isinstance(ret, ast.Call):
            return
        fname = dotted_text(ret.func)
        if fname in ('any', 'all') and len(ret.args) == 1 and \
                isinstance(ret.args[0], (ast.GeneratorExp, ast.ListComp)):
            gen = ret.args[0]
            if len(gen.generators) != 1 or gen.generators[0].ifs:
                return
            comp = gen.generators[0]
            zipped = comp.iter
            if not (isinstance(zipped, ast.Call) and
                    (dotted_text(zipped.func) or '').endswith('zip') and
                    len(zipped.args) == 2):
                return
            srcs = [txt(a) for a in zipped.args]
            if not (isinstance(comp.target, ast.Tuple) and
                    len(comp.target.elts) == 2):
                return
            tnames = [txt(e) for e in comp.target.elts]
            quant = 'ANY' if fname == 'any' else 'ALL'
            elt = gen.elt
            if isinstance(elt, ast.Call) and len(elt.args) == 2 and \
                    isinstance(elt.func, ast.Name) and \
                    elt.func.id in params:
                order = [txt(a) for a in elt.args]
                if sorted(order) != sorted(tnames):
                    return
                left = srcs[tnames.index(order[0])]
                right = srcs[tnames.index(order[1])]
                if left in params and right in params:
                    self.generic[name] = (quant, params.index(elt.func.id),
                                          params.index(left),
                                          params.index(right))
            elif isinstance(elt, ast.Compare) and len(elt.ops) == 1:
                order = [txt(elt.left), txt(elt.comparators[0])]
                if sorted(order) != sorted(tnames):
                    return
                left = srcs[tnames.index(order[0])]
                right = srcs[tnames.index(order[1])]
                opr = _OPS.get(type(elt.ops[0]))
                if opr and left in params and right in params:
                    self.concrete[name] = (quant, opr, params.index(left),
                                           params.index(right))
            return
        if fname in self.generic and len(ret.args) == 3:
            quant, oidx, lidx, ridx = self.generic[fname]
            oper = _OPERATOR.get(dotted_text(ret.args[oidx]) or '')
            left = txt(ret.args[lidx])
            right = txt(ret.args[ridx])
            if oper and left in params and right in params:
                self.concrete[name] = (quant, oper, params.index(left),
                                       params.index(right))
            return
        if fname in self.concrete and len(ret.args) == 2:
            quant, oper, lidx, ridx = self.concrete[fname]
            left = txt(ret.args[lidx])
            right = txt(ret.args[ridx])
            if left in params and right in params:
                self.concrete[name] = (quant, oper, params.index(left),
                                       params.index(right))

    def atom_of_call(self, call):
        fname = dotted_text(call.func)
        if fname is None:
            return None
        short = fname.split('.')[-1]
        if short in self.concrete and len(call.args) == 2 and \
                (fname == short or fname.endswith('scheduler.' + short)):
            quant, oper, lidx, ridx = self.concrete[short]
            return vec_atom(quant, oper, call.args[lidx], call.args[ridx])
        if short in self.generic and len(call.args) == 3:
            quant, oidx, lidx, ridx = self.generic[short]
            oper = _OPERATOR.get(dotted_text(call.args[oidx]) or '')
            if oper:
                return vec_atom(quant, oper, call.args[lidx],
                                call.args[ridx])
        return None


def vec_atom(quant, oper, left, right):
    ment = mentions(left) | mentions(right)
    ltxt, rtxt = txt(left), txt(right)
    if oper in ('>', '>='):
        oper = _FLIP[oper]
        ltxt, rtxt = rtxt, ltxt
    if oper in ('==', '!=', '~=') and rtxt < ltxt:
        ltxt, rtxt = rtxt, ltxt
    return Atom(('vec', quant, oper, ltxt, rtxt), ment)


def _numpy_vec(expr):
    """np.any(l > r), (l > r).any(), np.all(...), (..).all()"""
    if not isinstance(expr, ast.Call):
        return None
    fname = dotted_text(expr.func) or ''
    inner = None
    quant = None
    if fname in ('np.any', 'numpy.any', 'np.all', 'numpy.all') and \
            len(expr.args) == 1:
        inner = expr.args[0]
        quant = 'ANY' if fname.endswith('any') else 'ALL'
    elif isinstance(expr.func, ast.Attribute) and \
            expr.func.attr in ('any', 'all') and not expr.args:
        inner = expr.func.value
        quant = 'ANY' if expr.func.attr == 'any' else 'ALL'
    if inner is not None and isinstance(inner, ast.Compare) and \
            len(inner.ops) == 1 and type(inner.ops[0]) in _OPS:
        return vec_atom(quant, _OPS[type(inner.ops[0])], inner.left,
                        inner.comparators[0])
    return None


# ---------------------------------------------------------------------------
# atoms
# ---------------------------------------------------------------------------

class Normaliser(object):
    """Turns test expressions into atoms.  ``helpers`` is a VecHelpers (or
    None)."""

    def __init__(self, helpers=None, env=None):
        self.helpers = helpers
        self.env = env          # explicit copy-propagation environment

    def env_of(self, node):
        """Copy-propagation environment for a CFG node: the explicit one,
        or the single-assignment locals of the node's function."""
        if self.env is not None:
            return self.env
        graph = getattr(node, 'cfg', None)
        if graph is None or graph.func is None:
            return {}
        if graph._copy_env is None:
            graph._copy_env = copy_env(graph.func.node, graph)
        return graph._copy_env

    def atom_at(self, node, expr=None):
        """Atom of a test node (or of expr evaluated at that node) after
        copy propagation of single-assignment locals."""
        expr = node.ast if expr is None else expr
        return self.atom(subst(expr, self.env_of(node)))

    def atom(self, expr):
        if self.env:
            expr = subst(expr, self.env)
        if isinstance(expr, ast.UnaryOp) and isinstance(expr.op, ast.Not):
            return negate(self.atom(expr.operand))
        if isinstance(expr, ast.Compare) and len(expr.ops) == 1:
            op = expr.ops[0]
            left, right = expr.left, expr.comparators[0]
            if type(op) in _OPS:
                return cmp_atom(left, _OPS[type(op)], right)
            ment = mentions(left) | mentions(right)
            if isinstance(op, (ast.Is, ast.IsNot)):
                lt, rt = txt(left), txt(right)
                if rt < lt and rt != 'None':
                    lt, rt = rt, lt
                if lt == 'None':
                    lt, rt = rt, lt
                return Atom(('is', lt, rt, isinstance(op, ast.Is)), ment)
            if isinstance(op, (ast.In, ast.NotIn)):
                return Atom(('in', txt(left), txt(right),
                             isinstance(op, ast.In)), ment)
        if isinstance(expr, ast.Call):
            if self.helpers is not None:
                vec = self.helpers.atom_of_call(expr)
                if vec is not None:
                    return vec
            vec = _numpy_vec(expr)
            if vec is not None:
                return vec
            fname = dotted_text(expr.func)
            if fname == 'bool' and len(expr.args) == 1:
                return self.atom(expr.args[0])
        return Atom(('truth', txt(expr), True), mentions(expr))

    def facts_of_edge(self, edge):
        """Atoms established by taking ``edge`` out of a test node."""
        if edge.src.kind != 'test' or edge.kind not in ('true', 'false'):
            return []
        atom = self.atom(edge.src.ast)
        if edge.kind != 'true':
            atom = negate(atom)
        out = [atom]
        env = self.env_of(edge.src)
        if env and (mentions(edge.src.ast) & set(env)):
            expr = subst(edge.src.ast, env)
            if isinstance(expr, ast.Call) and isinstance(
                    expr.func, ast.Name) and expr.func.id == 'bool' and \
                    len(expr.args) == 1 and not expr.keywords:
                expr = expr.args[0]
            if isinstance(expr, (ast.BoolOp, ast.UnaryOp, ast.IfExp)):
                # a local holding a compound condition: the outcome
                # establishes a conjunction of atoms, or one of several -
                # spelled over the locals it was written with and over what
                # those stand for
                seen = set(a.key for a in out)
                shallow = edge.src.ast
                if isinstance(shallow, ast.Name) and shallow.id in env:
                    shallow = env[shallow.id]
                    if isinstance(shallow, ast.Call) and isinstance(
                            shallow.func, ast.Name) and \
                            shallow.func.id == 'bool' and \
                            len(shallow.args) == 1:
                        shallow = shallow.args[0]
                for variant in (shallow, expr):
                    if not isinstance(variant, (ast.BoolOp, ast.UnaryOp,
                                                ast.IfExp)):
                        continue
                    saved, self.env = self.env, {}
                    try:
                        form = self._formula(variant, edge.kind == 'true')
                    finally:
                        self.env = saved
                    for part in self._flatten(form):
                        if part.key in seen:
                            continue
                        seen.add(part.key)
                        part.raw = atom
                        out.append(part)
                return out
            twin = self.atom(expr)
            if edge.kind != 'true':
                twin = negate(twin)
            if twin.key != atom.key:
                twin.raw = atom
                out.append(twin)
        return out

    def _flatten(self, form):
        """Atoms established by a formula that holds: the atoms of a
        conjunction; a disjunction becomes one 'anyof' atom."""
        if form[0] == 'atom':
            return [Atom(form[1].key, form[1].mentions)]
        if form[0] == 'and':
            out = []
            for part in form[1]:
                out.extend(self._flatten(part))
            return out
        # a disjunction: one 'anyof' atom whose alternatives are the
        # conjunctions of atoms of its disjuncts
        alts = []
        ment = set()
        for part in form[1]:
            sub = [a for a in self._flatten(part) if a.key[0] != 'anyof']
            if not sub:
                return []
            alts.append(sub)
            for atom in sub:
                ment |= set(atom.mentions)
        keys = tuple(sorted((tuple(sorted((a.key for a in alt), key=repr))
                             for alt in alts), key=repr))
        atom = Atom(('anyof', keys), frozenset(ment))
        _ANYOF[atom.key] = alts
        return [atom]

    def formula(self, expr):
        """Boolean structure over atoms: ('and', [..]) / ('or', [..]) /
        ('atom', Atom) in negation normal form."""
        return self._formula(expr, True)

    @staticmethod
    def _combine(kind, parts):
        """and/or with constant folding: ('and', []) is true, ('or', [])
        is false."""
        out = []
        for part in parts:
            if part[0] in ('and', 'or') and not part[1]:
                is_true = part[0] == 'and'
                if kind == 'and' and not is_true:
                    return ('or', [])
                if kind == 'or' and is_true:
                    return ('and', [])
                continue
            out.append(part)
        if len(out) == 1:
            return out[0]
        return (kind, out)

    def _formula(self, expr, pos):
        if isinstance(expr, ast.UnaryOp) and isinstance(expr.op, ast.Not):
            return self._formula(expr.operand, not pos)
        if isinstance(expr, ast.Call) and isinstance(expr.func, ast.Name) \
                and expr.func.id == 'bool' and len(expr.args) == 1 and \
                not expr.keywords:
            return self._formula(expr.args[0], pos)
        if isinstance(expr, ast.Constant):
            return ('and', []) if bool(expr.value) == pos else ('or', [])
        if isinstance(expr, ast.IfExp):
            # A if T else B  ==  (T and A) or (not T and B)
            #            not  ==  (T and not A) or (not T and not B)
            return self._combine('or', [
                self._combine('and', [self._formula(expr.test, True),
                                      self._formula(expr.body, pos)]),
                self._combine('and', [self._formula(expr.test, False),
                                      self._formula(expr.orelse, pos)])])
        if isinstance(expr, ast.BoolOp):
            is_and = isinstance(expr.op, ast.And)
            if not pos:
                is_and = not is_and
            parts = [self._formula(v, pos) for v in expr.values]
            return self._combine('and' if is_and else 'or', parts)
        atom = self.atom(expr)
        return ('atom', atom if pos else negate(atom))


def negate(atom):
    key = atom.key
    kind = key[0]
    if kind == 'cmp':
        _k, op, lin = key
        lin = dict(lin)
        if op == '<':
            return _cmp_from_lin(_neg_lin(lin), '<=', atom.mentions)
        if op == '<=':
            return _cmp_from_lin(_neg_lin(lin), '<', atom.mentions)
        return Atom(('cmp', _NEG[op], key[2]), atom.mentions)
    if kind in ('is', 'in'):
        return Atom((kind, key[1], key[2], not key[3]), atom.mentions)
    if kind == 'truth':
        return Atom(('truth', key[1], not key[2]), atom.mentions)
    if kind == 'vec':
        _k, quant, oper, left, right = key
        nquant = 'ALL' if quant == 'ANY' else 'ANY'
        if oper == '<':        # not(l < r) = r <= l
            return Atom(('vec', nquant, '<=', right, left), atom.mentions)
        if oper == '<=':       # not(l <= r) = r < l
            return Atom(('vec', nquant, '<', right, left), atom.mentions)
        nop = {'==': '!=', '!=': '==', '~=': '!~'}.get(oper, 'not' + oper)
        return Atom(('vec', nquant, nop, left, right), atom.mentions)
    raise ValueError(kind)


_ANYOF = {}


def alternatives(atom):
    """The alternatives of an 'anyof' atom: a list of conjunctions (lists
    of atoms), one of which holds."""
    return _ANYOF.get(atom.key, [])


def raw_only(facts):
    """Facts read directly from the source (copy-propagated twins
    dropped) - for rules that require an exact guard set."""
    return [f for f in facts if f.raw is None]


def canonical(facts):
    """One atom per source condition, in terms of what the locals stand
    for: a directly read atom is replaced by its copy-propagated twin(s)
    when it has any - for exact guard sets that must not depend on how
    intermediate values are named."""
    facts = list(facts)
    twinned = set(f.raw.key for f in facts if f.raw is not None)
    return [f for f in facts if f.raw is not None or f.key not in twinned]


def show(atom):
    key = atom.key
    kind = key[0]
    if kind == 'cmp':
        _k, op, lin = key
        pos = [(t, c) for t, c in lin if c > 0]
        neg = [(t, -c) for t, c in lin if c < 0]

        def side(items):
            if not items:
                return '0'
            out = []
            for term, coeff in items:
                if term == '':
                    out.append(str(coeff))
                elif coeff == 1:
                    out.append(term)
                else:
                    out.append('%s*%s' % (coeff, term))
            return ' + '.join(out)
        return '%s %s %s' % (side(pos), op, side(neg))
    if kind == 'is':
        return '%s %s %s' % (key[1], 'is' if key[3] else 'is not', key[2])
    if kind == 'in':
        return '%s %s %s' % (key[1], 'in' if key[3] else 'not in', key[2])
    if kind == 'truth':
        return key[1] if key[2] else 'not (%s)' % key[1]
    if kind == 'vec':
        return '%s(%s %s %s)' % (key[1], key[3], key[2], key[4])
    if kind == 'anyof':
        return ' or '.join('(%s)' % ' and '.join(show(a) for a in alt)
                           for alt in alternatives(atom))
    return repr(key)


def cmp_parts(atom):
    """(op, {term: coeff}) of a cmp atom, else None."""
    if atom.key[0] != 'cmp':
        return None
    return atom.key[1], dict(atom.key[2])


def same_direction(atom, other):
    """Two cmp atoms over the same linear form, ignoring strictness."""
    pa, pb = cmp_parts(atom), cmp_parts(other)
    if pa is None or pb is None:
        return False
    if pa[1] != pb[1]:
        return False
    strict = {'<': 'lt', '<=': 'lt'}
    return strict.get(pa[0], pa[0]) == strict.get(pb[0], pb[0])


# ---------------------------------------------------------------------------
# must-facts: atoms that hold on every path reaching a node
# ---------------------------------------------------------------------------

def assigned_targets(node):
    """Names / dotted chains (and subscript bases) a CFG node assigns."""
    out = set()
    stmt = node.ast
    if stmt is None:
        return out

    def tgt(target):
        if isinstance(target, (ast.Tuple, ast.List)):
            for elt in target.elts:
                tgt(elt)
        elif isinstance(target, ast.Starred):
            tgt(target.value)
        elif isinstance(target, ast.Name):
            out.add(target.id)
        elif isinstance(target, ast.Attribute):
            dotted = dotted_text(target)
            if dotted:
                out.add(dotted)
        elif isinstance(target, ast.Subscript):
            dotted = dotted_text(target.value)
            if dotted:
                out.add(dotted + '[]')
                out.add(dotted)

    if node.kind == 'for':
        return out          # the target is assigned on the 'iter' edge
    if node.kind == 'with_enter':
        for item in stmt.items:
            if item.optional_vars is not None:
                tgt(item.optional_vars)
        return out
    if node.kind == 'handler':
        if stmt.name:
            out.add(stmt.name)
        return out
    if isinstance(stmt, ast.Assign):
        for target in stmt.targets:
            tgt(target)
    elif isinstance(stmt, (ast.AugAssign, ast.AnnAssign)):
        tgt(stmt.target)
    elif isinstance(stmt, ast.Delete):
        for target in stmt.targets:
            tgt(target)
    elif isinstance(stmt, (ast.FunctionDef, ast.ClassDef)):
        out.add(stmt.name)
    for root in ([stmt] if node.kind in ('stmt', 'return', 'test') else []):
        if isinstance(root, (ast.FunctionDef, ast.ClassDef)):
            continue
        for sub in ast.walk(root):
            if isinstance(sub, ast.NamedExpr):
                tgt(sub.target)
    return out


def for_targets(node):
    out = set()
    if node.kind == 'for':
        for sub in ast.walk(node.ast.target):
            if isinstance(sub, ast.Name):
                out.add(sub.id)
    return out


def _killed(fact, names):
    if not names:
        return False
    for ment in fact.mentions:
        if ment in names:
            return True
        # assignment to a prefix kills the chain (a = ... kills a.b)
        for name in names:
            if ment.startswith(name + '.'):
                return True
    return False


def must_facts(cfg, normaliser, extra_kill=None, edge_ok=None,
               extra_gen=None):
    """dict node -> frozenset(Atom) holding on *entry* of the node on every
    path (exceptional edges included unless filtered)."""
    from . import cfg as _cfg
    _cfg.STATS['queries'] += 1
    _cfg.STATS['visited'] += len(cfg.nodes)
    top = None
    state = {n: top for n in cfg.nodes}
    state[cfg.entry] = frozenset()
    work = collections.deque([cfg.entry])
    while work:
        node = work.popleft()
        cur = state[node]
        if cur is None:
            continue
        kills = assigned_targets(node)
        if extra_kill is not None:
            kills = kills | set(extra_kill(node) or ())
        base = frozenset(f for f in cur if not _killed(f, kills)) \
            if kills else cur
        for edge in node.succ:
            if edge_ok is not None and not edge_ok(edge):
                continue
            out = base
            if edge.kind == 'exc':
                out = cur if not kills else base
            if node.kind == 'for' and edge.kind == 'iter':
                names = for_targets(node)
                out = frozenset(f for f in out if not _killed(f, names))
            gen = normaliser.facts_of_edge(edge)
            if extra_gen is not None:
                gen = list(gen) + list(extra_gen(edge) or ())
            if gen:
                out = out | frozenset(gen)
            old = state[edge.dst]
            new = out if old is None else (old & out)
            if old is None or new != old:
                state[edge.dst] = new
                work.append(edge.dst)
    return {n: (s if s is not None else frozenset())
            for n, s in state.items()}
