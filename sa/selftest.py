"""Sensitivity self-test: mutants must be detected, benign refactors must not.

Each rule module may define

  MUTANTS   = [(name, edits, expected_rule_prefix), ...]
  REFACTORS = [(name, edits), ...]

where edits is a list of (relative path, old text, new text); ``old`` must
occur exactly once in the file, otherwise the variant is recorded as
not_applicable (the tree under test was edited there) and never counts as a
failure.  Variants are applied as in-memory overlays on the index of the
tree under test - nothing is written into the repository and nothing of the
repository is executed; ``compile()`` checks that a variant is still valid
Python.
"""

import importlib
import multiprocessing
import os
import random

from . import repo_root
from .index import Index
from . import core

PROPS = ['C%02d' % i for i in range(1, 21)]
# bold rewrites kept for the record: not expected to be silent
BOLD = ('C15/h1', 'C19/h3', 'C20/h2')


def _parse_diff(path):
    """{relative file: [(old start line, old lines, new lines)]} of a
    unified diff (git format)."""
    files = {}
    cur = None
    hunk = None
    with open(path) as fh:
        content = fh.read().split('\n')
        if content and content[-1] == '':
            content.pop()
        for line in content:
            if line.startswith('\\'):
                continue
            if line.startswith('+++ '):
                name = line[4:].strip()
                if name.startswith('b/'):
                    name = name[2:]
                cur = files.setdefault(name, [])
                hunk = None
            elif line.startswith('--- ') or line.startswith('diff ') or \
                    line.startswith('index '):
                hunk = None
            elif line.startswith('@@') and cur is not None:
                start = int(line.split()[1].split(',')[0].lstrip('-'))
                hunk = (start, [], [])
                cur.append(hunk)
            elif hunk is not None:
                if line.startswith(' ') or line == '':
                    hunk[1].append(line[1:])
                    hunk[2].append(line[1:])
                elif line.startswith('-'):
                    hunk[1].append(line[1:])
                elif line.startswith('+'):
                    hunk[2].append(line[1:])
    return files


def _apply_hunks(text, hunks):
    """Apply the hunks of one file to its text; None when one of them does
    not fit (the tree under test differs there)."""
    lines = text.split('\n')
    shift = 0
    for start, old, new in hunks:
        at = None
        for delta in sorted(range(-60, 61), key=abs):
            pos = start - 1 + shift + delta
            if pos >= 0 and lines[pos:pos + len(old)] == old:
                at = pos
                break
        if at is None:
            return None
        lines[at:at + len(old)] = new
        shift += len(new) - len(old) + (at - (start - 1 + shift))
    return '\n'.join(lines)


def _build_overlay(edits, root):
    overlay = {}
    if isinstance(edits, str):
        # a recorded diff (seeded change or corpus refactoring)
        for rel, hunks in _parse_diff(edits).items():
            try:
                with open(os.path.join(root, rel)) as fh:
                    text = fh.read()
            except IOError:
                return None, 'missing file %s' % rel
            text = _apply_hunks(text, hunks)
            if text is None:
                return None, '%s: a hunk does not apply' % rel
            try:
                compile(text, rel, 'exec', dont_inherit=True)
            except SyntaxError as err:
                return None, 'variant does not compile: %s' % err
            overlay[rel] = text
        return overlay, None
    for rel, old, new in edits:
        path = os.path.join(root, rel)
        if rel in overlay:
            text = overlay[rel]
        else:
            try:
                with open(path) as fh:
                    text = fh.read()
            except IOError:
                return None, 'missing file %s' % rel
        if text.count(old) != 1:
            return None, '%s: anchor text occurs %d times' % (
                rel, text.count(old))
        text = text.replace(old, new)
        try:
            compile(text, rel, 'exec', dont_inherit=True)
        except SyntaxError as err:
            return None, 'variant does not compile: %s' % err
        overlay[rel] = text
    return overlay, None


def _run_variant(args):
    prop, kind, name, edits, expect, root = args[:6]
    tier = args[6] if len(args) > 6 else 'quick'
    overlay, why = _build_overlay(edits, root)
    if overlay is None:
        return (kind, name, 'not_applicable', why)
    res = core.analyse(prop, tier, Index(root, overlay=overlay))
    if res.code == 2:
        if kind == 'mutant':
            # an analysis error on a mutant is fail-closed (exit 2): the
            # check does not pass, but it does not name the instance either
            return (kind, name, 'analysis_error', res.error.splitlines()[0])
        return (kind, name, 'analysis_error', res.error.splitlines()[0])
    rules = sorted(set(o.rule for o in res.violations))
    if kind == 'mutant':
        if res.code == 1 and (not expect or
                              any(r.startswith(expect) for r in rules)):
            return (kind, name, 'detected', ' '.join(rules))
        if res.code == 1:
            return (kind, name, 'detected_other_rule', ' '.join(rules))
        return (kind, name, 'MISSED', '')
    if res.code == 0:
        return (kind, name, 'silent', '')
    return (kind, name, 'FALSE_ALARM', '; '.join(
        '%s %s %s' % (o.rule, o.func, o.construct) for o in res.violations))


def variants(prop):
    mod = importlib.import_module('sa.rules.%s' % prop.lower())
    muts = list(getattr(mod, 'MUTANTS', []))
    refs = list(getattr(mod, 'REFACTORS', []))
    # the recorded corpora of this property: every confirmed seeded change
    # is a mutant its own check must report, every recorded refactoring
    # (bold ones excepted, see refactors/README) must stay silent
    here = os.path.dirname(os.path.dirname(os.path.abspath(__file__)))
    sdir = os.path.join(here, 'seeded')
    if os.path.isdir(sdir):
        for name in sorted(os.listdir(sdir)):
            patch = os.path.join(sdir, name, 'patch.diff')
            if name.startswith(prop + '-') and os.path.isfile(patch):
                muts.append(('seed:%s' % name, patch, prop + '.'))
    rdir = os.path.join(here, 'refactors', prop)
    if os.path.isdir(rdir):
        for name in sorted(os.listdir(rdir)):
            if name.endswith('.diff') and \
                    '%s/%s' % (prop, name[:-5]) not in BOLD:
                refs.append(('corpus:%s/%s' % (prop, name[:-5]),
                             os.path.join(rdir, name)))
    return muts, refs


def run_for_property(prop, jobs=16, seed=0, root=None, verbose=False):
    root = root or repo_root()
    muts, refs = variants(prop)
    work = []
    for mut in muts:
        # (name, edits, expected rule[, tier]): whole-package OWNER clauses
        # exist in the thorough tier only
        name, edits, expect = mut[:3]
        work.append((prop, 'mutant', name, edits, expect, root,
                     mut[3] if len(mut) > 3 else 'quick'))
    for name, edits in refs:
        work.append((prop, 'refactor', name, edits, None, root))
    random.Random(seed).shuffle(work)
    if not work:
        return {'mutants_total': 0, 'refactors_total': 0}
    if jobs > 1 and len(work) > 1:
        ctxm = multiprocessing.get_context('fork')
        with ctxm.Pool(min(jobs, len(work))) as pool:
            results = pool.map(_run_variant, work)
    else:
        results = [_run_variant(w) for w in work]
    out = {
        'mutants_total': len(muts),
        'mutants_detected': 0,
        'mutants_analysis_error': 0,
        'mutants_missed': [],
        'mutants_not_applicable': 0,
        'refactors_total': len(refs),
        'refactors_silent': 0,
        'refactors_false_alarm': [],
        'refactors_not_applicable': 0,
        'details': [],
    }
    for kind, name, verdict, info in sorted(results):
        out['details'].append('%s %s: %s %s' % (kind, name, verdict, info))
        if kind == 'mutant':
            if verdict in ('detected', 'detected_other_rule'):
                out['mutants_detected'] += 1
            elif verdict == 'analysis_error':
                out['mutants_analysis_error'] += 1
            elif verdict == 'not_applicable':
                out['mutants_not_applicable'] += 1
            else:
                out['mutants_missed'].append(name)
        else:
            if verdict == 'silent':
                out['refactors_silent'] += 1
            elif verdict == 'not_applicable':
                out['refactors_not_applicable'] += 1
            else:
                out['refactors_false_alarm'].append('%s (%s)' % (name, info))
    return out


def main(argv):
    props = [a.upper() for a in argv if not a.startswith('-')] or PROPS
    bad = 0
    for prop in props:
        try:
            res = run_for_property(prop)
        except ImportError:
            continue
        print('%s: mutants %d/%d detected (%d analysis-error, %d n/a), '
              'refactors %d/%d silent (%d n/a)' % (
                  prop, res.get('mutants_detected', 0),
                  res.get('mutants_total', 0),
                  res.get('mutants_analysis_error', 0),
                  res.get('mutants_not_applicable', 0),
                  res.get('refactors_silent', 0),
                  res.get('refactors_total', 0),
                  res.get('refactors_not_applicable', 0)))
        for line in res.get('details', []):
            if 'MISSED' in line or 'FALSE_ALARM' in line or \
                    'analysis_error' in line or 'not_applicable' in line \
                    or '-v' in argv:
                print('   ', line)
        bad += len(res.get('mutants_missed', [])) + \
            len(res.get('refactors_false_alarm', []))
    return 1 if bad else 0
