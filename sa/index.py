"""E1 - index of the analysed package: modules, classes, functions, imports.

Also E2 (constant folder) lives here because it needs name resolution.
"""

import ast
import hashlib
import os

from . import AnalysisError, repo_root, PKG_REL


class FuncInfo(object):
    """One function or method (or nested function)."""

    def __init__(self, module, cls, node, parent=None):
        self.module = module
        self.cls = cls
        self.raw = node           # the function as written
        self._inl = None          # the function with helpers inlined
        self.inlined_callees = []
        self.name = node.name
        self.parent = parent
        if parent is not None:
            self.qualname = '%s.<locals>.%s' % (parent.qualname, node.name)
        elif cls is not None:
            self.qualname = '%s.%s' % (cls.name, node.name)
        else:
            self.qualname = node.name
        self._nested = None

    @property
    def node(self):
        """The function definition the rules analyse: the source function
        with private helpers that are not rule vocabulary inlined (see
        sa/inline.py); the raw definition when inlining is off."""
        index = getattr(self.module, 'index', None)
        if index is None or not index.inlining:
            return self.raw
        if self._inl is None:
            from . import inline
            self._inl = self.raw      # guard against re-entrance
            try:
                node, names = inline.inline_function(
                    index, self, index.resolve_call)
                self._inl = node
                self.inlined_callees = names
            except RecursionError:
                self._inl = self.raw
        return self._inl

    @property
    def fq(self):
        """Fully qualified name: module:qualname."""
        return '%s:%s' % (self.module.name, self.qualname)

    @property
    def rel(self):
        return self.module.rel

    def nested(self):
        """Functions defined directly inside this one."""
        if self._nested is None:
            self._nested = {}
            for sub in _walk_shallow(self.raw.body):
                if isinstance(sub, (ast.FunctionDef, ast.AsyncFunctionDef)):
                    self._nested[sub.name] = FuncInfo(
                        self.module, self.cls, sub, parent=self)
        return self._nested

    def nested_view(self):
        """nested(), plus the local functions that private helpers brought
        along when they were inlined into the normalised view."""
        out = dict(self.nested())
        stack = list(self.node.body)
        while stack:
            node = stack.pop()
            if isinstance(node, (ast.FunctionDef, ast.AsyncFunctionDef)):
                if node.name not in out:
                    out[node.name] = FuncInfo(self.module, self.cls, node,
                                              parent=self)
                continue
            if isinstance(node, (ast.ClassDef, ast.Lambda)):
                continue
            for field in ('finalbody', 'orelse', 'handlers', 'body',
                          '_inline_body'):
                sub = getattr(node, field, None)
                if isinstance(sub, list):
                    stack.extend(sub)
        return out

    def params(self):
        args = self.raw.args
        return [a.arg for a in args.posonlyargs + args.args]

    def decorators(self):
        return list(self.raw.decorator_list)

    def __repr__(self):
        return '<Func %s>' % self.fq


def _walk_shallow(stmts):
    """Yield statements of a body recursively, without entering nested
    function or class definitions (they are yielded, not entered)."""
    stack = list(reversed(stmts))
    while stack:
        node = stack.pop()
        yield node
        if isinstance(node, (ast.FunctionDef, ast.AsyncFunctionDef,
                             ast.ClassDef, ast.Lambda)):
            continue
        for field in ('finalbody', 'orelse', 'handlers', 'body'):
            sub = getattr(node, field, None)
            if isinstance(sub, list):
                stack.extend(reversed(sub))


class ClassInfo(object):
    """One class of the package."""

    def __init__(self, module, node):
        self.module = module
        self.node = node
        self.name = node.name
        self.base_exprs = list(node.bases)
        self.methods = {}
        self.consts = {}
        self.slots = None
        for stmt in node.body:
            if isinstance(stmt, (ast.FunctionDef, ast.AsyncFunctionDef)):
                # property setters share the name; keep the first (getter)
                # and store others under name@setter
                if stmt.name in self.methods:
                    key = '%s@%d' % (stmt.name, stmt.lineno)
                else:
                    key = stmt.name
                self.methods[key] = FuncInfo(module, self, stmt)
            elif isinstance(stmt, ast.Assign):
                for tgt in stmt.targets:
                    if isinstance(tgt, ast.Name):
                        self.consts[tgt.id] = stmt.value
                        if tgt.id == '__slots__':
                            self.slots = _literal_strings(stmt.value)

    @property
    def fq(self):
        return '%s:%s' % (self.module.name, self.name)

    def live_methods(self):
        """Methods analysed on their own: private helpers whose every call
        site was inlined into a caller are analysed there and skipped."""
        index = getattr(self.module, 'index', None)
        if index is None:
            return list(self.methods.values())
        return [f for f in self.methods.values() if not index.absorbed(f)]

    def __repr__(self):
        return '<Class %s>' % self.fq


def _literal_strings(node):
    if isinstance(node, (ast.Tuple, ast.List, ast.Set)):
        out = []
        for elt in node.elts:
            if isinstance(elt, ast.Constant) and isinstance(elt.value, str):
                out.append(elt.value)
        return out
    if isinstance(node, ast.Constant) and isinstance(node.value, str):
        return [node.value]
    return []


def _register_namedtuple(name, value):
    """X = collections.namedtuple('X', [...] | 'a b'): remember the field
    names so that X(a, b).f can be projected to its argument."""
    if not (isinstance(value, ast.Call) and len(value.args) >= 2 and
            (dotted_text(value.func) or '').endswith('namedtuple')):
        return
    spec = value.args[1]
    fields = None
    if isinstance(spec, (ast.List, ast.Tuple)) and all(
            isinstance(e, ast.Constant) for e in spec.elts):
        fields = [e.value for e in spec.elts]
    elif isinstance(spec, ast.Constant) and isinstance(spec.value, str):
        fields = spec.value.replace(',', ' ').split()
    if fields:
        from . import norm
        norm.NAMEDTUPLES[name] = fields


class ModuleInfo(object):
    """One parsed module."""

    def __init__(self, name, path, rel, text=None):
        self.name = name
        self.path = path
        self.rel = rel
        if text is not None:
            raw = text.encode('utf-8')
        else:
            with open(path, 'rb') as fh:
                raw = fh.read()
        self.digest = hashlib.sha256(raw).hexdigest()[:16]
        self.source = raw.decode('utf-8')
        try:
            self.tree = ast.parse(self.source, filename=path)
            if "f'" in self.source or 'f"' in self.source:
                self.tree = _FStrings().visit(self.tree)
                ast.fix_missing_locations(self.tree)
        except SyntaxError as err:
            raise AnalysisError('cannot parse %s: %s' % (rel, err))
        self.is_package = os.path.basename(path) == '__init__.py'
        self.imports = {}
        self.functions = {}
        self.classes = {}
        self.consts = {}
        self._scan()

    def _pkg(self):
        if self.is_package:
            return self.name
        return self.name.rpartition('.')[0]

    def _scan(self):
        for stmt in _walk_shallow(self.tree.body):
            if isinstance(stmt, ast.Import):
                for alias in stmt.names:
                    local = alias.asname or alias.name.split('.')[0]
                    target = alias.name if alias.asname else \
                        alias.name.split('.')[0]
                    self.imports[local] = target
            elif isinstance(stmt, ast.ImportFrom):
                base = stmt.module or ''
                if stmt.level:
                    pkg = self._pkg().split('.')
                    if stmt.level > 1:
                        pkg = pkg[:-(stmt.level - 1)]
                    base = '.'.join(pkg + ([base] if base else []))
                for alias in stmt.names:
                    local = alias.asname or alias.name
                    self.imports[local] = '%s.%s' % (base, alias.name)
        for stmt in self.tree.body:
            if isinstance(stmt, (ast.FunctionDef, ast.AsyncFunctionDef)):
                self.functions[stmt.name] = FuncInfo(self, None, stmt)
            elif isinstance(stmt, ast.ClassDef):
                self.classes[stmt.name] = ClassInfo(self, stmt)
            elif isinstance(stmt, ast.Assign):
                for tgt in stmt.targets:
                    if isinstance(tgt, ast.Name):
                        self.consts[tgt.id] = stmt.value
                        _register_namedtuple(tgt.id, stmt.value)
            elif isinstance(stmt, ast.AnnAssign) and stmt.value is not None:
                if isinstance(stmt.target, ast.Name):
                    self.consts[stmt.target.id] = stmt.value
            elif isinstance(stmt, (ast.If, ast.Try)):
                # conditional definitions (e.g. os.name == 'nt')
                for sub in _walk_shallow([stmt]):
                    if isinstance(sub, (ast.FunctionDef,
                                        ast.AsyncFunctionDef)):
                        self.functions.setdefault(
                            sub.name, FuncInfo(self, None, sub))
                    elif isinstance(sub, ast.ClassDef):
                        self.classes.setdefault(
                            sub.name, ClassInfo(self, sub))
                    elif isinstance(sub, ast.Assign):
                        for tgt in sub.targets:
                            if isinstance(tgt, ast.Name):
                                self.consts.setdefault(tgt.id, sub.value)

    def all_functions(self):
        """Every function, method and nested function of the module."""
        out = []

        def _add(func):
            out.append(func)
            for sub in func.nested().values():
                _add(sub)

        for func in self.functions.values():
            _add(func)
        for cls in self.classes.values():
            for func in cls.methods.values():
                _add(func)
        return out

    def live_functions(self):
        index = getattr(self, 'index', None)
        if index is None:
            return self.all_functions()
        return [f for f in self.all_functions() if not index.absorbed(f)]

    def line(self, lineno):
        lines = self.source.splitlines()
        if 1 <= lineno <= len(lines):
            return lines[lineno - 1].strip()
        return ''


class Index(object):
    """Lazy index over ``lib/python/treadmill``."""

    def __init__(self, root=None, overlay=None):
        self.root = root or repo_root()
        # overlay: {relative path: replacement source text} (self-test)
        self.overlay = overlay or {}
        self.pkg_dir = os.path.join(self.root, PKG_REL)
        self.modules = {}
        self._missing = set()
        self._all_loaded = False
        self.inlining = os.environ.get('TREADMILL_SA_NO_INLINE') != '1'

    # -- loading -----------------------------------------------------------
    def _path_of(self, name):
        base = os.path.join(self.pkg_dir, *name.split('.'))
        if os.path.isfile(base + '.py'):
            return base + '.py'
        init = os.path.join(base, '__init__.py')
        if os.path.isfile(init):
            return init
        return None

    def module(self, name, required=True):
        if name in self.modules:
            return self.modules[name]
        if name in self._missing:
            if required:
                raise AnalysisError('module %s not found in %s' %
                                    (name, self.pkg_dir))
            return None
        path = self._path_of(name)
        if path is None:
            self._missing.add(name)
            if required:
                raise AnalysisError('module %s not found in %s' %
                                    (name, self.pkg_dir))
            return None
        rel = os.path.relpath(path, self.root)
        mod = ModuleInfo(name, path, rel, self.overlay.get(rel))
        mod.index = self
        self.modules[name] = mod
        return mod

    def load_all(self, include_tests=False):
        """Parse every module of the package (thorough tier / OWNER rules)."""
        if self._all_loaded:
            return list(self.modules.values())
        top = os.path.join(self.pkg_dir, 'treadmill')
        for dirpath, dirnames, filenames in os.walk(top):
            dirnames.sort()
            if not include_tests:
                dirnames[:] = [d for d in dirnames if d != 'tests']
            for fname in sorted(filenames):
                if not fname.endswith('.py'):
                    continue
                path = os.path.join(dirpath, fname)
                relmod = os.path.relpath(path, self.pkg_dir)[:-3]
                parts = relmod.split(os.sep)
                if parts[-1] == '__init__':
                    parts = parts[:-1]
                name = '.'.join(parts)
                if name not in self.modules:
                    try:
                        rel = os.path.relpath(path, self.root)
                        self.modules[name] = ModuleInfo(
                            name, path, rel, self.overlay.get(rel))
                        self.modules[name].index = self
                    except AnalysisError:
                        # a module outside the anchored set that does not
                        # parse under this interpreter is skipped but counted
                        self._missing.add(name)
        self._all_loaded = True
        return list(self.modules.values())

    # -- name resolution ---------------------------------------------------
    def resolve_dotted(self, dotted):
        """Resolve 'pkg.mod.name' to ('module', ModuleInfo) /
        ('class', ClassInfo) / ('func', FuncInfo) / ('const', (mod, expr))
        or None."""
        mod = self.module(dotted, required=False)
        if mod is not None:
            return ('module', mod)
        head, _, tail = dotted.rpartition('.')
        if not head:
            return None
        mod = self.module(head, required=False)
        if mod is None:
            # maybe Class.attr
            res = self.resolve_dotted(head)
            if res and res[0] == 'class':
                cls = res[1]
                if tail in cls.methods:
                    return ('func', cls.methods[tail])
                if tail in cls.consts:
                    return ('const', (cls.module, cls.consts[tail]))
            return None
        if tail in mod.classes:
            return ('class', mod.classes[tail])
        if tail in mod.functions:
            return ('func', mod.functions[tail])
        if tail in mod.consts:
            return ('const', (mod, mod.consts[tail]))
        if tail in mod.imports:
            return self.resolve_dotted(mod.imports[tail])
        return None

    def resolve_expr(self, module, expr):
        """Resolve a Name / dotted Attribute expression used in ``module``."""
        parts = dotted_parts(expr)
        if not parts:
            return None
        head = parts[0]
        if head in module.classes and len(parts) == 1:
            return ('class', module.classes[head])
        if head in module.functions and len(parts) == 1:
            return ('func', module.functions[head])
        if head in module.classes and len(parts) == 2:
            cls = module.classes[head]
            if parts[1] in cls.methods:
                return ('func', cls.methods[parts[1]])
            if parts[1] in cls.consts:
                return ('const', (module, cls.consts[parts[1]]))
        if head in module.consts and len(parts) == 1:
            return ('const', (module, module.consts[head]))
        if head in module.imports:
            dotted = '.'.join([module.imports[head]] + parts[1:])
            res = self.resolve_dotted(dotted)
            if res is not None:
                return res
            return ('external', dotted)
        return None

    def resolve_class(self, module, expr):
        res = self.resolve_expr(module, expr)
        if res and res[0] == 'class':
            return res[1]
        return None

    def mro(self, cls):
        """Linearised bases inside the package (depth first, left to right;
        the package has no diamond that would need C3)."""
        out = []
        seen = set()

        def _visit(klass):
            if klass.fq in seen:
                return
            seen.add(klass.fq)
            out.append(klass)
            for base in klass.base_exprs:
                bcls = self.resolve_class(klass.module, base)
                if bcls is not None:
                    _visit(bcls)

        _visit(cls)
        return out

    def find_method(self, cls, name, skip_self=False):
        for klass in self.mro(cls)[1 if skip_self else 0:]:
            if name in klass.methods:
                return klass.methods[name]
        return None

    def all_slots(self, cls):
        out = []
        for klass in self.mro(cls):
            out.extend(klass.slots or [])
        return out

    def get_class(self, modname, clsname):
        mod = self.module(modname)
        if clsname not in mod.classes:
            raise AnalysisError('anchor vanished: class %s in %s' %
                                (clsname, mod.rel))
        return mod.classes[clsname]

    def get_func(self, modname, qualname):
        """'Class.method' or 'func' inside module; raises AnalysisError when
        the anchor is gone."""
        mod = self.module(modname)
        if '.' in qualname:
            cname, mname = qualname.split('.', 1)
            cls = mod.classes.get(cname)
            if cls is None or mname not in cls.methods:
                raise AnalysisError('anchor vanished: %s in %s' %
                                    (qualname, mod.rel))
            return cls.methods[mname]
        if qualname not in mod.functions:
            raise AnalysisError('anchor vanished: %s in %s' %
                                (qualname, mod.rel))
        return mod.functions[qualname]

    def absorbed(self, func):
        """func is a private helper all of whose call sites were inlined
        into its callers."""
        if not self.inlining:
            return False
        mod = func.module
        if not getattr(mod, '_expanded', False):
            mod._expanded = True
            for other in mod.all_functions():
                other.node  # pylint: disable=pointless-statement
        sites = getattr(self, 'inline_stats', {}).get(func.fq)
        if not sites:
            return False
        return len(sites) >= getattr(self, 'inline_totals', {}).get(
            func.fq, 10 ** 6)

    def resolve_call(self, func, call):
        """Resolve a call made inside ``func`` to a FuncInfo of the package:
        self.m() through the MRO, super().m(), module.f(), plain f(),
        nested functions."""
        fexpr = call.func
        if isinstance(fexpr, ast.Attribute) and isinstance(
                fexpr.value, ast.Name) and fexpr.value.id == 'self' and \
                func.cls is not None:
            return self.find_method(func.cls, fexpr.attr)
        if isinstance(fexpr, ast.Attribute) and isinstance(
                fexpr.value, ast.Call) and \
                dotted_text(fexpr.value.func) == 'super' and \
                func.cls is not None:
            return self.find_method(func.cls, fexpr.attr, skip_self=True)
        if isinstance(fexpr, ast.Attribute) and isinstance(
                fexpr.value, ast.Name) and func.cls is not None and \
                fexpr.value.id == func.cls.name:
            return self.find_method(func.cls, fexpr.attr)
        res = self.resolve_expr(func.module, fexpr)
        if res and res[0] == 'func':
            return res[1]
        if isinstance(fexpr, ast.Name):
            cur = func
            while cur is not None:
                for sub in cur.raw.body:
                    if isinstance(sub, (ast.FunctionDef,
                                        ast.AsyncFunctionDef)) and \
                            sub.name == fexpr.id:
                        return FuncInfo(cur.module, cur.cls, sub,
                                        parent=cur)
                cur = cur.parent
        return None

    def digests(self):
        return {m.rel: m.digest for m in self.modules.values()}



class _FStrings(ast.NodeTransformer):
    """f'{a}-{b:>5s}'  ->  '{a}-{b:>5s}'.format(a=a, b=b): the two spellings
    format the same values the same way; the rules read templates in the
    str.format spelling.  Only for replacement fields whose format spec is a
    constant (no nested fields); anything else is left as written."""

    def visit_JoinedStr(self, node):
        for val in node.values:
            if isinstance(val, ast.FormattedValue):
                val.value = self.visit(val.value)   # not the format spec
        parts = []
        kws = []
        used = {}
        for val in node.values:
            if isinstance(val, ast.Constant) and isinstance(val.value, str):
                parts.append(val.value.replace('{', '{{').replace('}', '}}'))
                continue
            if not isinstance(val, ast.FormattedValue):
                return node
            spec = ''
            if val.format_spec is not None:
                if not (isinstance(val.format_spec, ast.JoinedStr) and all(
                        isinstance(v, ast.Constant)
                        for v in val.format_spec.values)):
                    return node
                spec = ':' + ''.join(v.value for v in val.format_spec.values)
            conv = {-1: '', 115: '!s', 114: '!r', 97: '!a'}.get(
                val.conversion)
            if conv is None:
                return node
            text = ast.unparse(val.value)
            if text not in used:
                name = val.value.id if isinstance(val.value, ast.Name) and \
                    val.value.id not in [k.arg for k in kws] else \
                    '_f%d' % len(kws)
                used[text] = name
                kws.append(ast.keyword(arg=name, value=val.value))
            parts.append('{%s%s%s}' % (used[text], conv, spec))
        new = ast.Call(func=ast.Attribute(value=ast.Constant(
            value=''.join(parts)), attr='format', ctx=ast.Load()),
            args=[], keywords=kws)
        return ast.copy_location(new, node)

def dotted_parts(expr):
    """['a','b','c'] for a.b.c ; None when not a pure dotted name."""
    parts = []
    while isinstance(expr, ast.Attribute):
        parts.append(expr.attr)
        expr = expr.value
    if isinstance(expr, ast.Name):
        parts.append(expr.id)
        return list(reversed(parts))
    return None


def dotted_text(expr):
    parts = dotted_parts(expr)
    return '.'.join(parts) if parts else None


# ---------------------------------------------------------------------------
# E2: constant folder
# ---------------------------------------------------------------------------

class Unfoldable(Exception):
    pass


def fold(index, module, expr, depth=0, env=None):
    """Evaluate a constant expression symbolically from the AST.

    Supports literals, tuples/lists/dicts/sets of them, + - * // % ** << on
    numbers, string concatenation / % / .format / .join with constant
    arguments, len() of constant sequences, names of module constants
    (followed through imports).  Raises Unfoldable otherwise.
    """
    if depth > 12:
        raise Unfoldable('depth')
    env = env or {}

    def rec(sub):
        return fold(index, module, sub, depth + 1, env)

    if isinstance(expr, ast.Constant):
        return expr.value
    if isinstance(expr, (ast.Tuple, ast.List)):
        vals = [rec(e) for e in expr.elts]
        return tuple(vals) if isinstance(expr, ast.Tuple) else vals
    if isinstance(expr, ast.Set):
        return frozenset(rec(e) for e in expr.elts)
    if isinstance(expr, ast.Dict):
        out = {}
        for key, val in zip(expr.keys, expr.values):
            if key is None:
                out.update(rec(val))
            else:
                out[rec(key)] = rec(val)
        return out
    if isinstance(expr, ast.Name):
        if expr.id in env:
            return env[expr.id]
        if expr.id in ('True', 'False', 'None'):
            return {'True': True, 'False': False, 'None': None}[expr.id]
        res = index.resolve_expr(module, expr)
        if res and res[0] == 'const':
            cmod, cexpr = res[1]
            return fold(index, cmod, cexpr, depth + 1)
        raise Unfoldable('name %s' % expr.id)
    if isinstance(expr, ast.Attribute):
        res = index.resolve_expr(module, expr)
        if res and res[0] == 'const':
            cmod, cexpr = res[1]
            return fold(index, cmod, cexpr, depth + 1)
        if res and res[0] == 'external':
            if res[1] == 'string.ascii_letters':
                import string
                return string.ascii_letters
            if res[1] == 'string.digits':
                import string
                return string.digits
            if res[1] == 'string.ascii_lowercase':
                import string
                return string.ascii_lowercase
            if res[1] == 'string.ascii_uppercase':
                import string
                return string.ascii_uppercase
            if res[1] == 'sys.maxsize':
                import sys
                return sys.maxsize
        raise Unfoldable('attr %s' % ast.unparse(expr))
    if isinstance(expr, ast.UnaryOp):
        val = rec(expr.operand)
        if isinstance(expr.op, ast.USub):
            return -val
        if isinstance(expr.op, ast.UAdd):
            return +val
        if isinstance(expr.op, ast.Not):
            return not val
        if isinstance(expr.op, ast.Invert):
            return ~val
    if isinstance(expr, ast.BinOp):
        left = rec(expr.left)
        right = rec(expr.right)
        ops = {
            ast.Add: lambda a, b: a + b,
            ast.Sub: lambda a, b: a - b,
            ast.Mult: lambda a, b: a * b,
            ast.FloorDiv: lambda a, b: a // b,
            ast.Div: lambda a, b: a / b,
            ast.Mod: lambda a, b: a % b,
            ast.Pow: lambda a, b: a ** b,
            ast.LShift: lambda a, b: a << b,
            ast.RShift: lambda a, b: a >> b,
            ast.BitOr: lambda a, b: a | b,
            ast.BitAnd: lambda a, b: a & b,
        }
        fn = ops.get(type(expr.op))
        if fn is None:
            raise Unfoldable('binop')
        if isinstance(expr.op, ast.Pow) and isinstance(right, int) and \
                abs(right) > 4096:
            raise Unfoldable('pow too large')
        try:
            return fn(left, right)
        except Exception as err:  # pylint: disable=broad-except
            raise Unfoldable(str(err))
    if isinstance(expr, ast.Call):
        fname = dotted_text(expr.func)
        if fname == 'len' and len(expr.args) == 1:
            return len(rec(expr.args[0]))
        if fname in ('tuple', 'list', 'set', 'frozenset', 'sorted') and \
                len(expr.args) == 1:
            val = rec(expr.args[0])
            return {'tuple': tuple, 'list': list, 'set': frozenset,
                    'frozenset': frozenset, 'sorted': sorted}[fname](val)
        if fname in ('int', 'float', 'str') and len(expr.args) == 1:
            return {'int': int, 'float': float, 'str': str}[fname](
                rec(expr.args[0]))
        if isinstance(expr.func, ast.Attribute):
            meth = expr.func.attr
            if meth == 'format':
                base = rec(expr.func.value)
                args = [rec(a) for a in expr.args]
                kwargs = {k.arg: rec(k.value) for k in expr.keywords}
                return base.format(*args, **kwargs)
            if meth == 'join':
                base = rec(expr.func.value)
                return base.join(rec(expr.args[0]))
            if meth in ('lower', 'upper', 'strip') and not expr.args:
                return getattr(rec(expr.func.value), meth)()
        raise Unfoldable('call %s' % fname)
    if isinstance(expr, ast.JoinedStr):
        out = []
        for val in expr.values:
            if isinstance(val, ast.Constant):
                out.append(val.value)
            elif isinstance(val, ast.FormattedValue):
                out.append(str(rec(val.value)))
        return ''.join(out)
    if isinstance(expr, ast.Subscript):
        base = rec(expr.value)
        sl = expr.slice
        if isinstance(sl, ast.Slice):
            lo = rec(sl.lower) if sl.lower else None
            hi = rec(sl.upper) if sl.upper else None
            st = rec(sl.step) if sl.step else None
            return base[lo:hi:st]
        return base[rec(sl)]
    raise Unfoldable(type(expr).__name__)


def try_fold(index, module, expr, default=None):
    try:
        return fold(index, module, expr)
    except (Unfoldable, Exception):  # pylint: disable=broad-except
        return default
