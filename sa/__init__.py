"""Static analysis of Morgan-Stanley/treadmill against the given properties.

Pure standard library.  Nothing under the analysed repository is imported or
executed: every deciding step parses the current working tree with ``ast``.
"""

import os


class AnalysisError(Exception):
    """The analysis itself could not be carried out (exit 2)."""


def repo_root():
    """Root of the repository under analysis (``/repo`` unless overridden
    for the self-test's scratch copies)."""
    return os.environ.get('TREADMILL_SA_REPO', '/repo')


PKG_REL = 'lib/python'
