"""Statement-level inlining of private helpers (robustness against
"extract method" refactorings).

A call statement to a helper of the package that is *not part of the rule
vocabulary* (the method names the rule modules know about) is replaced by

    if True:            # marked ``_inline = <callee qualname>``
        <callee body, parameters substituted, locals renamed>

where every ``return E`` of the callee became ``<result> = E`` followed by a
``pass`` statement marked ``_inline_exit`` that the CFG builder turns into a
jump to the end of the block.  Call forms handled: ``h(...)`` as an
expression statement, ``x = h(...)``, ``return h(...)``, and ``if h(...)`` /
``if not h(...)`` (the call is hoisted into ``_r = h(...)`` first).  The
result is ordinary ``ast`` (unparse / walk work); only the CFG builder
interprets the markers.
"""

import ast
import copy
import glob
import os
import re

MAX_STMTS = 90
MAX_DEPTH = 2

_VOCAB = None


def vocabulary():
    """Identifiers the rule modules mention in string literals: helpers with
    these names are modelled by the rules themselves and never inlined."""
    global _VOCAB
    if _VOCAB is None:
        words = set()
        here = os.path.join(os.path.dirname(os.path.abspath(__file__)),
                            'rules')
        for path in glob.glob(os.path.join(here, '*.py')):
            with open(path) as fh:
                text = fh.read()
            # the self-test catalogues (MUTANTS/REFACTORS) quote repository
            # source and are not rule vocabulary
            cut = text.find('\nMUTANTS')
            if cut > 0:
                text = text[:cut]
            for match in re.finditer(r"'([A-Za-z_][A-Za-z0-9_]*)'", text):
                words.add(match.group(1))
        # ... and every identifier the given properties name in their
        # anchors (mechanisms such as Cell._find_placements are the units the
        # rules are written about)
        props = os.path.join(os.path.dirname(os.path.dirname(
            os.path.abspath(__file__))), 'properties.jsonl')
        try:
            import json
            with open(props) as fh:
                for line in fh:
                    line = line.strip()
                    if not line:
                        continue
                    anchors = json.loads(line).get('anchors', {})
                    blob = json.dumps([anchors.get('state', []),
                                       anchors.get('mechanism', [])])
                    for match in re.finditer(r'[A-Za-z_][A-Za-z0-9_]*',
                                             blob):
                        words.add(match.group(0))
        except (IOError, ValueError):
            pass
        _VOCAB = words
    return _VOCAB


def _count_stmts(body):
    return sum(1 for stmt in body for _n in ast.walk(stmt)
               if isinstance(_n, ast.stmt))


def _falls_through(body):
    """The end of the statement list can be reached (syntactic)."""
    if not body:
        return True
    last = body[-1]
    if isinstance(last, (ast.Return, ast.Raise)):
        return False
    if isinstance(last, ast.If):
        return _falls_through(last.body) or _falls_through(last.orelse)
    if isinstance(last, ast.Try):
        if last.finalbody and not _falls_through(last.finalbody):
            return False
        return _falls_through(last.body + last.orelse) or any(
            _falls_through(h.body) for h in last.handlers)
    if isinstance(last, (ast.With, ast.AsyncWith)):
        return _falls_through(last.body)
    return True


def _stored_names(body):
    out = set()
    for stmt in body:
        for sub in ast.walk(stmt):
            if isinstance(sub, ast.Name) and isinstance(
                    sub.ctx, (ast.Store, ast.Del)):
                out.add(sub.id)
            elif isinstance(sub, ast.ExceptHandler) and sub.name:
                out.add(sub.name)
    return out


def _comprehension_vars(body):
    out = set()
    for stmt in body:
        for sub in ast.walk(stmt):
            if isinstance(sub, ast.comprehension):
                for leaf in ast.walk(sub.target):
                    if isinstance(leaf, ast.Name):
                        out.add(leaf.id)
    return out


def _simple_arg(expr):
    """Argument expressions that may be substituted for a parameter."""
    if isinstance(expr, (ast.Name, ast.Constant)):
        return True
    if isinstance(expr, ast.Attribute):
        return _simple_arg(expr.value)
    if isinstance(expr, ast.Subscript):
        return _simple_arg(expr.value) and isinstance(
            expr.slice, (ast.Constant, ast.Name))
    if isinstance(expr, ast.Tuple) and expr.elts:
        # a record built for the call from plain pieces
        return all(_simple_arg(e) and not isinstance(e, ast.Tuple)
                   for e in expr.elts)
    return False


class _Project(ast.NodeTransformer):
    """(a, b, c)[1]  ->  b   (a record built and read back by position)."""

    def visit_Subscript(self, node):
        node = self.generic_visit(node)
        if isinstance(node.value, ast.Tuple) and isinstance(
                node.slice, ast.Constant) and isinstance(
                    node.slice.value, int) and not isinstance(
                        node.slice.value, bool) and \
                0 <= node.slice.value < len(node.value.elts) and not any(
                    isinstance(e, ast.Starred) for e in node.value.elts):
            return node.value.elts[node.slice.value]
        return node


class _Rename(ast.NodeTransformer):
    def __init__(self, params, locals_map):
        self.params = params
        self.locals_map = locals_map

    def visit_Name(self, node):
        if node.id in self.params and isinstance(node.ctx, ast.Load):
            return copy.deepcopy(self.params[node.id])
        if node.id in self.locals_map:
            return ast.copy_location(
                ast.Name(id=self.locals_map[node.id], ctx=node.ctx), node)
        return node

    def visit_ExceptHandler(self, node):
        self.generic_visit(node)
        if node.name and node.name in self.locals_map:
            node.name = self.locals_map[node.name]
        return node

    def visit_FunctionDef(self, node):
        return node

    visit_AsyncFunctionDef = visit_ClassDef = visit_Lambda = visit_FunctionDef


class _Returns(ast.NodeTransformer):
    """return E  ->  [result = E ;] pass(_inline_exit)"""

    def __init__(self, result):
        self.result = result

    def visit_Return(self, node):
        out = []
        if node.value is not None:
            if self.result is not None:
                out.append(ast.copy_location(ast.Assign(
                    targets=[ast.Name(id=self.result, ctx=ast.Store())],
                    value=node.value, lineno=node.lineno), node))
            elif any(isinstance(s, ast.Call) for s in ast.walk(node.value)):
                out.append(ast.copy_location(ast.Expr(value=node.value),
                                             node))
        elif self.result is not None:
            out.append(ast.copy_location(ast.Assign(
                targets=[ast.Name(id=self.result, ctx=ast.Store())],
                value=ast.Constant(value=None), lineno=node.lineno), node))
        marker = ast.copy_location(ast.Pass(), node)
        marker._inline_exit = True
        out.append(marker)
        return out

    def visit_FunctionDef(self, node):
        return node

    visit_AsyncFunctionDef = visit_ClassDef = visit_Lambda = visit_FunctionDef


def _resugar(stmts):
    """S = set() ; for T in IT: [if C:] S.add(E)   ->   S = {E for T in IT
    [if C]}  (lists with append likewise): accumulate loops are given the
    comprehension form the rules read."""
    out = []
    idx = 0
    while idx < len(stmts):
        stmt = stmts[idx]
        nxt = stmts[idx + 1] if idx + 1 < len(stmts) else None
        comp = _accumulate(stmt, nxt)
        if comp is not None:
            out.append(comp)
            idx += 2
            continue
        out.append(stmt)
        idx += 1
    return out


def _tail_yield_shape(fdef):
    """generator = prelude ; one loop whose body ends with the only yield
    (as a top-level statement of that body) ; nothing after the loop."""
    body = list(fdef.body)
    if body and isinstance(body[0], ast.Expr) and isinstance(
            body[0].value, ast.Constant) and isinstance(
                body[0].value.value, str):
        body = body[1:]
    yields = [n for n in ast.walk(fdef) if isinstance(n, (ast.Yield,
                                                          ast.YieldFrom))]
    if len(yields) != 1 or not body or not isinstance(body[-1], (ast.For,
                                                                 ast.While)):
        return False
    loop = body[-1]
    if loop.orelse or not loop.body:
        return False
    def tail(block):
        # the yield ends the iteration: last statement of the body, or of an
        # if-branch that is itself in tail position
        if not block:
            return False
        last_ = block[-1]
        if isinstance(last_, ast.Expr) and last_.value is yields[0]:
            return True
        if isinstance(last_, ast.If):
            return tail(last_.body) or tail(last_.orelse)
        return False
    if not tail(loop.body):
        return False
    # no other loop may hold the yield, and the prelude has no loops that
    # a `break` could be confused with
    return not any(isinstance(n, (ast.For, ast.While)) for st in loop.body
                   for n in ast.walk(st))


def _desugar_iter_adaptor(loop):
    """for x in takewhile(P, IT): B  ->  for x in IT: if not P(x): break; B
    for x in filter(P, IT): B     ->  for x in IT: if not P(x): continue; B
    (filterfalse dually); P a lambda, functools.partial(operator.OP, a) or a
    callable expression."""
    it = loop.iter
    if not (isinstance(it, ast.Call) and len(it.args) == 2 and
            not it.keywords):
        return False
    name = ast.unparse(it.func)
    kind = {'itertools.takewhile': 'takewhile', 'takewhile': 'takewhile',
            'filter': 'filter', 'six.moves.filter': 'filter',
            'itertools.filterfalse': 'filterfalse',
            'six.moves.filterfalse': 'filterfalse'}.get(name)
    if kind is None or not isinstance(loop.target, ast.Name):
        return False
    pred, source = it.args
    var = ast.Name(id=loop.target.id, ctx=ast.Load())
    cond = None
    if isinstance(pred, ast.Lambda) and len(pred.args.args) == 1 and \
            not pred.args.defaults:
        param = pred.args.args[0].arg

        class Sub(ast.NodeTransformer):
            def visit_Name(self, node):
                if node.id == param and isinstance(node.ctx, ast.Load):
                    return copy.deepcopy(var)
                return node
        cond = Sub().visit(copy.deepcopy(pred.body))
    elif isinstance(pred, ast.Call) and ast.unparse(pred.func) in (
            'functools.partial', 'partial') and len(pred.args) == 2 and \
            ast.unparse(pred.args[0]).startswith('operator.'):
        ops = {'ne': ast.NotEq, 'eq': ast.Eq, 'lt': ast.Lt, 'le': ast.LtE,
               'gt': ast.Gt, 'ge': ast.GtE, 'is_': ast.Is,
               'is_not': ast.IsNot, 'contains': None}
        oper = ast.unparse(pred.args[0]).split('.', 1)[1]
        if ops.get(oper) is not None:
            cond = ast.Compare(left=copy.deepcopy(pred.args[1]),
                               ops=[ops[oper]()], comparators=[var])
    elif isinstance(pred, ast.Constant) and pred.value is None and \
            kind != 'takewhile':
        cond = var
    if cond is None:
        if isinstance(pred, (ast.Name, ast.Attribute)):
            cond = ast.Call(func=copy.deepcopy(pred), args=[var], keywords=[])
        else:
            return False
    if kind == 'takewhile':
        test, jump = ast.UnaryOp(op=ast.Not(), operand=cond), ast.Break()
    elif kind == 'filter':
        test, jump = ast.UnaryOp(op=ast.Not(), operand=cond), ast.Continue()
    else:
        test, jump = cond, ast.Continue()
    guard = ast.If(test=test, body=[jump], orelse=[])
    for node in ast.walk(guard):
        ast.copy_location(node, loop)
    loop.iter = source
    loop.body = [guard] + loop.body
    return True


def _split_parallel(stmts):
    """a, b = x, y  ->  a = x ; b = y   when no right-hand side reads a
    name bound on the left (so the order does not matter)."""
    out = []
    for st in stmts:
        # a = b = V  ->  a = V ; b = V   for a constant or plain name V
        if isinstance(st, ast.Assign) and len(st.targets) > 1 and \
                all(isinstance(t, ast.Name) for t in st.targets) and \
                (isinstance(st.value, ast.Constant) or (
                    isinstance(st.value, ast.Name) and
                    st.value.id not in [t.id for t in st.targets])):
            for tgt in st.targets:
                new = ast.Assign(targets=[tgt],
                                 value=copy.deepcopy(st.value))
                ast.copy_location(new, st)
                ast.fix_missing_locations(new)
                out.append(new)
            continue
        # a, b = (X, Y) if C else (a, b)   ->   if C: a = X ; b = Y
        # (a helper returning a pair, folded at its call site): each arm is
        # a display of the same arity whose elements either are the target
        # itself (nothing to do) or read none of the targets
        if isinstance(st, ast.Assign) and len(st.targets) == 1 and \
                isinstance(st.targets[0], ast.Tuple) and \
                all(isinstance(t, ast.Name) for t in st.targets[0].elts) \
                and isinstance(st.value, ast.IfExp) and \
                isinstance(st.value.body, ast.Tuple) and \
                isinstance(st.value.orelse, ast.Tuple) and \
                len(st.value.body.elts) == len(st.value.orelse.elts) == \
                len(st.targets[0].elts) and not any(
                    isinstance(n, ast.Call)
                    for n in ast.walk(st.value.test)):
            names = [t.id for t in st.targets[0].elts]
            arms = []
            fine = len(set(names)) == len(names)
            for arm in (st.value.body, st.value.orelse):
                block = []
                for name, val in zip(names, arm.elts):
                    if isinstance(val, ast.Name) and val.id == name:
                        continue
                    if set(n.id for n in ast.walk(val)
                           if isinstance(n, ast.Name)) & set(names):
                        fine = False
                    new = ast.Assign(targets=[ast.Name(id=name,
                                                       ctx=ast.Store())],
                                     value=val)
                    ast.copy_location(new, st)
                    ast.fix_missing_locations(new)
                    block.append(new)
                arms.append(block)
            if fine and (arms[0] or arms[1]):
                test = st.value.test
                if not arms[0]:
                    test = ast.UnaryOp(op=ast.Not(), operand=test)
                    arms = [arms[1], []]
                new = ast.If(test=test, body=arms[0], orelse=arms[1])
                ast.copy_location(new, st)
                ast.fix_missing_locations(new)
                out.append(new)
                continue
        if isinstance(st, ast.Assign) and len(st.targets) == 1 and \
                isinstance(st.targets[0], ast.Tuple) and \
                isinstance(st.value, ast.Tuple) and \
                len(st.targets[0].elts) == len(st.value.elts) and \
                all(isinstance(t, ast.Name) or (
                    isinstance(t, ast.Attribute) and
                    isinstance(t.value, ast.Name))
                    for t in st.targets[0].elts):
            # (obj.x, obj.y = e0, e1 as well: plain attribute stores, and
            # no right-hand side calls anything or reads an attribute of
            # one of the stored names)
            elts = st.targets[0].elts
            bound = set(t.id if isinstance(t, ast.Name) else
                        '%s.%s' % (t.value.id, t.attr) for t in elts)
            attrs = set(t.attr for t in elts if isinstance(t, ast.Attribute))
            reads = set(n.id for v in st.value.elts for n in ast.walk(v)
                        if isinstance(n, ast.Name))
            if attrs:
                reads -= set(t.value.id for t in elts
                             if isinstance(t, ast.Attribute))
                if any(isinstance(n, ast.Call) or (
                        isinstance(n, ast.Attribute) and n.attr in attrs)
                       for v in st.value.elts for n in ast.walk(v)):
                    reads |= bound
            if not (bound & reads) and len(bound) == len(st.targets[0].elts):
                for tgt, val in zip(st.targets[0].elts, st.value.elts):
                    new = ast.Assign(targets=[tgt], value=val)
                    ast.copy_location(new, st)
                    out.append(new)
                continue
        out.append(st)
    return out


def _sort_in_place(stmts):
    """X = <fresh list> ; X.sort(key=K, ...)  ->  X = sorted(<it>, key=K,
    ...): the same list, named by the expression the ordering rules read."""
    out = []
    for st in stmts:
        prev = out[-1] if out else None
        if isinstance(st, ast.Expr) and isinstance(st.value, ast.Call) and \
                isinstance(st.value.func, ast.Attribute) and \
                st.value.func.attr == 'sort' and not st.value.args and \
                isinstance(st.value.func.value, ast.Name) and \
                isinstance(prev, ast.Assign) and len(prev.targets) == 1 and \
                isinstance(prev.targets[0], ast.Name) and \
                prev.targets[0].id == st.value.func.value.id:
            val = prev.value
            source = None
            if isinstance(val, ast.Call) and \
                    ast.unparse(val.func) == 'list' and \
                    len(val.args) == 1 and not val.keywords:
                source = val.args[0]
            elif isinstance(val, (ast.ListComp, ast.List)):
                source = val
            name = prev.targets[0].id
            if source is not None and not any(
                    isinstance(n, ast.Name) and n.id == name
                    for kw in st.value.keywords for n in ast.walk(kw.value)):
                new = ast.Assign(
                    targets=prev.targets,
                    value=ast.Call(func=ast.Name(id='sorted',
                                                 ctx=ast.Load()),
                                   args=[source],
                                   keywords=st.value.keywords))
                ast.copy_location(new, prev)
                ast.fix_missing_locations(new)
                out[-1] = new
                continue
        out.append(st)
    return out


def _desugar_reduce(stmts):
    """T = functools.reduce(F, IT, INIT)  ->  T = INIT
                                             for x in IT: T = F(T, x)
    with IT a generator expression / comprehension spelled out as loop and
    filter (directly, or held in a local used only there)."""
    out = []
    idx = 0
    stmts = list(stmts)
    while idx < len(stmts):
        st = stmts[idx]
        call = st.value if isinstance(st, ast.Assign) and \
            len(st.targets) == 1 and \
            isinstance(st.targets[0], ast.Name) else None
        if not (isinstance(call, ast.Call) and
                ast.unparse(call.func) in ('functools.reduce', 'reduce',
                                           'six.moves.reduce') and
                len(call.args) == 3 and not call.keywords):
            out.append(st)
            idx += 1
            continue
        func, source, init = call.args
        # the operand held in a local bound right before
        if isinstance(source, ast.Name) and out and isinstance(
                out[-1], ast.Assign) and len(out[-1].targets) == 1 and \
                isinstance(out[-1].targets[0], ast.Name) and \
                out[-1].targets[0].id == source.id:
            uses = sum(1 for s2 in stmts for n in ast.walk(s2)
                       if isinstance(n, ast.Name) and n.id == source.id)
            if uses == 2 and isinstance(out[-1].value,
                                        (ast.GeneratorExp, ast.ListComp)):
                source = out.pop().value
        target = st.targets[0].id
        acc = ast.Name(id=target, ctx=ast.Load())
        first = ast.Assign(targets=[ast.Name(id=target, ctx=ast.Store())],
                           value=init)
        if isinstance(source, (ast.GeneratorExp, ast.ListComp)) and \
                len(source.generators) == 1 and \
                not source.generators[0].is_async:
            gen = source.generators[0]
            loop_target = copy.deepcopy(gen.target)
            for node in ast.walk(loop_target):
                if isinstance(node, ast.Name):
                    node.ctx = ast.Store()
            step = ast.Assign(
                targets=[ast.Name(id=target, ctx=ast.Store())],
                value=ast.Call(func=func, args=[acc, source.elt],
                               keywords=[]))
            body = [step]
            if gen.ifs:
                test = gen.ifs[0] if len(gen.ifs) == 1 else ast.BoolOp(
                    op=ast.And(), values=list(gen.ifs))
                body = [ast.If(test=test, body=[step], orelse=[])]
            loop = ast.For(target=loop_target, iter=gen.iter, body=body,
                           orelse=[])
        else:
            var = ast.Name(id='_red_%s' % target, ctx=ast.Store())
            step = ast.Assign(
                targets=[ast.Name(id=target, ctx=ast.Store())],
                value=ast.Call(func=func, args=[acc, ast.Name(
                    id='_red_%s' % target, ctx=ast.Load())], keywords=[]))
            loop = ast.For(target=var, iter=source, body=[step], orelse=[])
        for new in (first, loop):
            ast.copy_location(new, st)
            for node in ast.walk(new):
                if not hasattr(node, 'lineno'):
                    ast.copy_location(node, st)
        out.extend([first, loop])
        idx += 1
    return out


def _keyerror_try(stmt):
    """try: X = D[K]            if K in D:
    except KeyError: A    ->      X = D[K] ; B
    else: B                   else: A
    (a lookup guarded by its own KeyError is a membership test)."""
    if not (isinstance(stmt, ast.Try) and len(stmt.body) == 1 and
            len(stmt.handlers) == 1 and not stmt.finalbody):
        return None
    hdl = stmt.handlers[0]
    if hdl.name or hdl.type is None or \
            ast.unparse(hdl.type) != 'KeyError':
        return None
    first = stmt.body[0]
    value = first.value if isinstance(first, (ast.Assign, ast.Expr)) \
        else None
    if not (isinstance(value, ast.Subscript) and
            isinstance(value.ctx, ast.Load)):
        return None
    if any(isinstance(n, (ast.Call, ast.Subscript))
           for n in ast.walk(value.slice)) or any(
               isinstance(n, ast.Call) for n in ast.walk(value.value)):
        return None
    test = ast.Compare(left=copy.deepcopy(value.slice), ops=[ast.In()],
                       comparators=[copy.deepcopy(value.value)])
    new = ast.If(test=test, body=[first] + list(stmt.orelse),
                 orelse=list(hdl.body))
    ast.copy_location(new, stmt)
    for node in ast.walk(test):
        ast.copy_location(node, stmt)
    return new


def _iterator_temps(stmts):
    """X = CALL(...) ; for T in X: ...  (X not used elsewhere in the list)
    ->  for T in CALL(...): ...   so that adaptors and generator helpers are
    seen where they are consumed."""
    out = list(stmts)
    idx = 0
    while idx + 1 < len(out):
        first, second = out[idx], out[idx + 1]
        if isinstance(first, ast.Assign) and len(first.targets) == 1 and \
                isinstance(first.targets[0], ast.Name) and \
                isinstance(first.value, ast.Call) and \
                isinstance(second, (ast.For,)) and \
                isinstance(second.iter, ast.Name) and \
                second.iter.id == first.targets[0].id:
            name = first.targets[0].id
            uses = sum(1 for st in out for n in ast.walk(st)
                       if isinstance(n, ast.Name) and n.id == name)
            if uses == 2:
                second.iter = first.value
                del out[idx]
                continue
        idx += 1
    return out


def _is_logging(stmt):
    return isinstance(stmt, ast.Expr) and isinstance(stmt.value, ast.Call) \
        and isinstance(stmt.value.func, ast.Attribute) and \
        isinstance(stmt.value.func.value, ast.Name) and \
        stmt.value.func.value.id in ('_LOGGER', 'logging', 'LOGGER', 'log')


def _fuse(stmts):
    """L = [E for T in IT if C] ; [logging] ; for V in L: BODY   ->
    L = [...] ; [logging] ; for T in IT: if C: V = E; BODY
    when C and E only read what T binds (a pure function of the element):
    the guards of BODY are then visible to the rules as branch conditions."""
    out = list(stmts)
    for idx, stmt in enumerate(out):
        if not (isinstance(stmt, ast.Assign) and len(stmt.targets) == 1 and
                isinstance(stmt.targets[0], ast.Name) and
                isinstance(stmt.value, (ast.ListComp, ast.GeneratorExp)) and
                len(stmt.value.generators) == 1 and
                stmt.value.generators[0].ifs and
                not stmt.value.generators[0].is_async):
            continue
        name = stmt.targets[0].id
        jdx = idx + 1
        while jdx < len(out) and _is_logging(out[jdx]):
            jdx += 1
        if jdx >= len(out):
            continue
        loop = out[jdx]
        if not (isinstance(loop, ast.For) and not loop.orelse and
                isinstance(loop.iter, ast.Name) and loop.iter.id == name):
            continue
        comp = stmt.value
        gen = comp.generators[0]
        bound = set(n.id for n in ast.walk(gen.target)
                    if isinstance(n, ast.Name))

        def pure(expr):
            for node in ast.walk(expr):
                if isinstance(node, ast.Name) and node.id not in bound \
                        and node.id not in ('len', 'bool', 'None', 'True',
                                            'False'):
                    return False
                if isinstance(node, (ast.Call,)) and not (
                        isinstance(node.func, ast.Name) and
                        node.func.id in ('len', 'bool')):
                    return False
                if isinstance(node, (ast.Yield, ast.Await, ast.NamedExpr,
                                     ast.Lambda)):
                    return False
            return True
        if not all(pure(c) for c in gen.ifs) or not pure(comp.elt):
            continue
        # names bound by the element pattern must not be clobbered by V
        vnames = set(n.id for n in ast.walk(loop.target)
                     if isinstance(n, ast.Name))
        same = ast.dump(comp.elt).replace('Load()', 'X') == \
            ast.dump(loop.target).replace('Store()', 'X')
        if not same and (vnames & bound):
            continue
        body = list(loop.body)
        if not same:
            bind = ast.Assign(targets=[copy.deepcopy(loop.target)],
                              value=copy.deepcopy(comp.elt))
            ast.copy_location(bind, loop)
            body = [bind] + body
        test = gen.ifs[0] if len(gen.ifs) == 1 else ast.BoolOp(
            op=ast.And(), values=[copy.deepcopy(c) for c in gen.ifs])
        guard = ast.If(test=copy.deepcopy(test), body=body, orelse=[])
        ast.copy_location(guard, loop)
        target = copy.deepcopy(gen.target)
        for node in ast.walk(target):
            if isinstance(node, ast.Name):
                node.ctx = ast.Store()
        new = ast.For(target=target, iter=copy.deepcopy(gen.iter),
                      body=[guard], orelse=[])
        ast.copy_location(new, loop)
        for node in ast.walk(new):
            if not hasattr(node, 'lineno'):
                ast.copy_location(node, loop)
        new._fused = name
        out[jdx] = new
    return out


_NEGATED_OP = {ast.Eq: ast.NotEq, ast.NotEq: ast.Eq, ast.Is: ast.IsNot,
               ast.IsNot: ast.Is, ast.In: ast.NotIn, ast.NotIn: ast.In,
               ast.Lt: ast.GtE, ast.GtE: ast.Lt, ast.Gt: ast.LtE,
               ast.LtE: ast.Gt}


def _accumulate(init, loop):
    if not (isinstance(init, ast.Assign) and len(init.targets) == 1 and
            isinstance(init.targets[0], ast.Name) and
            isinstance(loop, ast.For) and not loop.orelse and
            not getattr(loop, '_desugared', None)):
        return None
    name = init.targets[0].id
    val = init.value
    kind = None
    if isinstance(val, ast.Call) and isinstance(val.func, ast.Name) and \
            not val.keywords and (not val.args or (
                len(val.args) == 1 and isinstance(
                    val.args[0], (ast.List, ast.Tuple)) and
                not val.args[0].elts)):
        kind = {'set': 'set', 'list': 'list'}.get(val.func.id)
    elif isinstance(val, ast.List) and not val.elts:
        kind = 'list'
    if kind is None:
        return None
    # guard clauses `if C: continue` in front of the collecting statement
    # are filters `not C`
    body = list(loop.body)
    conds = []
    while len(body) > 1 and isinstance(body[0], ast.If) and \
            not body[0].orelse and len(body[0].body) == 1 and \
            isinstance(body[0].body[0], ast.Continue):
        test = body[0].test
        if isinstance(test, ast.UnaryOp) and isinstance(test.op, ast.Not):
            conds.append(test.operand)
        elif isinstance(test, ast.Compare) and len(test.ops) == 1 and \
                type(test.ops[0]) in _NEGATED_OP:
            conds.append(ast.Compare(
                left=test.left, ops=[_NEGATED_OP[type(test.ops[0])]()],
                comparators=test.comparators))
        else:
            conds.append(ast.UnaryOp(op=ast.Not(), operand=test))
        body = body[1:]
    if len(body) != 1:
        return None
    inner = body[0]
    while isinstance(inner, ast.If) and not inner.orelse and \
            len(inner.body) == 1:
        conds.append(inner.test)
        inner = inner.body[0]
    if not (isinstance(inner, ast.Expr) and
            isinstance(inner.value, ast.Call) and
            isinstance(inner.value.func, ast.Attribute) and
            isinstance(inner.value.func.value, ast.Name) and
            inner.value.func.value.id == name and
            inner.value.func.attr == ('add' if kind == 'set' else 'append')
            and len(inner.value.args) == 1 and not inner.value.keywords):
        return None
    elt = inner.value.args[0]
    for expr in [elt, loop.iter] + conds:
        if any(isinstance(n, ast.Name) and n.id == name
               for n in ast.walk(expr)):
            return None
        if any(isinstance(n, (ast.Yield, ast.YieldFrom, ast.Await,
                              ast.NamedExpr)) for n in ast.walk(expr)):
            return None
    target = copy.deepcopy(loop.target)
    gen = ast.comprehension(target=target, iter=loop.iter, ifs=conds,
                            is_async=0)
    cls = ast.SetComp if kind == 'set' else ast.ListComp
    new = ast.Assign(targets=[ast.Name(id=name, ctx=ast.Store())],
                     value=cls(elt=elt, generators=[gen]))
    ast.copy_location(new, loop)
    for node in ast.walk(new):
        if not hasattr(node, 'lineno'):
            ast.copy_location(node, loop)
    new._resugared = True
    return new


class Inliner(object):
    def __init__(self, index, resolver):
        self.index = index
        self.resolve = resolver      # (FuncInfo, ast.Call) -> FuncInfo|None
        self.counter = 0
        self.inlined = []
        self._sites = {}
        self._one_caller = {}
        self._vec = {}
        self.taken = set()
        self.fn_stored = set()

    def inlinable(self, caller, call, stack, generator=False):
        callee = self.resolve(caller, call)
        if callee is None:
            return None
        if callee.name in vocabulary():
            return None
        if callee.fq in stack or callee is caller:
            return None
        if any(isinstance(n, ast.Call) and isinstance(n.func, ast.Attribute)
               and n.func.attr == 'symlink' and
               isinstance(n.func.value, ast.Name) and n.func.value.id == 'os'
               for n in ast.walk(callee.raw)):
            # the atomic claim of a name (os.symlink fails when it exists)
            # is a step the rules find by that role, whatever the routine
            # around it is called: judged where it stands
            return None
        if callee.module is not caller.module and not \
                self._inherited_wrapper(caller, call, callee):
            return None     # only helpers of the same module
        if self.is_vector_helper(callee):
            return None     # interpreted by the normaliser
        # an extracted helper has one call site (two at most); a helper
        # called from many places is a shared primitive of the module
        # (a tiny private one - a parameterised guard or step repeated a
        # few times - may have up to four)
        # few times inside one routine - may have up to four)
        sites = self.call_sites(callee)
        small = callee.name.startswith('_') and \
            _count_stmts(callee.raw.body) <= 6
        tiny = small and self._one_caller.get(callee.fq, False)
        # ... and a wrapper of two or three statements extracted from
        # several routines of the module (take the instance off and release
        # its identity; delete the record of a placement) up to six
        body = callee.raw.body
        if body and isinstance(body[0], ast.Expr) and isinstance(
                body[0].value, ast.Constant) and isinstance(
                    body[0].value.value, str):
            body = body[1:]         # the docstring is not a step
        # (a generator of four statements - an upward walk - included; a
        # four-statement routine is a step of its own, e.g. the trait
        # recomputation shared by TraitSet.add and TraitSet.remove)
        shared = small and _count_stmts(body) <= (4 if generator else 2)
        if sites > (6 if shared else 4 if tiny else 2):
            return None
        raw = callee.raw
        args = raw.args
        if args.vararg or args.kwarg:
            return None
        if any(isinstance(k, ast.keyword) and k.arg is None
               for k in call.keywords) or any(
                   isinstance(a, ast.Starred) for a in call.args):
            return None
        if _count_stmts(raw.body) > MAX_STMTS:
            return None
        yields = 0
        for sub in ast.walk(raw):
            if isinstance(sub, (ast.YieldFrom, ast.Await,
                                ast.Global, ast.Nonlocal)):
                return None
            if isinstance(sub, ast.Yield):
                yields += 1
        if bool(yields) != generator:
            return None
        for deco in raw.decorator_list:
            name = ast.unparse(deco)
            if name not in ('staticmethod', 'classmethod'):
                return None
        return callee

    def _inherited_wrapper(self, caller, call, callee):
        """A private wrapper of at most three statements that the caller
        inherits from a base class defined in another module
        (`self._put_terminated(..)` of Loader called by Master): its body
        may be read in the caller when every module-level name it uses is
        bound by the same import in both modules."""
        fexpr = call.func
        if not (isinstance(fexpr, ast.Attribute) and
                isinstance(fexpr.value, ast.Name) and
                fexpr.value.id == 'self' and callee.cls is not None and
                caller.cls is not None and callee.name.startswith('_') and
                _count_stmts(callee.raw.body) <= 3):  # docstring included
            return False

        def bindings(mod):
            out = {}
            for st in mod.tree.body:
                if isinstance(st, ast.Import):
                    for al in st.names:
                        out[(al.asname or al.name).split('.')[0]] = (
                            'import', al.name, al.asname)
                elif isinstance(st, ast.ImportFrom):
                    for al in st.names:
                        out[al.asname or al.name] = (
                            'from', st.module, st.level, al.name)
            return out
        here, there = bindings(caller.module), bindings(callee.module)
        params = set(a.arg for a in callee.raw.args.args)
        local = _stored_names(callee.raw.body) | params
        import builtins
        for sub in ast.walk(callee.raw):
            if isinstance(sub, ast.Name) and sub.id not in local and \
                    not hasattr(builtins, sub.id):
                if sub.id not in there or here.get(sub.id) != there[sub.id]:
                    return False
        return True

    def unique_method(self, caller, call):
        """`obj.m(..)` on a receiver other than self: the method when the
        caller's module defines `m` in exactly one class family (one
        definition, or overrides along one inheritance chain are not
        accepted - exactly one def) and no other module of the package
        defines a method of that name."""
        fexpr = call.func
        if not isinstance(fexpr, ast.Attribute) or isinstance(
                fexpr.value, ast.Constant):
            return None
        name = fexpr.attr
        key = ('um', name)
        if key not in self._sites:
            found = []
            for mod in list(self.index.modules.values()):
                if ('def %s(' % name) not in mod.source:
                    continue
                for cls in mod.classes.values():
                    func = cls.methods.get(name)
                    if func is not None:
                        found.append(func)
                if name in mod.functions:
                    found.append(None)      # also a plain function: unsure
            self._sites[key] = found[0] if len(found) == 1 else None
        callee = self._sites[key]
        if callee is None or callee.module is not caller.module:
            return None
        return callee

    def is_vector_helper(self, callee):
        if callee.cls is not None:
            return False
        key = callee.module.name
        if key not in self._vec:
            from . import norm
            self._vec[key] = norm.VecHelpers(callee.module)
        helpers = self._vec[key]
        return callee.name in helpers.concrete or \
            callee.name in helpers.generic

    def call_sites(self, callee):
        key = callee.fq
        if key not in self._sites:
            count = 0
            callers = set()
            for mod in list(self.index.modules.values()):
                if callee.name not in mod.source:
                    continue
                # (enclosing top-level def or method, call) pairs
                todo = [(None, mod.tree)]
                while todo:
                    owner, node = todo.pop()
                    for child in ast.iter_child_nodes(node):
                        inner = owner
                        if owner is None and isinstance(
                                child, (ast.FunctionDef,
                                        ast.AsyncFunctionDef)):
                            inner = (mod.name, child.lineno, child.name)
                        if isinstance(child, ast.Call):
                            fexpr = child.func
                            name = fexpr.attr if isinstance(
                                fexpr, ast.Attribute) else (
                                    fexpr.id if isinstance(fexpr, ast.Name)
                                    else None)
                            if name == callee.name:
                                count += 1
                                callers.add(inner)
                        todo.append((inner, child))
            self._sites[key] = count
            self._one_caller[key] = len(callers) == 1 and \
                None not in callers
        return self._sites[key]

    def expand(self, caller, call, callee, result, stack, cond=False,
               raw=None):
        """Statements replacing a call to callee (cond: (pre, body) for a
        call in condition position; returns stay ``return`` statements
        marked ``_inline_cond_ret``)."""
        if raw is None:
            # the helper in the same normal form as a routine viewed on its
            # own (named booleans read back into the tests they feed)
            key = id(callee.raw)
            # (the source tree is kept next to its folded form: an id can
            # be given to another tree once the first one is collected)
            if key not in _FOLDED_RAW or \
                    _FOLDED_RAW[key][0] is not callee.raw:
                _FOLDED_RAW[key] = (callee.raw, fold_test_flags(
                    sink_flag_return(fold_conditional_flag(fold_dict_calls(
                        copy.deepcopy(callee.raw))))))
            raw = _FOLDED_RAW[key][1]
        self.counter += 1
        tag = '%s__%d' % (callee.name.strip('_'), self.counter)
        params = [a.arg for a in raw.args.posonlyargs + raw.args.args]
        defaults = dict(zip(reversed(params),
                            reversed(raw.args.defaults)))
        for kwo, dflt in zip(raw.args.kwonlyargs, raw.args.kw_defaults):
            params.append(kwo.arg)
            if dflt is not None:
                defaults[kwo.arg] = dflt
        is_static = any(ast.unparse(d) == 'staticmethod'
                        for d in raw.decorator_list)
        bound = {}
        pos = list(params)
        if isinstance(call.func, ast.Attribute) and callee.cls is not None \
                and not is_static and pos:
            first = pos.pop(0)
            recv = call.func.value
            if isinstance(recv, ast.Call):      # super(...)
                recv = ast.Name(id='self', ctx=ast.Load())
            bound[first] = recv
        for idx, arg in enumerate(call.args):
            if idx < len(pos):
                bound[pos[idx]] = arg
        for kw in call.keywords:
            bound[kw.arg] = kw.value
        for name in params:
            if name not in bound and name in defaults:
                bound[name] = defaults[name]
        stored = _stored_names(raw.body) - _comprehension_vars(raw.body)
        pre = []
        subst = {}
        locals_map = {}
        for name in params:
            if name not in bound:
                return None
            arg = bound[name]
            if _simple_arg(arg) and name not in stored:
                subst[name] = arg
            else:
                fresh = '%s__%s' % (tag, name)
                pre.append(ast.copy_location(ast.Assign(
                    targets=[ast.Name(id=fresh, ctx=ast.Store())],
                    value=copy.deepcopy(arg), lineno=call.lineno), call))
                locals_map[name] = fresh
        for name in stored:
            if name not in params and name in self.taken:
                locals_map[name] = '%s__%s' % (tag, name)
        # T = helper(..) where the helper builds its answer in one local and
        # returns it at its end: that local *is* T (nothing else of the
        # helper is called T, the caller handles no exception - so nobody
        # can see T between the helper's first store and its return)
        returns = [n for n in ast.walk(raw) if isinstance(n, ast.Return)]
        if isinstance(result, str) and not cond and len(returns) == 1 and \
                raw.body and raw.body[-1] is returns[0] and \
                isinstance(returns[0].value, ast.Name) and \
                returns[0].value.id in stored and \
                returns[0].value.id not in params and \
                result not in stored - {returns[0].value.id} and \
                result not in params and \
                not any(isinstance(n, ast.Try) for n in ast.walk(caller.raw)) \
                and not any(isinstance(n, ast.Name) and n.id == result
                            for a in list(call.args) + [
                                k.value for k in call.keywords]
                            for n in ast.walk(a)):
            locals_map[returns[0].value.id] = result
        self.taken |= stored
        body = copy.deepcopy(raw.body)
        # drop the docstring
        if body and isinstance(body[0], ast.Expr) and isinstance(
                body[0].value, ast.Constant) and isinstance(
                    body[0].value.value, str):
            body = body[1:]
        renamer = _Rename(subst, locals_map)
        body = [renamer.visit(stmt) for stmt in body]
        new_body = []
        if cond:
            for stmt in body:
                for sub in ast.walk(stmt):
                    if isinstance(sub, ast.Return):
                        sub._inline_cond_ret = True
                new_body.append(stmt)
        else:
            ret = _Returns(result)
            for stmt in body:
                out = ret.visit(stmt)
                new_body.extend(out if isinstance(out, list) else [out])
            # T = T (the answer was built under the target's name)
            new_body = [st for st in new_body if not (
                isinstance(st, ast.Assign) and len(st.targets) == 1 and
                isinstance(st.targets[0], ast.Name) and
                isinstance(st.value, ast.Name) and
                st.value.id == st.targets[0].id)]
        if result is not None and _falls_through(raw.body):
            # falling off the end returns None
            new_body.append(ast.copy_location(ast.Assign(
                targets=[ast.Name(id=result, ctx=ast.Store())],
                value=ast.Constant(value=None), lineno=call.lineno), call))
            # ... unless a return already assigned: the fall-through
            # assignment is only reached when no return was executed, since
            # every return jumps to the end of the block
        if not new_body:
            new_body = [ast.copy_location(ast.Pass(), call)]
        # recurse into the inlined body
        new_body = self.process(callee, new_body, stack + [callee.fq])
        if cond:
            for stmt in new_body:
                for node in ast.walk(stmt):
                    if not hasattr(node, 'lineno'):
                        node.lineno = call.lineno
                        node.col_offset = getattr(call, 'col_offset', 0)
                        node.end_lineno = getattr(call, 'end_lineno',
                                                  call.lineno)
                        node.end_col_offset = getattr(call,
                                                      'end_col_offset', 0)
            self.inlined.append(callee.fq)
            stats = self.index.__dict__.setdefault('inline_stats', {})
            stats.setdefault(callee.fq, set()).add(
                (caller.fq, call.lineno, call.col_offset))
            totals = self.index.__dict__.setdefault('inline_totals', {})
            totals[callee.fq] = self.call_sites(callee)
            return pre, new_body
        block = ast.copy_location(ast.If(
            test=ast.Constant(value=True), body=new_body, orelse=[]), call)
        block._inline = callee.fq
        for node in ast.walk(block):
            if not hasattr(node, 'lineno'):
                node.lineno = call.lineno
                node.col_offset = getattr(call, 'col_offset', 0)
                node.end_lineno = getattr(call, 'end_lineno', call.lineno)
                node.end_col_offset = getattr(call, 'end_col_offset', 0)
        self.inlined.append(callee.fq)
        stats = self.index.__dict__.setdefault('inline_stats', {})
        stats.setdefault(callee.fq, set()).add(
            (caller.fq, call.lineno, call.col_offset))
        totals = self.index.__dict__.setdefault('inline_totals', {})
        totals[callee.fq] = self.call_sites(callee)
        return pre + [block]

    def process(self, caller, stmts, stack):
        if len(stack) > MAX_DEPTH:
            return stmts
        out = []
        for stmt in _iterator_temps(_desugar_reduce(_sort_in_place(stmts))):
            out.extend(self.stmt(caller, stmt, stack))
        return _fuse(_resugar(_split_parallel(out)))

    def unroll_constant_loop(self, caller, stmt, stack):
        """for k in ('a', 'b', 'c'): D[k] OP= E[k]   ->   the body once per
        constant, in order - only for a short literal tuple of strings, a
        plain name as target, a body of one or two subscript-update
        statements (no jump, no rebinding of the target) and no else."""
        if stmt.orelse or not isinstance(stmt.target, ast.Name) or \
                not isinstance(stmt.iter, (ast.Tuple, ast.List)) or \
                not 2 <= len(stmt.iter.elts) <= 4 or \
                not all(isinstance(e, ast.Constant) and
                        isinstance(e.value, str) for e in stmt.iter.elts) \
                or len(stmt.body) > 2:
            return None
        var = stmt.target.id
        for sub in stmt.body:
            if not (isinstance(sub, ast.AugAssign) and
                    isinstance(sub.target, ast.Subscript) and
                    isinstance(sub.target.slice, ast.Name) and
                    sub.target.slice.id == var):
                return None
            for leaf in ast.walk(sub):
                if isinstance(leaf, ast.Name) and leaf.id == var and \
                        isinstance(leaf.ctx, ast.Store):
                    return None
                if isinstance(leaf, (ast.Lambda, ast.ListComp, ast.SetComp,
                                     ast.DictComp, ast.GeneratorExp)):
                    return None
        # the name is not read after the loop
        out = []
        for const in stmt.iter.elts:
            class Sub(ast.NodeTransformer):
                def visit_Name(self, node, const=const):
                    if node.id == var and isinstance(node.ctx, ast.Load):
                        return ast.copy_location(
                            ast.Constant(value=const.value), node)
                    return node
            for sub in stmt.body:
                new = Sub().visit(copy.deepcopy(sub))
                ast.fix_missing_locations(new)
                out.extend(self.stmt(caller, new, stack))
        return out

    def _fresh(self, name):
        self.counter += 1
        return '_inl_%s_%d' % (name.strip('_'), self.counter)

    def desugar_flag(self, stmt):
        """NAME = any(E for x in IT)  ->  NAME = False
                                           for x in IT: if E: NAME = True; break
        (all: dually).  `if any(...)` / `if not all(...)` is first hoisted
        into a fresh flag."""
        pre = []
        if isinstance(stmt, ast.If):
            test = stmt.test
            neg = False
            if isinstance(test, ast.UnaryOp) and isinstance(test.op,
                                                            ast.Not):
                test, neg = test.operand, True
            if not self._is_quantifier(test):
                return None
            flag = self._fresh(test.func.id)
            assign = ast.copy_location(ast.Assign(
                targets=[ast.Name(id=flag, ctx=ast.Store())], value=test,
                lineno=stmt.lineno), stmt)
            newtest = ast.Name(id=flag, ctx=ast.Load())
            if neg:
                newtest = ast.UnaryOp(op=ast.Not(), operand=newtest)
            stmt.test = ast.copy_location(newtest, test)
            ast.fix_missing_locations(stmt.test)
            parts = self.desugar_flag(assign)
            if parts is None:
                stmt.test = test if not neg else ast.UnaryOp(
                    op=ast.Not(), operand=test)
                return None
            return parts + [stmt]
        if not (isinstance(stmt, ast.Assign) and len(stmt.targets) == 1 and
                isinstance(stmt.targets[0], ast.Name) and
                self._is_quantifier(stmt.value)):
            return None
        call = stmt.value
        comp = call.args[0]
        gen = comp.generators[0]
        names = set(n.id for n in ast.walk(gen.target)
                    if isinstance(n, ast.Name))
        if names & self.fn_stored:
            return None
        flag = stmt.targets[0].id
        is_all = call.func.id == 'all'
        test = comp.elt
        if is_all:
            test = ast.UnaryOp(op=ast.Not(), operand=test)
        if gen.ifs:
            test = ast.BoolOp(op=ast.And(), values=list(gen.ifs) + [test])
        init = ast.Assign(targets=[ast.Name(id=flag, ctx=ast.Store())],
                          value=ast.Constant(value=is_all))
        setf = ast.Assign(targets=[ast.Name(id=flag, ctx=ast.Store())],
                          value=ast.Constant(value=not is_all))
        inner = ast.If(test=test, body=[setf, ast.Break()], orelse=[])
        for node in ast.walk(gen.target):
            if isinstance(node, ast.Name):
                node.ctx = ast.Store()
        loop = ast.For(target=gen.target, iter=gen.iter, body=[inner],
                       orelse=[])
        for new in (init, loop):
            for node in ast.walk(new):
                if not hasattr(node, 'lineno'):
                    ast.copy_location(node, stmt)
        loop._desugared = call.func.id
        return [init, loop]

    @staticmethod
    def _is_quantifier(call):
        return isinstance(call, ast.Call) and \
            isinstance(call.func, ast.Name) and \
            call.func.id in ('all', 'any') and len(call.args) == 1 and \
            not call.keywords and \
            isinstance(call.args[0], (ast.GeneratorExp, ast.ListComp)) and \
            len(call.args[0].generators) == 1 and \
            not call.args[0].generators[0].is_async

    def desugar_quantifier(self, stmt):
        """return all(E for x in IT [if C])  ->
             for x in IT: if [C and] not E: return False
             return True          (any: dually)"""
        call = stmt.value
        if not (isinstance(call, ast.Call) and
                isinstance(call.func, ast.Name) and
                call.func.id in ('all', 'any') and len(call.args) == 1 and
                not call.keywords and
                isinstance(call.args[0], (ast.GeneratorExp, ast.ListComp))
                and len(call.args[0].generators) == 1):
            return None
        comp = call.args[0]
        gen = comp.generators[0]
        if gen.is_async:
            return None
        names = set(n.id for n in ast.walk(gen.target)
                    if isinstance(n, ast.Name))
        if names & self.fn_stored:
            return None
        is_all = call.func.id == 'all'
        test = comp.elt
        if is_all:
            test = ast.UnaryOp(op=ast.Not(), operand=test)
        if gen.ifs:
            test = ast.BoolOp(op=ast.And(), values=list(gen.ifs) + [test])
        inner = ast.If(test=test, body=[ast.Return(
            value=ast.Constant(value=not is_all))], orelse=[])
        loop = ast.For(target=gen.target, iter=gen.iter, body=[inner],
                       orelse=[])
        for node in ast.walk(gen.target):
            if isinstance(node, ast.Name):
                node.ctx = ast.Store()
        tail = ast.Return(value=ast.Constant(value=is_all))
        for new in (loop, tail):
            for node in ast.walk(new):
                if not hasattr(node, 'lineno'):
                    ast.copy_location(node, stmt)
        loop._desugared = call.func.id
        return [loop, tail]

    def generator_loop(self, caller, stmt, stack):
        """for T in helper(...): BODY, helper a private generator  ->
        the helper's body with every `yield E` replaced by T = E; BODY."""
        if stmt.orelse or not isinstance(stmt.iter, ast.Call):
            return None

        def own_jumps(body):
            for sub in body:
                if isinstance(sub, (ast.Break, ast.Continue)):
                    return True
                if isinstance(sub, (ast.For, ast.While, ast.FunctionDef,
                                    ast.AsyncFunctionDef, ast.ClassDef)):
                    if isinstance(sub, (ast.For, ast.While)) and \
                            own_jumps(sub.orelse):
                        return True
                    continue
                for field in ('body', 'orelse', 'finalbody'):
                    if own_jumps(getattr(sub, field, []) or []):
                        return True
                for hdl in getattr(sub, 'handlers', []) or []:
                    if own_jumps(hdl.body):
                        return True
            return False
        callee = self.inlinable(caller, stmt.iter, stack, generator=True)
        if callee is None:
            return None
        if own_jumps(stmt.body) and not _tail_yield_shape(callee.raw):
            # break / continue of the consumer map onto the generator's loop
            # only when the single yield ends the body of its only loop and
            # nothing follows that loop
            return None
        raw = copy.deepcopy(callee.raw)
        ok = [True]

        class Yields(ast.NodeTransformer):
            def visit_Expr(self, node):
                if isinstance(node.value, ast.Yield):
                    val = node.value.value or ast.Constant(value=None)
                    if any(isinstance(s, ast.Yield) for s in ast.walk(val)):
                        ok[0] = False
                    assign = ast.copy_location(ast.Assign(
                        targets=[ast.Name(id='__yield_target__',
                                          ctx=ast.Store())],
                        value=val, lineno=node.lineno), node)
                    hole = ast.copy_location(ast.Expr(value=ast.Name(
                        id='__yield_body__', ctx=ast.Load())), node)
                    return [assign, hole]
                return node

            def visit_Return(self, node):
                # a bare return ends the generator, i.e. the consumer's
                # loop: the end of the unrolled block (inline exit)
                if node.value is not None:
                    ok[0] = False
                return node

            def visit_FunctionDef(self, node):
                if node is raw:
                    self.generic_visit(node)
                return node
        Yields().visit(raw)
        if not ok[0] or any(isinstance(s, ast.Yield) for s in ast.walk(raw)):
            return None
        expanded = self.expand(caller, stmt.iter, callee, None, stack,
                               raw=raw)
        if expanded is None:
            return None
        target, body = stmt.target, stmt.body

        class Fill(ast.NodeTransformer):
            def visit_Assign(self, node):
                if len(node.targets) == 1 and isinstance(
                        node.targets[0], ast.Name) and \
                        node.targets[0].id == '__yield_target__':
                    node.targets = [copy.deepcopy(target)]
                return node

            def visit_Expr(self, node):
                if isinstance(node.value, ast.Name) and \
                        node.value.id == '__yield_body__':
                    block = ast.copy_location(ast.If(
                        test=ast.Constant(value=True),
                        body=copy.deepcopy(body), orelse=[]), node)
                    block._inline = 'loop body'
                    return block
                return node
        filled = [Fill().visit(node) for node in expanded]

        class Split(ast.NodeTransformer):
            def generic_visit(self, node):
                node = ast.NodeTransformer.generic_visit(self, node)
                for field in ('body', 'orelse', 'finalbody'):
                    sub = getattr(node, field, None)
                    if isinstance(sub, list) and sub and isinstance(
                            sub[0], ast.stmt):
                        setattr(node, field, _split_parallel(sub))
                return node
        return [Split().visit(node) for node in filled]

    def expr_helpers(self, caller, stmt, stack):
        """Calls to pure single-expression helpers of the module (return E,
        possibly after a few local bindings) are replaced by E wherever they
        occur in the expressions of a simple statement - whatever the number
        of call sites: they name an expression, not a step."""
        from .rules import common as K     # expr_of_function
        inliner = self

        class Expand(ast.NodeTransformer):
            changed = False

            def visit_Call(self, node):
                node = self.generic_visit(node)
                callee = inliner.resolve(caller, node)
                if callee is None:
                    callee = inliner.unique_method(caller, node)
                if callee is None or callee is caller or \
                        callee.fq in stack or \
                        callee.name in vocabulary() or \
                        inliner.is_vector_helper(callee):
                    return node
                foreign = callee.module is not caller.module
                raw = callee.raw
                if raw.decorator_list and any(
                        ast.unparse(d) not in ('staticmethod',)
                        for d in raw.decorator_list):
                    return node
                if raw.args.vararg or raw.args.kwarg or node.keywords and \
                        any(k.arg is None for k in node.keywords) or any(
                            isinstance(a, ast.Starred) for a in node.args):
                    return node
                expr = K.expr_of_function(raw)
                if expr is None:
                    return node
                if any(isinstance(n, (ast.Yield, ast.Await, ast.Lambda,
                                      ast.NamedExpr))
                       for n in ast.walk(expr)):
                    return node
                params = [a.arg for a in raw.args.posonlyargs +
                          raw.args.args]
                receiver = None
                if params and params[0] in ('self', 'cls') and \
                        isinstance(node.func, ast.Attribute) and \
                        callee.cls is not None:
                    other = None
                    if ast.unparse(node.func.value) != params[0]:
                        # another object of the class (resolved because the
                        # method name is unique in the package): a plain
                        # name or attribute chain stands for `self` in E
                        if not _simple_arg(node.func.value) or isinstance(
                                node.func.value, ast.Constant):
                            return node
                        other = (params[0], node.func.value)
                    else:
                        # the receiver is the caller's own first parameter,
                        # never rebound: it means the same object in E
                        cargs = caller.raw.args.posonlyargs + \
                            caller.raw.args.args
                        if cargs and cargs[0].arg == params[0] and \
                                params[0] not in _stored_names(
                                    caller.raw.body):
                            receiver = params[0]
                    params = params[1:]
                    if other is not None:
                        params = [other[0]] + params
                        node = copy.copy(node)
                        node.args = [other[1]] + list(node.args)
                bound = dict(zip(params, node.args))
                for kw in node.keywords:
                    bound[kw.arg] = kw.value
                defaults = dict(zip(reversed(
                    [a.arg for a in raw.args.args]),
                    reversed(raw.args.defaults)))
                for name in params:
                    if name not in bound and name in defaults:
                        bound[name] = defaults[name]
                if set(bound) != set(params):
                    return node
                for pname, arg in bound.items():
                    if _simple_arg(arg):
                        continue
                    # any argument may stand for a parameter that E reads
                    # exactly once and before anything else (E is a chain
                    # of attribute / item / method steps on it): it is
                    # evaluated once, at the same point
                    uses = [n for n in ast.walk(expr)
                            if isinstance(n, ast.Name) and n.id == pname]
                    cur = expr
                    while isinstance(cur, (ast.Attribute, ast.Subscript,
                                           ast.Call)):
                        cur = cur.func if isinstance(cur, ast.Call) \
                            else cur.value
                    if len(uses) != 1 or cur is not uses[0] or any(
                            isinstance(n, (ast.Lambda, ast.GeneratorExp,
                                           ast.ListComp, ast.SetComp,
                                           ast.DictComp))
                            for n in ast.walk(arg)):
                        return node
                # free names of E other than parameters must mean the same
                # thing at the call site: module-level names only
                free = set(n.id for n in ast.walk(expr)
                           if isinstance(n, ast.Name)) - set(params) - \
                    set([receiver])
                if free & inliner.fn_stored:
                    return node
                if foreign:
                    # a helper of another module names the same expression
                    # here only if it reads nothing of its own module
                    import builtins
                    if callee.cls is not None or any(
                            not hasattr(builtins, name) for name in free):
                        return node
                from . import norm as N
                new = N.subst(copy.deepcopy(expr), bound)
                if any(isinstance(a, ast.Tuple) for a in bound.values()):
                    new = _Project().visit(new)
                    whole = set(ast.unparse(a) for a in bound.values()
                                if isinstance(a, ast.Tuple))
                    if any(isinstance(n, ast.Tuple) and
                           ast.unparse(n) in whole for n in ast.walk(new)):
                        return node     # the record is used as a whole
                for sub in ast.walk(new):
                    ast.copy_location(sub, node)
                Expand.changed = True
                inliner.inlined.append(callee.fq)
                return new
        if isinstance(stmt, (ast.Assign, ast.AugAssign, ast.Expr,
                             ast.Return)) and stmt.value is not None:
            for _round in range(2):
                Expand.changed = False
                stmt.value = Expand().visit(stmt.value)
                if not Expand.changed:
                    break
        elif isinstance(stmt, (ast.If, ast.While)):
            stmt.test = Expand().visit(stmt.test)
        return stmt

    def stmt(self, caller, stmt, stack):
        lookup = _keyerror_try(stmt)
        if lookup is not None:
            stmt = lookup
        stmt = self.expr_helpers(caller, stmt, stack)
        if isinstance(stmt, ast.Return) and stmt.value is not None:
            parts = self.desugar_quantifier(stmt)
            if parts is not None:
                out = []
                for part in parts:
                    out.extend(self.stmt(caller, part, stack))
                return out
        if isinstance(stmt, (ast.Assign, ast.If)):
            parts = self.desugar_flag(stmt)
            if parts is not None:
                out = []
                for part in parts[:-1] if isinstance(stmt, ast.If) \
                        else parts:
                    out.extend(self.stmt(caller, part, stack))
                if isinstance(stmt, ast.If):
                    out.extend(self.stmt(caller, parts[-1], stack))
                return out
        # recurse into compound statements first
        for field in ('body', 'orelse', 'finalbody'):
            sub = getattr(stmt, field, None)
            if isinstance(sub, list) and sub and isinstance(
                    sub[0], ast.stmt) and not isinstance(
                        stmt, (ast.FunctionDef, ast.AsyncFunctionDef,
                               ast.ClassDef)):
                setattr(stmt, field, self.process(caller, sub, stack))
        if isinstance(stmt, ast.Try):
            for hdl in stmt.handlers:
                hdl.body = self.process(caller, hdl.body, stack)
        if isinstance(stmt, ast.For):
            unrolled = self.unroll_constant_loop(caller, stmt, stack)
            if unrolled is not None:
                return unrolled
            _desugar_iter_adaptor(stmt)
            unrolled = self.generator_loop(caller, stmt, stack)
            if unrolled is not None:
                return unrolled
            if isinstance(stmt.iter, ast.Call):
                # for x in helper(...): the helper computes the iterable
                callee = self.inlinable(caller, stmt.iter, stack)
                if callee is not None:
                    result = self._fresh(callee.name)
                    expanded = self.expand(caller, stmt.iter, callee,
                                           result, stack)
                    if expanded is not None:
                        stmt.iter = ast.copy_location(
                            ast.Name(id=result, ctx=ast.Load()), stmt.iter)
                        return expanded + [stmt]
            return [stmt]
        call = None
        result = None
        tail = []
        if isinstance(stmt, ast.Expr) and isinstance(stmt.value, ast.Call) \
                and isinstance(stmt.value.func, ast.Attribute) and \
                len(stmt.value.args) == 1 and not stmt.value.keywords and \
                isinstance(stmt.value.args[0], ast.Call) and \
                _simple_arg(stmt.value.func.value) and \
                self.inlinable(caller, stmt.value.args[0], stack) \
                is not None:
            # acc.extend(helper(...))  ->  _r = helper(...) ; acc.extend(_r)
            # (the receiver is a plain name / attribute: looking it up
            # after the helper ran makes no difference)
            call = stmt.value.args[0]
            callee = self.inlinable(caller, call, stack)
            result = self._fresh(callee.name)
            outer = copy.copy(stmt.value)
            outer.args = [ast.copy_location(
                ast.Name(id=result, ctx=ast.Load()), call)]
            tail = [ast.copy_location(ast.Expr(value=outer), stmt)]
        elif isinstance(stmt, ast.Expr) and isinstance(stmt.value, ast.Call):
            call = stmt.value
        elif isinstance(stmt, ast.Assign) and len(stmt.targets) == 1 and \
                isinstance(stmt.targets[0], ast.Name) and \
                isinstance(stmt.value, ast.Call):
            call = stmt.value
            result = stmt.targets[0].id
        elif isinstance(stmt, ast.Assign) and len(stmt.targets) == 1 and \
                isinstance(stmt.targets[0], (ast.Subscript, ast.Attribute,
                                             ast.Tuple)) and \
                isinstance(stmt.value, ast.Call):
            # obj[k] = helper(...)  ->  _r = helper(...) ; obj[k] = _r
            call = stmt.value
            callee = self.inlinable(caller, call, stack)
            if callee is not None:
                result = self._fresh(callee.name)
                tail = [ast.copy_location(ast.Assign(
                    targets=stmt.targets,
                    value=ast.Name(id=result, ctx=ast.Load()),
                    lineno=stmt.lineno), stmt)]
        elif isinstance(stmt, ast.Return) and isinstance(stmt.value,
                                                         ast.Call):
            call = stmt.value
            callee = self.inlinable(caller, call, stack)
            if callee is not None:
                result = self._fresh(callee.name)
                tail = [ast.copy_location(ast.Return(
                    value=ast.Name(id=result, ctx=ast.Load())), stmt)]
        elif isinstance(stmt, ast.If):
            # a helper used as the condition: its body is attached to the
            # call (``_inline_body``) and spliced by the CFG builder, each
            # ``return E`` of the helper becoming a branch on E
            test = stmt.test
            if isinstance(test, ast.BoolOp) and isinstance(
                    test.op, ast.And) and not stmt.orelse:
                # if A and helper(...): S  ->  if A: if helper(...): S
                last = test.values[-1]
                if isinstance(last, ast.UnaryOp) and isinstance(
                        last.op, ast.Not):
                    last = last.operand
                if isinstance(last, ast.Call) and \
                        not hasattr(last, '_inline_body') and \
                        self.inlinable(caller, last, stack) is not None:
                    rest = test.values[:-1]
                    outer_test = rest[0] if len(rest) == 1 else \
                        ast.copy_location(ast.BoolOp(op=ast.And(),
                                                     values=rest), test)
                    inner = ast.copy_location(ast.If(
                        test=test.values[-1], body=stmt.body, orelse=[]),
                        stmt)
                    outer = ast.copy_location(ast.If(
                        test=outer_test, body=self.stmt(caller, inner,
                                                        stack),
                        orelse=[]), stmt)
                    return [outer]
            if isinstance(test, ast.UnaryOp) and isinstance(test.op,
                                                            ast.Not):
                test = test.operand
            if isinstance(test, ast.Call) and \
                    not hasattr(test, '_inline_body'):
                callee = self.inlinable(caller, test, stack)
                if callee is not None:
                    expanded = self.expand(caller, test, callee, None,
                                           stack, cond=True)
                    if expanded is not None:
                        pre, body = expanded
                        test._inline_body = body
                        test._inline = callee.fq
                        return pre + [stmt]
            return [stmt]
        if call is None:
            return [stmt]
        callee = self.inlinable(caller, call, stack)
        if callee is None:
            return [stmt]
        expanded = self.expand(caller, call, callee, result, stack)
        if expanded is None:
            return [stmt]
        return expanded + tail


def sink_result_variable(fdef):
    """Single-exit style with a result variable is given the early-return
    form the rules read:

        r = D                          |   r = D
        if A: ...                      |   while ...:
        elif B: ...; r = E             |       if C: r = E; break
        else: r = F                    |   return r
        return r

    becomes, branch by branch, `return <value of r there>` (and `r = E;
    break` -> `return E` when the return directly follows the loop).  Only
    when r is a plain local assigned at the top level of the branches (or
    right before a break), nowhere else, and never read except by the final
    return."""
    body = fdef.body
    if len(body) < 2 or not isinstance(body[-1], ast.Return) or \
            not isinstance(body[-1].value, ast.Name):
        return fdef
    rname = body[-1].value.id
    tail = body[-2]
    if not isinstance(tail, (ast.If, ast.For, ast.While)):
        return fdef
    stores, loads = [], []
    for node in ast.walk(fdef):
        if isinstance(node, ast.Name) and node.id == rname:
            (stores if isinstance(node.ctx, ast.Store) else loads).append(
                node)
        if isinstance(node, (ast.FunctionDef, ast.AsyncFunctionDef,
                             ast.Lambda)) and node is not fdef and any(
                                 isinstance(n, ast.Name) and n.id == rname
                                 for n in ast.walk(node)):
            return fdef
    if len(loads) != 1 or rname in [a.arg for a in fdef.args.args]:
        return fdef
    assigns = [n for n in ast.walk(fdef) if isinstance(n, ast.Assign) and
               len(n.targets) == 1 and isinstance(n.targets[0], ast.Name)
               and n.targets[0].id == rname]
    if len(assigns) != len(stores):
        return fdef         # augmented / tuple / loop-target stores
    defaults = [st for st in body[:-2] if st in assigns]
    if len(defaults) != 1 or not isinstance(defaults[0].value, ast.Constant):
        return fdef
    default = defaults[0].value
    inner = [a for a in assigns if a is not defaults[0]]

    def ret(value, at):
        new = ast.Return(value=copy.deepcopy(value))
        ast.copy_location(new, at)
        for sub in ast.walk(new):
            if not hasattr(sub, 'lineno'):
                ast.copy_location(sub, at)
        return new
    claimed = []
    if isinstance(tail, ast.If):
        def leaves(stmt):
            out = [stmt.body]
            if len(stmt.orelse) == 1 and isinstance(stmt.orelse[0], ast.If):
                out.extend(leaves(stmt.orelse[0]))
            else:
                out.append(stmt.orelse)
            return out
        blocks = leaves(tail)
        plan = []
        for block in blocks:
            mine = [st for st in block if st in inner]
            if len(mine) > 1:
                return fdef
            if any(isinstance(n, (ast.Return, ast.Break, ast.Continue))
                   for st in block for n in ast.walk(st)):
                return fdef
            claimed.extend(mine)
            plan.append((block, mine[0] if mine else None))
        if len(claimed) != len(inner):
            return fdef     # assigned deeper than the top of a branch
        for block, asg in plan:
            value = asg.value if asg is not None else default
            if asg is not None and block[-1] is asg:
                block[-1] = ret(value, asg)
            elif asg is not None:
                block.remove(asg)
                block.append(ret(value, asg))
            else:
                at = block[-1] if block else tail
                block.append(ret(value, at))
        fdef.body = body[:-1]
        return fdef
    if tail.orelse:
        return fdef

    def rewrite(block, depth):
        idx = 0
        while idx < len(block):
            st = block[idx]
            if st in inner:
                nxt = block[idx + 1] if idx + 1 < len(block) else None
                if not isinstance(nxt, ast.Break) or depth != 0:
                    return False
                block[idx:idx + 2] = [ret(st.value, st)]
                claimed.append(st)
                idx += 1
                continue
            if isinstance(st, (ast.For, ast.While)):
                if any(n in inner for n in ast.walk(st)):
                    return False
            else:
                for field in ('body', 'orelse', 'finalbody'):
                    sub = getattr(st, field, None)
                    if isinstance(sub, list) and sub and \
                            isinstance(sub[0], ast.stmt):
                        if not rewrite(sub, depth):
                            return False
                for hdl in getattr(st, 'handlers', []) or []:
                    if not rewrite(hdl.body, depth):
                        return False
            idx += 1
        return True
    backup = copy.deepcopy(tail.body)
    if not rewrite(tail.body, 0) or len(claimed) != len(inner):
        tail.body = backup
        return fdef
    body[-1] = ret(default, body[-1])
    return fdef


def _attr_chain(expr):
    """Root name of a pure attribute chain a.b.c, else None."""
    cur = expr
    depth = 0
    while isinstance(cur, ast.Attribute):
        cur = cur.value
        depth += 1
    if depth and isinstance(cur, ast.Name):
        return cur.id
    return None


def _volatile_attrs(module):
    """Attribute names assigned somewhere in the module outside __init__:
    a snapshot of such a field may be out of date after any call."""
    cached = getattr(module, '_volatile_attrs', None)
    if cached is not None:
        return cached
    out = set()

    def visit(node, in_init):
        for child in ast.iter_child_nodes(node):
            if isinstance(child, (ast.FunctionDef, ast.AsyncFunctionDef)):
                visit(child, child.name == '__init__')
                continue
            if isinstance(child, ast.Attribute) and isinstance(
                    child.ctx, (ast.Store, ast.Del)) and not in_init:
                out.add(child.attr)
            visit(child, in_init)
    visit(module.tree, False)
    try:
        module._volatile_attrs = out
    except AttributeError:
        pass
    return out


def fold_attribute_aliases(fdef, volatile=()):
    """x = self.a.b (x bound once, self.a.b never assigned in the function)
    makes x another name for that attribute: every occurrence of x is
    replaced by the attribute, also as the base of a store or delete
    (`apps = self.apps; del apps[k]` -> `del self.apps[k]`)."""
    params = set(a.arg for a in fdef.args.posonlyargs + fdef.args.args +
                 fdef.args.kwonlyargs)
    counts = {}
    values = {}
    stored_paths = set()
    rebound = set()

    def walk(node):
        for child in ast.iter_child_nodes(node):
            if isinstance(child, (ast.FunctionDef, ast.AsyncFunctionDef,
                                  ast.ClassDef, ast.Lambda)):
                # a closure may read the alias: leave such names alone
                for sub in ast.walk(child):
                    if isinstance(sub, ast.Name):
                        rebound.add(sub.id)
                continue
            yield child
            for sub in walk(child):
                yield sub
    for node in walk(fdef):
        if isinstance(node, ast.Assign):
            for tgt in node.targets:
                if isinstance(tgt, ast.Name) and len(node.targets) == 1:
                    counts[tgt.id] = counts.get(tgt.id, 0) + 1
                    values[tgt.id] = node.value
                else:
                    for leaf in ast.walk(tgt):
                        if isinstance(leaf, ast.Name) and \
                                isinstance(leaf.ctx, ast.Store):
                            rebound.add(leaf.id)
        elif isinstance(node, (ast.AugAssign, ast.AnnAssign)):
            for leaf in ast.walk(node.target):
                if isinstance(leaf, ast.Name) and isinstance(leaf.ctx,
                                                             ast.Store):
                    rebound.add(leaf.id)
        elif isinstance(node, (ast.For, ast.AsyncFor, ast.comprehension)):
            for leaf in ast.walk(node.target):
                if isinstance(leaf, ast.Name):
                    rebound.add(leaf.id)
        elif isinstance(node, (ast.With, ast.AsyncWith)):
            for item in node.items:
                if item.optional_vars is not None:
                    for leaf in ast.walk(item.optional_vars):
                        if isinstance(leaf, ast.Name):
                            rebound.add(leaf.id)
        elif isinstance(node, ast.ExceptHandler) and node.name:
            rebound.add(node.name)
        elif isinstance(node, (ast.Global, ast.Nonlocal)):
            rebound.update(node.names)
        if isinstance(node, ast.Attribute) and isinstance(
                node.ctx, (ast.Store, ast.Del)):
            stored_paths.add(ast.unparse(node))
    aliases = {}
    for name, cnt in counts.items():
        if cnt != 1 or name in rebound or name in params:
            continue
        val = values[name]
        root = _attr_chain(val)
        if root is None or not (root == 'self' or root in params):
            continue
        if any(isinstance(sub, ast.Attribute) and sub.attr in volatile
               for sub in ast.walk(val)):
            continue        # the field may be re-assigned by a callee
        text = ast.unparse(val)
        # the attribute (or a prefix of it) must not be re-bound here
        if any(text == p or text.startswith(p + '.') for p in stored_paths):
            continue
        if root in rebound or counts.get(root):
            continue
        aliases[name] = val
    if not aliases:
        return fdef

    class Fold(ast.NodeTransformer):
        def visit_Name(self, node):
            if node.id in aliases and isinstance(node.ctx, ast.Load):
                new = copy.deepcopy(aliases[node.id])
                for sub in ast.walk(new):
                    ast.copy_location(sub, node)
                return new
            return node

        def visit_Assign(self, node):
            # keep the binding itself
            if len(node.targets) == 1 and isinstance(
                    node.targets[0], ast.Name) and \
                    node.targets[0].id in aliases:
                return node
            return self.generic_visit(node)

        def visit_FunctionDef(self, node):
            if node is fdef:
                return self.generic_visit(node)
            return node

        visit_AsyncFunctionDef = visit_ClassDef = visit_Lambda = \
            visit_FunctionDef
    Fold().visit(fdef)
    for node in ast.walk(fdef):
        for child in ast.iter_child_nodes(node):
            if hasattr(child, '_inline_body'):
                child._inline_body = [Fold().visit(st)
                                      for st in child._inline_body]
    return fdef


def fold_name_copies(fdef, func):
    """a = b (a bound once, b a plain local / loop variable) makes a another
    name for b's current value; when no use of a can see a later b - every
    path from the copy to a use of a is free of assignments to b - the uses
    of a are rewritten to b, so that rules matching on the loop variable
    see through `victim = candidate`."""
    from . import cfg as C
    from . import norm as N
    params = set(a.arg for a in fdef.args.posonlyargs + fdef.args.args +
                 fdef.args.kwonlyargs)
    counts, values, stmts_of = {}, {}, {}
    other = set()
    for node in ast.walk(fdef):
        if isinstance(node, (ast.FunctionDef, ast.AsyncFunctionDef,
                             ast.Lambda, ast.ClassDef)) and node is not fdef:
            for sub in ast.walk(node):
                if isinstance(sub, ast.Name):
                    other.add(sub.id)
        if isinstance(node, ast.Assign) and len(node.targets) == 1 and \
                isinstance(node.targets[0], ast.Name):
            name = node.targets[0].id
            counts[name] = counts.get(name, 0) + 1
            values[name] = node.value
            stmts_of[name] = node
    all_stores = {}
    for node in ast.walk(fdef):
        if isinstance(node, ast.Name) and isinstance(node.ctx,
                                                     (ast.Store, ast.Del)):
            all_stores[node.id] = all_stores.get(node.id, 0) + 1
    cands = {}
    for name, cnt in counts.items():
        if cnt != 1 or all_stores.get(name, 0) != 1 or name in params or \
                name in other:
            continue
        val = values[name]
        if isinstance(val, ast.Name) and val.id != name and \
                val.id not in other and not val.id.startswith('_inl_'):
            cands[name] = val.id
    if not cands:
        return fdef
    try:
        graph = C.CFG(fdef.body, func)
    except Exception:                     # pylint: disable=broad-except
        return fdef
    by_stmt = dict((id(n.ast), n) for n in graph.nodes
                   if n.kind == 'stmt' and n.ast is not None)
    accepted = {}
    for name, src in cands.items():
        dnode = by_stmt.get(id(stmts_of[name]))
        if dnode is None:
            continue
        uses = set()
        src_stores = set()
        for node in graph.nodes:
            if node.ast is None:
                continue
            roots = C.node_exprs(node) if node.kind != 'stmt' else [node.ast]
            for root in roots:
                if root is None:
                    continue
                for sub in ast.walk(root):
                    if isinstance(sub, ast.Name) and sub.id == name and \
                            isinstance(sub.ctx, ast.Load):
                        uses.add(node)
            if src in (N.assigned_targets(node) | N.for_targets(node)):
                src_stores.add(node)
        if not uses:
            continue
        dom = C.dominators(graph)
        if not all(dnode in dom.get(u, ()) for u in uses):
            continue
        bad = False
        for store in src_stores:
            if store not in C.reach_after(dnode):
                continue
            if uses & C.reach_after(store, blocked=[dnode]):
                bad = True
        if not bad:
            accepted[name] = src
    if not accepted:
        return fdef

    class Fold(ast.NodeTransformer):
        def visit_Name(self, node):
            if node.id in accepted and isinstance(node.ctx, ast.Load):
                return ast.copy_location(
                    ast.Name(id=accepted[node.id], ctx=ast.Load()), node)
            return node

        def visit_FunctionDef(self, node):
            if node is fdef:
                return self.generic_visit(node)
            return node

        visit_AsyncFunctionDef = visit_ClassDef = visit_Lambda = \
            visit_FunctionDef
    Fold().visit(fdef)
    for node in ast.walk(fdef):
        if hasattr(node, '_inline_body'):
            node._inline_body = [Fold().visit(st)
                                 for st in node._inline_body]
    return fdef


def fold_lookup_default(fdef):
    """X = D.pop(K, None) ; if X is not None: BODY [else: ELSE]
       ->  if K in D: X = D[K] ; del D[K] ; BODY  [else: ELSE]
    (also D.get(K), and the tests `X is None`, `X`, `not X`) for a local
    dictionary D of this function whose stored values are all non-empty
    tuple displays: a looked-up value is then never None / falsy, and the
    test of the result is the membership test."""
    params = set(a.arg for a in fdef.args.args + fdef.args.kwonlyargs)
    stores, created, escaped = {}, {}, set()
    for node in ast.walk(fdef):
        if isinstance(node, ast.Assign):
            for tgt in node.targets:
                if isinstance(tgt, ast.Subscript) and \
                        isinstance(tgt.value, ast.Name):
                    stores.setdefault(tgt.value.id, []).append(node.value)
                elif isinstance(tgt, ast.Name):
                    created.setdefault(tgt.id, []).append(node.value)
                else:
                    for leaf in ast.walk(tgt):
                        if isinstance(leaf, ast.Name):
                            escaped.add(leaf.id)
        elif isinstance(node, ast.Call):
            for arg in list(node.args) + [k.value for k in node.keywords]:
                for leaf in ast.walk(arg):
                    if isinstance(leaf, ast.Name):
                        escaped.add(leaf.id)
            if isinstance(node.func, ast.Attribute) and \
                    isinstance(node.func.value, ast.Name) and \
                    node.func.attr in ('update', 'setdefault'):
                escaped.add(node.func.value.id)
        elif isinstance(node, (ast.AugAssign, ast.For, ast.With,
                               ast.Return, ast.Yield)):
            sub = node.target if isinstance(node, (ast.AugAssign,
                                                   ast.For)) else None
            if isinstance(node, (ast.Return, ast.Yield)):
                sub = node.value
            for leaf in ast.walk(sub) if sub is not None else ():
                if isinstance(leaf, ast.Name):
                    escaped.add(leaf.id)

    def plain_dict(name):
        if name in params or name in escaped:
            return False
        makers = created.get(name, [])
        if not makers or not all(
                (isinstance(m, ast.Dict) and not m.keys) or
                (isinstance(m, ast.Call) and not m.args and not m.keywords
                 and ast.unparse(m.func) in ('dict',
                                             'collections.OrderedDict'))
                for m in makers):
            return False
        vals = stores.get(name, [])
        return bool(vals) and all(isinstance(v, ast.Tuple) and v.elts
                                  for v in vals)

    def uses_after(name, stmts):
        return any(isinstance(n, ast.Name) and n.id == name
                   for st in stmts for n in ast.walk(st))

    def rewrite(block):
        out = []
        idx = 0
        while idx < len(block):
            st = block[idx]
            nxt = block[idx + 1] if idx + 1 < len(block) else None
            hit = None
            if isinstance(st, ast.Assign) and len(st.targets) == 1 and \
                    isinstance(st.targets[0], ast.Name) and \
                    isinstance(st.value, ast.Call) and \
                    isinstance(st.value.func, ast.Attribute) and \
                    isinstance(st.value.func.value, ast.Name) and \
                    not st.value.keywords and isinstance(nxt, ast.If):
                call = st.value
                meth = call.func.attr
                name = st.targets[0].id
                okargs = (meth == 'pop' and len(call.args) == 2 and
                          isinstance(call.args[1], ast.Constant) and
                          call.args[1].value is None) or \
                    (meth == 'get' and (len(call.args) == 1 or (
                        len(call.args) == 2 and
                        isinstance(call.args[1], ast.Constant) and
                        call.args[1].value is None)))
                key = call.args[0] if call.args else None
                test = nxt.test
                found = None
                if isinstance(test, ast.Name) and test.id == name:
                    found = True
                elif isinstance(test, ast.UnaryOp) and \
                        isinstance(test.op, ast.Not) and \
                        isinstance(test.operand, ast.Name) and \
                        test.operand.id == name:
                    found = False
                elif isinstance(test, ast.Compare) and \
                        len(test.ops) == 1 and \
                        isinstance(test.left, ast.Name) and \
                        test.left.id == name and \
                        isinstance(test.comparators[0], ast.Constant) and \
                        test.comparators[0].value is None:
                    if isinstance(test.ops[0], ast.IsNot):
                        found = True
                    elif isinstance(test.ops[0], ast.Is):
                        found = False
                if okargs and found is not None and \
                        isinstance(key, (ast.Name, ast.Attribute)) and \
                        not any(isinstance(n, ast.Name) and n.id == name
                                for n in ast.walk(key)) and \
                        plain_dict(call.func.value.id):
                    hit = (call, meth, name, key, found)
            if hit is None:
                for field in ('body', 'orelse', 'finalbody'):
                    sub = getattr(st, field, None)
                    if isinstance(sub, list) and sub and \
                            isinstance(sub[0], ast.stmt):
                        setattr(st, field, rewrite(sub))
                for hdl in getattr(st, 'handlers', None) or ():
                    hdl.body = rewrite(hdl.body)
                out.append(st)
                idx += 1
                continue
            call, meth, name, key, found = hit
            dname = call.func.value.id
            yes = nxt.body if found else nxt.orelse
            no = nxt.orelse if found else nxt.body
            lookup = ast.Assign(
                targets=[ast.Name(id=name, ctx=ast.Store())],
                value=ast.Subscript(
                    value=ast.Name(id=dname, ctx=ast.Load()),
                    slice=copy.deepcopy(key), ctx=ast.Load()))
            pre = [lookup]
            if meth == 'pop':
                pre.append(ast.Delete(targets=[ast.Subscript(
                    value=ast.Name(id=dname, ctx=ast.Load()),
                    slice=copy.deepcopy(key), ctx=ast.Del())]))
            rest = block[idx + 2:]
            other = list(no)
            if uses_after(name, list(no) + rest):
                other = [ast.Assign(
                    targets=[ast.Name(id=name, ctx=ast.Store())],
                    value=ast.Constant(value=None))] + other
            new = ast.If(
                test=ast.Compare(left=copy.deepcopy(key), ops=[ast.In()],
                                 comparators=[ast.Name(id=dname,
                                                       ctx=ast.Load())]),
                body=pre + rewrite(list(yes)), orelse=rewrite(other))
            for node in ast.walk(new):
                if not hasattr(node, 'lineno'):
                    ast.copy_location(node, nxt)
            ast.copy_location(new, nxt)
            for part in pre + other[:1]:
                for node in ast.walk(part):
                    ast.copy_location(node, st)
            if not new.body:
                new.body = [ast.copy_location(ast.Pass(), nxt)]
            out.append(new)
            idx += 2
        return out
    fdef.body = rewrite(fdef.body)
    return fdef


_FOLDED_RAW = {}


class _DictCalls(ast.NodeTransformer):
    """dict(a=X, b=Y)  ->  {'a': X, 'b': Y}   (keywords only: no positional
    argument, no ** expansion)."""

    def visit_Call(self, node):
        self.generic_visit(node)
        if isinstance(node.func, ast.Name) and node.func.id == 'dict' and \
                not node.args and node.keywords and \
                all(kw.arg is not None for kw in node.keywords):
            new = ast.Dict(
                keys=[ast.copy_location(ast.Constant(value=kw.arg), kw.value)
                      for kw in node.keywords],
                values=[kw.value for kw in node.keywords])
            return ast.copy_location(new, node)
        return node


def fold_dict_calls(fdef):
    if any(isinstance(n, ast.Name) and n.id == 'dict' and
           isinstance(n.ctx, ast.Store) for n in ast.walk(fdef)):
        return fdef         # a local called dict: leave alone
    return ast.fix_missing_locations(_DictCalls().visit(fdef))


def _strictly_bool(expr):
    if isinstance(expr, ast.UnaryOp) and isinstance(expr.op, ast.Not):
        return True
    if isinstance(expr, ast.Compare):
        return True
    if isinstance(expr, ast.BoolOp):
        return all(_strictly_bool(v) for v in expr.values)
    return isinstance(expr, ast.Constant) and isinstance(expr.value, bool)


def fold_conditional_flag(fdef):
    """x = False ; if A: x = B   ->   x = bool(A and B)
       x = True  ; if A: x = B   ->   x = bool(not A or B)
    for B a comparison / negation / and-or of those (so the flag is True or
    False either way) and x bound nowhere else."""
    stores = {}
    for node in ast.walk(fdef):
        if isinstance(node, ast.Name) and isinstance(node.ctx, ast.Store):
            stores[node.id] = stores.get(node.id, 0) + 1

    def rewrite(block):
        out = []
        idx = 0
        while idx < len(block):
            st = block[idx]
            nxt = block[idx + 1] if idx + 1 < len(block) else None
            if isinstance(st, ast.Assign) and len(st.targets) == 1 and \
                    isinstance(st.targets[0], ast.Name) and \
                    isinstance(st.value, ast.Constant) and \
                    isinstance(st.value.value, bool) and \
                    stores.get(st.targets[0].id) == 2 and \
                    isinstance(nxt, ast.If) and not nxt.orelse and \
                    not hasattr(nxt.test, '_inline_body') and \
                    len(nxt.body) == 1 and \
                    isinstance(nxt.body[0], ast.Assign) and \
                    len(nxt.body[0].targets) == 1 and \
                    isinstance(nxt.body[0].targets[0], ast.Name) and \
                    nxt.body[0].targets[0].id == st.targets[0].id and \
                    _strictly_bool(nxt.body[0].value) and \
                    not any(isinstance(n, ast.Name) and
                            n.id == st.targets[0].id
                            for n in ast.walk(nxt.test)) and \
                    not any(isinstance(n, ast.Name) and
                            n.id == st.targets[0].id
                            for n in ast.walk(nxt.body[0].value)):
                cond, val = nxt.test, nxt.body[0].value
                if st.value.value:
                    expr = ast.BoolOp(op=ast.Or(), values=[
                        ast.UnaryOp(op=ast.Not(), operand=cond), val])
                else:
                    expr = ast.BoolOp(op=ast.And(), values=[cond, val])
                new = ast.copy_location(ast.Assign(
                    targets=[st.targets[0]],
                    value=ast.Call(func=ast.Name(id='bool', ctx=ast.Load()),
                                   args=[expr], keywords=[])), nxt.body[0])
                ast.fix_missing_locations(new)
                out.append(new)
                idx += 2
                continue
            # x = E ; if not x: x = F  ->  x = E or F   (if x: -> E and F)
            if isinstance(st, ast.Assign) and len(st.targets) == 1 and \
                    isinstance(st.targets[0], ast.Name) and \
                    stores.get(st.targets[0].id) == 2 and \
                    isinstance(nxt, ast.If) and not nxt.orelse and \
                    len(nxt.body) == 1 and \
                    isinstance(nxt.body[0], ast.Assign) and \
                    len(nxt.body[0].targets) == 1 and \
                    isinstance(nxt.body[0].targets[0], ast.Name) and \
                    nxt.body[0].targets[0].id == st.targets[0].id and \
                    not any(isinstance(n, ast.Name) and
                            n.id == st.targets[0].id
                            for n in ast.walk(nxt.body[0].value)):
                name = st.targets[0].id
                test = nxt.test
                neg = isinstance(test, ast.UnaryOp) and \
                    isinstance(test.op, ast.Not)
                plain = test.operand if neg else test
                if isinstance(plain, ast.Name) and plain.id == name:
                    expr = ast.BoolOp(op=ast.Or() if neg else ast.And(),
                                      values=[st.value, nxt.body[0].value])
                    new = ast.copy_location(ast.Assign(
                        targets=[st.targets[0]], value=expr), st)
                    ast.fix_missing_locations(new)
                    out.append(new)
                    idx += 2
                    continue
                # x = E ; if not x and G: x = F  ->  x = bool(E or (G and F))
                # for E, F that are True or False
                if isinstance(test, ast.BoolOp) and \
                        isinstance(test.op, ast.And) and \
                        isinstance(test.values[0], ast.UnaryOp) and \
                        isinstance(test.values[0].op, ast.Not) and \
                        isinstance(test.values[0].operand, ast.Name) and \
                        test.values[0].operand.id == name and \
                        _strictly_bool(st.value) and \
                        _strictly_bool(nxt.body[0].value) and \
                        not any(isinstance(n, ast.Name) and n.id == name
                                for v in test.values[1:]
                                for n in ast.walk(v)):
                    rest = test.values[1:]
                    guard = rest[0] if len(rest) == 1 else ast.BoolOp(
                        op=ast.And(), values=rest)
                    expr = ast.BoolOp(op=ast.Or(), values=[
                        st.value, ast.BoolOp(op=ast.And(), values=[
                            guard, nxt.body[0].value])])
                    new = ast.copy_location(ast.Assign(
                        targets=[st.targets[0]],
                        value=ast.Call(func=ast.Name(id='bool',
                                                     ctx=ast.Load()),
                                       args=[expr], keywords=[])), st)
                    ast.fix_missing_locations(new)
                    out.append(new)
                    idx += 2
                    continue
            for field in ('body', 'orelse', 'finalbody'):
                sub = getattr(st, field, None)
                if isinstance(sub, list) and sub and \
                        isinstance(sub[0], ast.stmt) and \
                        not isinstance(st, (ast.FunctionDef,
                                            ast.AsyncFunctionDef,
                                            ast.ClassDef)):
                    setattr(st, field, rewrite(sub))
            for hdl in getattr(st, 'handlers', None) or ():
                hdl.body = rewrite(hdl.body)
            out.append(st)
            idx += 1
        return out
    fdef.body = rewrite(fdef.body)
    return fdef


def sink_flag_return(fdef):
    """x = E ; if [not] x: A [else: B] ; return x   ->
    if [not] E: A ; return <bool>  else: B ; return <bool>
    for a named boolean (E is a comparison / negation / and-or of those, so
    its value is True or False) that is bound once and read only by the
    test and the return."""
    loads, stores = {}, {}
    for node in ast.walk(fdef):
        if isinstance(node, ast.Name):
            book = loads if isinstance(node.ctx, ast.Load) else stores
            book[node.id] = book.get(node.id, 0) + 1

    def rewrite(block):
        out = []
        idx = 0
        while idx < len(block):
            st = block[idx]
            if idx + 2 < len(block) and isinstance(st, ast.Assign) and \
                    len(st.targets) == 1 and \
                    isinstance(st.targets[0], ast.Name) and \
                    _strictly_bool(st.value) and \
                    stores.get(st.targets[0].id) == 1 and \
                    loads.get(st.targets[0].id) == 2 and \
                    isinstance(block[idx + 1], ast.If) and \
                    isinstance(block[idx + 2], ast.Return) and \
                    isinstance(block[idx + 2].value, ast.Name) and \
                    block[idx + 2].value.id == st.targets[0].id:
                name = st.targets[0].id
                cond = block[idx + 1]
                test = cond.test
                neg = isinstance(test, ast.UnaryOp) and \
                    isinstance(test.op, ast.Not)
                plain = test.operand if neg else test
                if isinstance(plain, ast.Name) and plain.id == name:
                    value = st.value
                    if neg and isinstance(value, ast.UnaryOp) and \
                            isinstance(value.op, ast.Not):
                        new_test = value.operand        # not not E
                    elif neg:
                        new_test = ast.UnaryOp(op=ast.Not(), operand=value)
                    else:
                        new_test = value
                    ret = block[idx + 2]

                    def const(flag):
                        return ast.copy_location(ast.Return(
                            value=ast.Constant(value=flag)), ret)
                    new = ast.copy_location(ast.If(
                        test=ast.copy_location(new_test, test),
                        body=rewrite(cond.body) + [const(not neg)],
                        orelse=rewrite(cond.orelse) + [const(neg)]), cond)
                    ast.fix_missing_locations(new)
                    out.append(new)
                    idx += 3
                    continue
            for field in ('body', 'orelse', 'finalbody'):
                sub = getattr(st, field, None)
                if isinstance(sub, list) and sub and \
                        isinstance(sub[0], ast.stmt) and \
                        not isinstance(st, (ast.FunctionDef,
                                            ast.AsyncFunctionDef,
                                            ast.ClassDef)):
                    setattr(st, field, rewrite(sub))
            for hdl in getattr(st, 'handlers', None) or ():
                hdl.body = rewrite(hdl.body)
            out.append(st)
            idx += 1
        return out
    fdef.body = rewrite(fdef.body)
    return fdef


def fold_test_flags(fdef):
    """x = E ; if <test mentioning x>: ...   ->   if <test with E>: ...
    for a local bound right before the `if` that tests it (a named boolean,
    or the outcome of a call kept in a local first).  When x is read
    nowhere else the binding disappears; when it is (a log line further
    down), the binding stays and the test is rewritten only if E has no
    call (evaluating it twice in the view would double the call)."""
    loads, stores = {}, {}
    for node in ast.walk(fdef):
        if isinstance(node, ast.Name):
            if isinstance(node.ctx, ast.Load):
                loads[node.id] = loads.get(node.id, 0) + 1
            else:
                stores[node.id] = stores.get(node.id, 0) + 1
    for node in ast.walk(fdef):
        for extra in getattr(node, '_inline_body', None) or ():
            for sub in ast.walk(extra):
                if isinstance(sub, ast.Name):
                    if isinstance(sub.ctx, ast.Load):
                        loads[sub.id] = loads.get(sub.id, 0) + 1
                    else:
                        stores[sub.id] = stores.get(sub.id, 0) + 1

    def has_call(expr):
        return any(isinstance(n, (ast.Call, ast.Await, ast.Yield,
                                  ast.YieldFrom)) for n in ast.walk(expr))

    def rewrite(block):
        out = []
        idx = 0
        while idx < len(block):
            st = block[idx]
            nxt = block[idx + 1] if idx + 1 < len(block) else None
            done = False
            if isinstance(st, ast.Assign) and len(st.targets) == 1 and \
                    isinstance(st.targets[0], ast.Name) and \
                    isinstance(nxt, ast.If) and \
                    not hasattr(nxt.test, '_inline_body') and \
                    stores.get(st.targets[0].id) == 1 and \
                    isinstance(st.value, (ast.Compare, ast.BoolOp,
                                          ast.UnaryOp, ast.Call)):
                name = st.targets[0].id
                in_test = sum(1 for n in ast.walk(nxt.test)
                              if isinstance(n, ast.Name) and n.id == name)
                inner_scopes = any(isinstance(n, (ast.Lambda, ast.ListComp,
                                                  ast.SetComp, ast.DictComp,
                                                  ast.GeneratorExp))
                                   for n in ast.walk(nxt.test))
                only_here = loads.get(name, 0) == in_test
                if in_test == 1 and not inner_scopes and (
                        only_here or not has_call(st.value)):
                    value = st.value
                    # in truth-value position bool(E) is E
                    plain = nxt.test
                    if isinstance(plain, ast.UnaryOp) and \
                            isinstance(plain.op, ast.Not):
                        plain = plain.operand
                    if isinstance(plain, ast.Name) and \
                            isinstance(value, ast.Call) and \
                            isinstance(value.func, ast.Name) and \
                            value.func.id == 'bool' and \
                            len(value.args) == 1 and not value.keywords:
                        value = value.args[0]

                    class Sub(ast.NodeTransformer):
                        def visit_Name(self, node):
                            if node.id == name and isinstance(node.ctx,
                                                              ast.Load):
                                return copy.deepcopy(value)
                            return node
                    nxt.test = Sub().visit(nxt.test)
                    ast.fix_missing_locations(nxt.test)
                    if not only_here:
                        out.append(st)
                    idx += 1        # the `if` is handled as the next item
                    done = True
            if not done:
                for field in ('body', 'orelse', 'finalbody'):
                    sub = getattr(st, field, None)
                    if isinstance(sub, list) and sub and \
                            isinstance(sub[0], ast.stmt) and \
                            not isinstance(st, (ast.FunctionDef,
                                                ast.AsyncFunctionDef,
                                                ast.ClassDef)):
                        setattr(st, field, rewrite(sub))
                for hdl in getattr(st, 'handlers', None) or ():
                    hdl.body = rewrite(hdl.body)
                out.append(st)
                idx += 1
        return out
    fdef.body = rewrite(fdef.body)
    return fdef


def inline_function(index, func, resolver):
    """Deep copy of func.raw with private helpers inlined; returns
    (new FunctionDef, [inlined callee names])."""
    inl = Inliner(index, resolver)
    node = sink_result_variable(fold_test_flags(sink_flag_return(
        fold_conditional_flag(fold_dict_calls(copy.deepcopy(func.raw))))))
    inl.fn_stored = (_stored_names(func.raw.body) -
                     _comprehension_vars(func.raw.body)) | set(
                         a.arg for a in func.raw.args.args)
    inl.taken = set(n.id for n in ast.walk(func.raw)
                    if isinstance(n, ast.Name)) | set(
                        a.arg for a in func.raw.args.args)
    node.body = inl.process(func, node.body, [func.fq])
    node = fold_lookup_default(node)
    node = fold_attribute_aliases(node, _volatile_attrs(func.module))
    if inl.inlined:
        # aliases introduced by unrolling / inlining (T = <yielded name>)
        ast.fix_missing_locations(node)
        node = fold_name_copies(node, func)
    ast.fix_missing_locations(node)
    return node, inl.inlined
