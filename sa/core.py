"""Run model: obligations, known findings, evidence, exit codes."""

import ast
import hashlib
import importlib
import json
import os
import sys
import time
import traceback

from . import AnalysisError, repo_root
from .index import Index
from . import cfg as cfgmod

VERIF_DIR = os.path.dirname(os.path.dirname(os.path.abspath(__file__)))
KNOWN_FILE = os.path.join(VERIF_DIR, 'known_findings.json')


def evidence_dir():
    return os.environ.get('TREADMILL_SA_EVIDENCE',
                          os.path.join(VERIF_DIR, 'evidence'))


def norm_text(node_or_text, limit=160):
    """Normalised statement text used in finding keys (no line numbers)."""
    if isinstance(node_or_text, cfgmod.Node):
        text = node_or_text.text(limit)
    elif isinstance(node_or_text, ast.AST):
        try:
            text = ast.unparse(node_or_text)
        except Exception:  # pylint: disable=broad-except
            text = type(node_or_text).__name__
    else:
        text = str(node_or_text)
    text = ' '.join(text.split())
    if len(text) > limit:
        text = text[:limit - 3] + '...'
    return text


class Ob(object):
    """One obligation (rule instance) and its verdict."""

    def __init__(self, rule, func, construct, ok, detail='', file=None,
                 line=0, path=None, evals=1, nontrivial=True, note=None):
        self.rule = rule
        self.func = func
        self.construct = construct
        self.ok = ok
        self.detail = detail
        self.file = file
        self.line = line
        self.path = path or []
        self.evals = evals
        self.nontrivial = nontrivial
        self.note = note

    def key(self):
        return (self.rule, self.func, self.construct)

    def as_dict(self):
        out = {
            'rule': self.rule,
            'function': self.func,
            'construct': self.construct,
            'where': '%s:%s' % (self.file, self.line),
            'verdict': 'holds' if self.ok else 'VIOLATED',
            'detail': self.detail,
        }
        if self.path:
            out['path'] = self.path
        if self.note:
            out['note'] = self.note
        return out


class Ctx(object):
    """What a property module receives."""

    def __init__(self, prop, tier, index=None):
        self.prop = prop
        self.tier = tier
        self.index = index or Index()
        self.obs = []
        self.notes = []
        self.unresolved_calls = 0
        self.functions_analysed = set()
        self._cfgs = {}
        self._relabel = None

    # -- obligations ---------------------------------------------------------
    def _where(self, func, node):
        file = None
        line = 0
        fq = func
        if hasattr(func, 'fq'):
            file = func.rel
            fq = func.fq
            line = func.node.lineno
            self.functions_analysed.add(func.fq)
        if node is not None:
            line = getattr(node, 'lineno', line) or line
        return fq, file, line

    def ob(self, rule, func, node, ok, detail='', path=None, evals=1,
           construct=None, nontrivial=True, note=None, file=None):
        fq, ffile, line = self._where(func, node)
        if self._relabel is not None:
            # a clause shared with a sibling property is reported under the
            # rule id it has in *this* property
            rule = self._relabel.get(rule, self._relabel.get(
                rule.split('.')[0], rule))
        if construct is None:
            construct = norm_text(node) if node is not None else ''
        obj = Ob(rule, fq, construct, bool(ok), detail, file or ffile, line,
                 path, evals, nontrivial, note)
        self.obs.append(obj)
        return obj

    def shared(self, mapping):
        """Context manager: obligations recorded inside are relabelled
        (exact rule id, else property prefix) - for clauses two properties
        share (each property reports them under its own rule id)."""
        ctx = self

        class _Scope(object):
            def __enter__(self_):
                self_.saved = ctx._relabel
                ctx._relabel = dict(mapping)

            def __exit__(self_, *exc):
                ctx._relabel = self_.saved
                return False
        return _Scope()

    def ok(self, rule, func, node, detail='', **kw):
        return self.ob(rule, func, node, True, detail, **kw)

    def fail(self, rule, func, node, detail='', **kw):
        return self.ob(rule, func, node, False, detail, **kw)

    def note(self, text):
        self.notes.append(text)

    def require(self, cond, what, rule=None, func=None):
        """Anchor roles that must exist.  A role needed to *locate* a routine
        (class, method) that vanished breaks the analysis (exit 2).  A
        mechanism *inside* a located routine - the call, store, loop or
        guard a clause is about - that is gone is a violation of that clause
        (``rule`` given): whatever the property relied on there is no longer
        performed."""
        if not cond:
            if isinstance(rule, str):
                self.fail(rule, func if func is not None else
                          'treadmill', None,
                          'the mechanism this clause is about is gone: %s' %
                          what, construct='missing: %s' % what)
            raise AnalysisError('anchor vanished: %s' % what)
        return cond

    # -- helpers ---------------------------------------------------------------
    def cfg(self, func):
        if func.fq not in self._cfgs:
            self._cfgs[func.fq] = cfgmod.CFG(func.node.body, func)
            self.functions_analysed.add(func.fq)
        return self._cfgs[func.fq]


def load_known():
    if not os.path.isfile(KNOWN_FILE):
        return {'findings': [], 'fixed': []}
    with open(KNOWN_FILE) as fh:
        return json.load(fh)


def known_keys(prop):
    out = {}
    for ent in load_known().get('findings', []):
        if ent.get('property') != prop:
            continue
        out[(ent['rule'], ent['function'], ent['construct'])] = ent
    return out


def write_replay(prop, obj, index):
    rdir = os.path.join(evidence_dir(), 'replay')
    os.makedirs(rdir, exist_ok=True)
    blob = json.dumps(obj.key(), sort_keys=True).encode('utf-8')
    digest = hashlib.sha256(blob).hexdigest()[:10]
    path = os.path.join(rdir, '%s-%s-%s.json' % (prop, obj.rule, digest))
    data = obj.as_dict()
    data['property'] = prop
    data['key'] = list(obj.key())
    data['repo'] = index.root
    data['how_to_replay'] = ('/verif/check %s --replay %s  (re-runs the rule '
                             'on the current tree and prints this '
                             'obligation)' % (prop, path))
    with open(path, 'w') as fh:
        json.dump(data, fh, indent=1)
    return path


class Result(object):
    def __init__(self):
        self.code = 0
        self.error = None
        self.ctx = None
        self.mod = None
        self.violations = []
        self.known_hit = []


_ANCHOR_FILES = {}


def _anchor_files(prop):
    if not _ANCHOR_FILES:
        import json
        here = os.path.dirname(os.path.dirname(os.path.abspath(__file__)))
        with open(os.path.join(here, 'properties.jsonl')) as fh:
            for line in fh:
                if line.strip():
                    rec = json.loads(line)
                    _ANCHOR_FILES[rec['id']] = list(
                        rec.get('anchors', {}).get('files', []))
    return _ANCHOR_FILES.get(prop, [])


def _generic(ctx, prop):
    """Clauses every property gets over its anchored modules (rule id
    <prop>.0)."""
    from .rules import common as K
    K.no_hidden_state(ctx, '%s.0' % prop, _anchor_files(prop))


def analyse(prop, tier='quick', index=None):
    """Run the rules of one property on an index; no output, no files."""
    res = Result()
    for key in cfgmod.STATS:
        cfgmod.STATS[key] = 0
    try:
        mod = importlib.import_module('sa.rules.%s' % prop.lower())
    except ImportError as err:
        res.code = 2
        res.error = 'no rule module: %s' % err
        return res
    res.mod = mod
    ctx = Ctx(prop, tier, index)
    res.ctx = ctx
    try:
        if tier == 'thorough':
            ctx.index.load_all()
        mod.check(ctx)
        _generic(ctx, prop)
        minimum = getattr(mod, 'MIN_OBLIGATIONS', 1)
        if len(ctx.obs) < minimum and all(o.ok for o in ctx.obs):
            raise AnalysisError(
                'only %d obligations generated, at least %d were confirmed '
                'by hand on the pinned tree (a rule matches nothing)' %
                (len(ctx.obs), minimum))
        per_rule_min = getattr(mod, 'MIN_PER_RULE', {})
        for rule, need in per_rule_min.items():
            mine = [o for o in ctx.obs if o.rule == rule]
            have = len(mine)
            if have < need and all(o.ok for o in mine):
                raise AnalysisError(
                    'rule %s generated %d obligations, needs >= %d' %
                    (rule, have, need))
    except AnalysisError as err:
        if not any(not o.ok for o in ctx.obs):
            res.code = 2
            res.error = str(err)
            return res
        # obligations already failed: report them; the part of the analysis
        # that could not be carried out is recorded as a note
        ctx.note('analysis stopped early: %s' % err)
    except RecursionError:
        res.code = 2
        res.error = 'internal error: recursion limit'
        return res
    except Exception:  # pylint: disable=broad-except
        res.code = 2
        res.error = 'internal error\n' + traceback.format_exc()
        return res
    known = known_keys(prop)
    for obj in ctx.obs:
        if obj.ok:
            continue
        ent = known.get(obj.key())
        if ent is not None:
            res.known_hit.append((obj, ent))
        else:
            res.violations.append(obj)
    res.code = 1 if res.violations else 0
    return res


def run_property(prop, tier='quick', seed=0, out=sys.stdout, replay=None,
                 write=True, selftest=None):
    """Run the rules of one property.  Returns the process exit code."""
    start = time.time()
    res = analyse(prop, tier)
    if res.code == 2:
        out.write('ANALYSIS-ERROR property=%s %s\n' % (prop, res.error))
        return 2
    ctx = res.ctx
    mod = res.mod
    violations = res.violations
    known_hit = res.known_hit

    if replay:
        try:
            with open(replay) as fh:
                want = tuple(json.load(fh)['key'])
        except (IOError, ValueError, KeyError) as err:
            out.write('ANALYSIS-ERROR cannot read replay %s: %s\n' %
                      (replay, err))
            return 2
        hits = [o for o in ctx.obs if o.key() == want]
        if not hits:
            out.write('replay: obligation %r is no longer generated on this '
                      'tree\n' % (want,))
        for obj in hits:
            out.write(json.dumps(obj.as_dict(), indent=1) + '\n')
        return 1 if any(not o.ok for o in hits) else 0

    seen = set()
    for obj, ent in known_hit:
        if obj.key() in seen:
            continue
        seen.add(obj.key())
        out.write('KNOWN-FINDING: property=%s %s [%s in %s: %s]\n' % (
            prop, ent.get('what_fails', obj.detail), obj.rule, obj.func,
            obj.construct))
    replay_paths = []
    for obj in violations:
        path = write_replay(prop, obj, ctx.index) if write else '-'
        replay_paths.append(path)
        out.write('%s:%s: [%s] %s :: %s -- %s\n' % (
            obj.file, obj.line, obj.rule, obj.func, obj.construct,
            obj.detail))
        for step in obj.path[:40]:
            out.write('      %s\n' % step)
        out.write('VIOLATION property=%s replay=%s\n' % (prop, path))

    wall = time.time() - start
    if write:
        _write_evidence(mod, ctx, tier, seed, wall, violations, known_hit,
                        selftest)
    rules = sorted(set(o.rule for o in ctx.obs))
    out.write('%s: %d obligations over %d rules (%s), %d discharged, '
              '%d known findings, %d violations, %d functions, %.2fs\n' % (
                  prop, len(ctx.obs), len(rules), ' '.join(rules),
                  len([o for o in ctx.obs if o.ok]), len(seen),
                  len(violations), len(ctx.functions_analysed), wall))
    return 1 if violations else 0


def _write_evidence(mod, ctx, tier, seed, wall, violations, known_hit,
                    selftest):
    obs = ctx.obs
    distinct = set(o.key() for o in obs if o.nontrivial)
    samples = []
    by_rule = {}
    for obj in obs:
        by_rule.setdefault(obj.rule, []).append(obj)
    for rule in sorted(by_rule):
        for obj in by_rule[rule][:2]:
            samples.append(obj.as_dict())
    for obj in violations[:10]:
        samples.append(obj.as_dict())
    rule_counts = {r: {'obligations': len(v),
                       'discharged': len([o for o in v if o.ok])}
                   for r, v in by_rule.items()}
    coverage = {
        'explanation': getattr(mod, 'EXPLANATION', '').strip(),
        'rule': ('one case = one rule instance (obligation) generated from '
                 'the current source: a located construct (call site, '
                 'statement, CFG path set, table row) and the normal form '
                 'it must satisfy; evaluations = graph queries run on the '
                 'CFGs (reachability / cut / product explorations / '
                 'dataflow solves) plus table rows examined; distinct = distinct (rule, function, '
                 'construct) keys; non-trivial = the locator matched a real '
                 'construct whose normal form is not constant'),
        'obligations': len(obs),
        'discharged': len([o for o in obs if o.ok]),
        'evaluations': max(1, cfgmod.STATS['queries'] +
                           sum(o.evals for o in obs)),
        'cfg_queries': cfgmod.STATS['queries'],
        'cfg_nodes_visited': cfgmod.STATS['visited'],
        'cfgs_built': cfgmod.STATS['cfgs'],
        'cfg_nodes_built': cfgmod.STATS['cfg_nodes'],
        'distinct_nontrivial': len(distinct),
        'samples': samples,
        'per_rule': rule_counts,
        'functions_analysed': sorted(ctx.functions_analysed),
        'files_analysed': ctx.index.digests(),
        'modules_parsed': len(ctx.index.modules),
        'known_findings_reported': [
            {'rule': o.rule, 'function': o.func, 'construct': o.construct}
            for o, _e in known_hit],
        'notes': ctx.notes,
        'checker_cmd': '/verif/check %s --tier %s' % (ctx.prop, tier),
        'trusted_base': getattr(mod, 'TRUSTED', [
            'CPython ast parser', 'CFG construction rules of sa/cfg.py']),
        'repo_root': ctx.index.root,
        'exhaustive': False,
    }
    if selftest is not None:
        coverage['selftest'] = selftest
    data = {
        'property_id': ctx.prop,
        'tier': tier,
        'seed': int(seed),
        'level': 'other',
        'coverage': coverage,
        'assumptions': list(getattr(mod, 'ASSUMPTIONS', [])) + [
            'a passing check means every listed structural necessary '
            'condition holds on every path of the current source, not that '
            'the behavioural property holds for every history',
        ],
        'wall_s': round(wall, 3),
        'violations': len(violations),
    }
    edir = evidence_dir()
    os.makedirs(edir, exist_ok=True)
    tmp = os.path.join(edir, '.%s.json.tmp' % ctx.prop)
    with open(tmp, 'w') as fh:
        json.dump(data, fh, indent=1, sort_keys=True)
    os.replace(tmp, os.path.join(edir, '%s.json' % ctx.prop))
