"""E3 - statement-level control-flow graph with atomic condition edges.

Node kinds
  entry, exit (normal return / fall through), raise (exceptional exit),
  stmt (simple statement), test (atomic condition; out edges true/false),
  for (loop header; out edges iter/done), loop_head (while header, no-op),
  return, raise_stmt, assert (out edges true / exc), with_enter, with_exit,
  handler (entry of an except clause), join (no-op landing pad).

Edge kinds
  seq, true, false, iter, done, exc.

``finally`` bodies (and the implicit ``__exit__`` of ``with``) are copied once
per continuation kind that reaches them, so a path through the graph never
enters a finally block normally and leaves it exceptionally.
"""

import ast
import collections

from . import AnalysisError


class Node(object):
    __slots__ = ('id', 'kind', 'ast', 'succ', 'pred', 'note', 'cfg', 'loops')

    def __init__(self, nid, kind, node=None, note=None, cfg=None):
        self.id = nid
        self.kind = kind
        self.ast = node
        self.succ = []
        self.pred = []
        self.note = note
        self.cfg = cfg

    @property
    def lineno(self):
        return getattr(self.ast, 'lineno', 0) if self.ast is not None else 0

    def text(self, limit=90):
        if self.ast is None:
            return '<%s>' % self.kind
        try:
            if self.kind == 'for':
                txt = 'for %s in %s' % (ast.unparse(self.ast.target),
                                        ast.unparse(self.ast.iter))
            elif self.kind == 'loop_head':
                txt = 'while %s' % ast.unparse(self.ast.test)
            elif self.kind == 'with_enter':
                txt = 'with ' + ', '.join(
                    ast.unparse(i) for i in self.ast.items)
            elif self.kind == 'with_exit':
                txt = '<exit of with %s>' % ', '.join(
                    ast.unparse(i.context_expr) for i in self.ast.items)
            elif self.kind == 'handler':
                txt = 'except %s' % (ast.unparse(self.ast.type)
                                     if self.ast.type else '')
            elif isinstance(self.ast, (ast.FunctionDef, ast.ClassDef)):
                txt = 'def %s' % self.ast.name
            else:
                txt = ast.unparse(self.ast)
        except Exception:  # pylint: disable=broad-except
            txt = '<%s>' % self.kind
        txt = ' '.join(txt.split())
        if len(txt) > limit:
            txt = txt[:limit - 3] + '...'
        return txt

    def __repr__(self):
        return '<N%d %s L%d %s>' % (self.id, self.kind, self.lineno,
                                    self.text(40))


Edge = collections.namedtuple('Edge', 'src dst kind')

# work counters of one run (reported as evidence)
STATS = {'queries': 0, 'visited': 0, 'cfgs': 0, 'cfg_nodes': 0}


class _Loop(object):
    def __init__(self, head):
        self.head = head
        self.breaks = []


class _Inline(object):
    """Frame of an inlined helper body: an inline-exit (a ``return`` of the
    helper) continues after the block."""

    def __init__(self):
        self.exits = []


class _InlineCond(object):
    """Frame of a helper inlined in condition position: every ``return E``
    of the helper becomes a branch on E."""

    def __init__(self):
        self.rets = []      # (stubs, value expr or None)


class _Try(object):
    def __init__(self, handlers, final, catch_all):
        self.handlers = handlers      # list of handler entry nodes
        self.final = final            # list of stmts | ('with', node) | None
        self.catch_all = catch_all
        self.phase = 'body'
        self.pads = {}


def _may_raise(node):
    for sub in ast.walk(node):
        if isinstance(sub, (ast.Call, ast.Raise, ast.Assert, ast.Await,
                            ast.Yield, ast.YieldFrom)):
            return True
        if isinstance(sub, ast.Subscript) and isinstance(sub.ctx, ast.Load):
            return True
        if isinstance(sub, (ast.Delete,)):
            return True
    return False


class CFG(object):
    """CFG of one function body (or of a module body / statement list)."""

    def __init__(self, body, func=None, name=None):
        self.func = func
        self.name = name or (func.fq if func is not None else '<block>')
        self.nodes = []
        self._cur_loops = ()
        self._copy_env = None
        self._pending_value = None
        self.entry = self._new('entry')
        self.exit = self._new('exit')
        self.raise_exit = self._new('raise')
        stubs = self._block(body, [(self.entry, 'seq')], [])
        self._connect(stubs, self.exit)
        STATS['cfgs'] += 1
        STATS['cfg_nodes'] += len(self.nodes)

    # -- construction helpers ---------------------------------------------
    def _new(self, kind, node=None, note=None):
        new = Node(len(self.nodes), kind, node, note, self)
        new.loops = getattr(self, '_cur_loops', ())
        self.nodes.append(new)
        return new

    def _connect(self, stubs, target):
        for src, kind in stubs:
            edge = Edge(src, target, kind)
            if edge not in src.succ:
                src.succ.append(edge)
                target.pred.append(edge)

    def _exc_target(self, frames):
        """Landing pad for an exception raised in the context ``frames``."""
        idx = len(frames) - 1
        while idx >= 0 and not isinstance(frames[idx], _Try):
            idx -= 1
        if idx < 0:
            return self.raise_exit
        frame = frames[idx]
        key = frame.phase
        if key not in frame.pads:
            pad = self._new('join', note='exc-pad')
            pad.loops = tuple(f.head for f in frames[:idx + 1]
                              if isinstance(f, _Loop))
            frame.pads[key] = pad
            self._jump([(pad, 'exc')], 'raise', frames[:idx + 1])
        return frame.pads[key]

    def _raise_edges(self, node, frames):
        self._connect([(node, 'exc')], self._exc_target(frames))

    def _final_copy(self, frame, stubs, outer):
        if frame.final is None:
            return stubs
        if isinstance(frame.final, tuple):
            wexit = self._new('with_exit', frame.final[1])
            self._connect(stubs, wexit)
            return [(wexit, 'seq')]
        return self._block(frame.final, stubs, outer)

    def _jump(self, stubs, kind, frames):
        idx = len(frames) - 1
        while idx >= 0:
            frame = frames[idx]
            if isinstance(frame, _InlineCond):
                if kind == 'inline_cond':
                    frame.rets.append((stubs, self._pending_value))
                    return
                if kind in ('break', 'continue'):
                    raise AnalysisError('%s crosses an inlined helper in %s'
                                        % (kind, self.name))
            elif isinstance(frame, _Inline):
                if kind == 'inline_exit':
                    frame.exits.extend(stubs)
                    return
                if kind in ('break', 'continue'):
                    raise AnalysisError('%s crosses an inlined helper in %s'
                                        % (kind, self.name))
            elif isinstance(frame, _Loop):
                if kind == 'break':
                    frame.breaks.extend(stubs)
                    return
                if kind == 'continue':
                    self._connect(stubs, frame.head)
                    return
            else:
                if kind == 'raise' and frame.phase == 'body' and \
                        frame.handlers:
                    for hnode in frame.handlers:
                        self._connect(stubs, hnode)
                    if frame.catch_all:
                        return
                if frame.final is not None and frame.phase != 'final':
                    stubs = self._final_copy(frame, stubs, frames[:idx])
            idx -= 1
        if kind == 'return':
            self._connect(stubs, self.exit)
        elif kind == 'raise':
            self._connect(stubs, self.raise_exit)
        elif kind == 'inline_exit':
            self._connect(stubs, self.exit)
        else:
            raise AnalysisError('%s outside loop in %s' % (kind, self.name))

    # -- conditions ----------------------------------------------------------
    def _cond(self, expr, stubs, frames):
        """Decompose a condition into atomic test nodes.
        Returns (true_stubs, false_stubs)."""
        if isinstance(expr, ast.BoolOp):
            if isinstance(expr.op, ast.And):
                falses = []
                cur = stubs
                for val in expr.values:
                    cur, fls = self._cond(val, cur, frames)
                    falses.extend(fls)
                return cur, falses
            trues = []
            cur = stubs
            for val in expr.values:
                tru, cur = self._cond(val, cur, frames)
                trues.extend(tru)
            return trues, cur
        if isinstance(expr, ast.UnaryOp) and isinstance(expr.op, ast.Not):
            tru, fls = self._cond(expr.operand, stubs, frames)
            return fls, tru
        if isinstance(expr, ast.Constant):
            if expr.value:
                return stubs, []
            return [], stubs
        if isinstance(expr, ast.IfExp):
            # (A if T else B) as a condition: T decides which of A, B is
            # tested
            tru_t, fls_t = self._cond(expr.test, stubs, frames)
            tru_a, fls_a = self._cond(expr.body, tru_t, frames)
            tru_b, fls_b = self._cond(expr.orelse, fls_t, frames)
            return tru_a + tru_b, fls_a + fls_b
        body = getattr(expr, '_inline_body', None)
        if body is not None:
            frame = _InlineCond()
            out = self._block(body, stubs, frames + [frame])
            trues, falses = [], list(out)      # falling off the end: None
            for rstubs, value in frame.rets:
                if value is None:
                    falses.extend(rstubs)
                else:
                    tru, fls = self._cond(value, rstubs, frames)
                    trues.extend(tru)
                    falses.extend(fls)
            return trues, falses
        node = self._new('test', expr)
        self._connect(stubs, node)
        if _may_raise(expr):
            self._raise_edges(node, frames)
        return [(node, 'true')], [(node, 'false')]

    # -- statements --------------------------------------------------------
    def _block(self, stmts, stubs, frames):
        # nodes without syntax of their own (landing pads, the return
        # marker of a helper spliced in at a condition) remember the loops
        # they were built in: lexical containment cannot place them
        prev = self._cur_loops
        self._cur_loops = tuple(f.head for f in frames
                                if isinstance(f, _Loop))
        try:
            for stmt in stmts:
                stubs = self._stmt(stmt, stubs, frames)
        finally:
            self._cur_loops = prev
        return stubs

    def _simple(self, kind, stmt, stubs, frames):
        node = self._new(kind, stmt)
        self._connect(stubs, node)
        if _may_raise(stmt):
            self._raise_edges(node, frames)
        return node

    def _stmt(self, stmt, stubs, frames):
        # pylint: disable=too-many-branches,too-many-statements
        if not stubs:
            # unreachable code: still build it so that nodes exist
            pass
        if isinstance(stmt, ast.Pass) and getattr(stmt, '_inline_exit',
                                                  False):
            node = self._new('stmt', stmt, note='inline-exit')
            self._connect(stubs, node)
            self._jump([(node, 'seq')], 'inline_exit', frames)
            return []
        if isinstance(stmt, ast.If) and \
                getattr(stmt, '_inline', None) == 'loop body':
            # the consumer's loop body placed at a yield of an unrolled
            # generator: its break / continue are those of the generator's
            # loop around it
            return self._block(stmt.body, stubs, frames)
        if isinstance(stmt, ast.If) and getattr(stmt, '_inline', None):
            frame = _Inline()
            out = self._block(stmt.body, stubs, frames + [frame])
            return out + frame.exits
        if isinstance(stmt, (ast.Expr, ast.Assign, ast.AugAssign,
                             ast.AnnAssign, ast.Delete, ast.Pass,
                             ast.Import, ast.ImportFrom, ast.Global,
                             ast.Nonlocal)):
            node = self._simple('stmt', stmt, stubs, frames)
            return [(node, 'seq')]
        if isinstance(stmt, (ast.FunctionDef, ast.AsyncFunctionDef,
                             ast.ClassDef)):
            node = self._new('stmt', stmt)
            self._connect(stubs, node)
            return [(node, 'seq')]
        if isinstance(stmt, ast.Return) and getattr(
                stmt, '_inline_cond_ret', False):
            marker = self._new('stmt', None, note='inline-return')
            self._connect(stubs, marker)
            self._pending_value = stmt.value
            self._jump([(marker, 'seq')], 'inline_cond', frames)
            return []
        if isinstance(stmt, ast.Return):
            node = self._new('return', stmt)
            self._connect(stubs, node)
            if stmt.value is not None and _may_raise(stmt.value):
                self._raise_edges(node, frames)
            self._jump([(node, 'seq')], 'return', frames)
            return []
        if isinstance(stmt, ast.Raise):
            node = self._new('raise_stmt', stmt)
            self._connect(stubs, node)
            self._raise_edges(node, frames)
            return []
        if isinstance(stmt, ast.Assert):
            tru, fls = self._cond(stmt.test, stubs, frames)
            if fls:
                fail = self._new('raise_stmt', stmt, note='assert-fail')
                self._connect(fls, fail)
                self._raise_edges(fail, frames)
            return tru
        if isinstance(stmt, ast.Break):
            node = self._new('stmt', stmt)
            self._connect(stubs, node)
            self._jump([(node, 'seq')], 'break', frames)
            return []
        if isinstance(stmt, ast.Continue):
            node = self._new('stmt', stmt)
            self._connect(stubs, node)
            self._jump([(node, 'seq')], 'continue', frames)
            return []
        if isinstance(stmt, ast.If):
            tru, fls = self._cond(stmt.test, stubs, frames)
            out = self._block(stmt.body, tru, frames)
            out = out + self._block(stmt.orelse, fls, frames)
            return out
        if isinstance(stmt, ast.While):
            head = self._new('loop_head', stmt)
            self._connect(stubs, head)
            tru, fls = self._cond(stmt.test, [(head, 'seq')], frames)
            loop = _Loop(head)
            body_out = self._block(stmt.body, tru, frames + [loop])
            self._connect(body_out, head)
            out = self._block(stmt.orelse, fls, frames)
            return out + loop.breaks
        if isinstance(stmt, (ast.For, ast.AsyncFor)):
            head = self._new('for', stmt)
            self._connect(stubs, head)
            if _may_raise(stmt.iter):
                self._raise_edges(head, frames)
            loop = _Loop(head)
            body_out = self._block(stmt.body, [(head, 'iter')],
                                   frames + [loop])
            self._connect(body_out, head)
            out = self._block(stmt.orelse, [(head, 'done')], frames)
            return out + loop.breaks
        if isinstance(stmt, (ast.With, ast.AsyncWith)):
            enter = self._new('with_enter', stmt)
            self._connect(stubs, enter)
            self._raise_edges(enter, frames)
            frame = _Try([], ('with', stmt), False)
            body_out = self._block(stmt.body, [(enter, 'seq')],
                                   frames + [frame])
            return self._final_copy(frame, body_out, frames)
        if isinstance(stmt, ast.Try):
            handlers = []
            catch_all = False
            for hdl in stmt.handlers:
                hnode = self._new('handler', hdl)
                handlers.append(hnode)
                if hdl.type is None:
                    catch_all = True
                else:
                    names = []
                    typs = hdl.type.elts if isinstance(
                        hdl.type, ast.Tuple) else [hdl.type]
                    for typ in typs:
                        names.append(ast.unparse(typ))
                    if 'Exception' in names or 'BaseException' in names:
                        catch_all = True
            frame = _Try(handlers, stmt.finalbody or None, catch_all)
            inner = frames + [frame]
            body_out = self._block(stmt.body, stubs, inner)
            frame.phase = 'else'
            else_out = self._block(stmt.orelse, body_out, inner)
            outs = list(else_out)
            frame.phase = 'handler'
            for hdl, hnode in zip(stmt.handlers, handlers):
                outs.extend(self._block(hdl.body, [(hnode, 'seq')], inner))
            frame.phase = 'final'
            if frame.final is not None:
                outs = self._final_copy(frame, outs, frames)
            return outs
        raise AnalysisError('unsupported statement %s at %s:%d' % (
            type(stmt).__name__, self.name, getattr(stmt, 'lineno', 0)))

    # -- queries -----------------------------------------------------------
    def edges(self):
        for node in self.nodes:
            for edge in node.succ:
                yield edge

    def nodes_of(self, pred):
        return [n for n in self.nodes if pred(n)]

    def find_calls(self, match):
        """[(node, call)] for every Call inside a node's own expression for
        which match(call) is true."""
        out = []
        for node in self.nodes:
            for call in node_calls(node):
                if match(call):
                    out.append((node, call))
        return out


def node_exprs(node):
    """The expression roots evaluated *by this node itself*."""
    if node.ast is None:
        return []
    kind = node.kind
    if kind == 'test':
        return [node.ast]
    if kind == 'for':
        return [node.ast.iter]
    if kind == 'with_enter':
        return [i.context_expr for i in node.ast.items]
    if kind in ('with_exit', 'loop_head', 'join', 'handler'):
        return []
    if kind == 'raise_stmt' and isinstance(node.ast, ast.Assert):
        return [node.ast.msg] if node.ast.msg is not None else []
    if isinstance(node.ast, (ast.FunctionDef, ast.AsyncFunctionDef,
                             ast.ClassDef)):
        return []
    return [node.ast]


def node_calls(node):
    out = []
    for root in node_exprs(node):
        for sub in ast.walk(root):
            if isinstance(sub, ast.Call):
                out.append(sub)
    return out


def reach(starts, blocked=(), edge_ok=None, backward=False):
    """Set of nodes reachable from ``starts`` (inclusive) without entering a
    node of ``blocked`` (start nodes are never blocked)."""
    blocked = set(blocked)
    seen = set(starts)
    stack = list(starts)
    STATS['queries'] += 1
    while stack:
        node = stack.pop()
        STATS['visited'] += 1
        for edge in (node.pred if backward else node.succ):
            if edge_ok is not None and not edge_ok(edge):
                continue
            nxt = edge.src if backward else edge.dst
            if nxt in seen or nxt in blocked:
                continue
            seen.add(nxt)
            stack.append(nxt)
    return seen


def reach_after(node, blocked=(), edge_ok=None):
    """Nodes reachable from the successors of ``node`` (node itself only when
    on a cycle)."""
    blocked = set(blocked)
    seen = set()
    stack = []
    for edge in node.succ:
        if edge_ok is not None and not edge_ok(edge):
            continue
        if edge.dst not in blocked and edge.dst not in seen:
            seen.add(edge.dst)
            stack.append(edge.dst)
    while stack:
        cur = stack.pop()
        for edge in cur.succ:
            if edge_ok is not None and not edge_ok(edge):
                continue
            if edge.dst in seen or edge.dst in blocked:
                continue
            seen.add(edge.dst)
            stack.append(edge.dst)
    return seen


def no_exc(edge):
    return edge.kind != 'exc'


def dominators(cfg, edge_ok=None):
    """Map node -> set of dominators (iterative)."""
    nodes = [n for n in reach([cfg.entry], edge_ok=edge_ok)]
    order = sorted(nodes, key=lambda n: n.id)
    allset = set(nodes)
    dom = {n: set(allset) for n in nodes}
    dom[cfg.entry] = {cfg.entry}
    changed = True
    while changed:
        changed = False
        for node in order:
            if node is cfg.entry:
                continue
            preds = [e.src for e in node.pred
                     if e.src in dom and (edge_ok is None or edge_ok(e))]
            if not preds:
                continue
            new = set.intersection(*[dom[p] for p in preds])
            new.add(node)
            if new != dom[node]:
                dom[node] = new
                changed = True
    return dom


def explore(cfg, init_states, step, start=None, edge_ok=None, limit=400000):
    """Product of the CFG with a finite automaton.

    ``step(edge, state)`` returns an iterable of successor states for taking
    ``edge`` (applying the effect of ``edge.src`` with outcome ``edge.kind``).
    Returns dict (node, state) -> (parent key or None, edge or None).
    """
    start = start or cfg.entry
    reached = {}
    STATS['queries'] += 1
    work = collections.deque()
    for state in init_states:
        key = (start, state)
        if key not in reached:
            reached[key] = (None, None)
            work.append(key)
    while work:
        key = work.popleft()
        node, state = key
        STATS['visited'] += 1
        for edge in node.succ:
            if edge_ok is not None and not edge_ok(edge):
                continue
            for new in step(edge, state):
                nkey = (edge.dst, new)
                if nkey not in reached:
                    reached[nkey] = (key, edge)
                    work.append(nkey)
                    if len(reached) > limit:
                        raise AnalysisError(
                            'state explosion in %s' % cfg.name)
    return reached


def witness(reached, key):
    """Path (list of edges) leading to ``key`` in an explore() result."""
    path = []
    while key is not None:
        parent, edge = reached[key]
        if edge is not None:
            path.append(edge)
        key = parent
    path.reverse()
    return path


def describe_path(path, only_decisions=True):
    """Human readable list of the branch decisions along a path."""
    out = []
    for edge in path:
        if only_decisions and edge.kind == 'seq':
            continue
        out.append('L%d %s -> %s' % (edge.src.lineno, edge.src.text(60),
                                     edge.kind))
    return out
