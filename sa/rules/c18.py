"""C18 - archiving trace history never loses or prematurely archives
events (ordering / guard clauses)."""

import ast
import re

from .. import cfg as C
from .. import norm as N
from . import common as K

TZK = 'treadmill.trace._zk'
APP = 'treadmill.trace.app.zk'
SRV = 'treadmill.trace.server.zk'

EXPLANATION = """
C18.1 upload-before-delete in upload_batch: every delete of a batch path is
dominated by the snapshot create; the create is not inside a handler that
swallows its failure; the collection deleted is the very object inserted
into the snapshot (no reassignment in between).  C18.2 selection guards: a
trace event is selected only under `instance not in scheduled` and
`timestamp < now - expires`; a finished record only under
`last_modified < now - expires`.  C18.3 only full batches are uploaded (the
short-batch branch leaves the loop before the upload), in all three
archivers.  C18.4 keep-newest: _zk.cleanup deletes the prefix of length
len - max of an ascending sort.  C18.5 snapshot schema agreement: the column
download_batch selects is one upload_batch inserts; the INSERT lists five
columns in the order the callers' 5-tuples use; the delete loop takes the
path from the first column.
Added by the seeding rounds - C18.1 the rows inserted are the batch itself
(the collection the deletes range over, never re-bound or sliced) and the
snapshot is created before any delete; C18.2 the scheduled listing is the
whole unfiltered listing and the expiry test is per event; C18.4 the history
prune slice keeps its guard; C18.5 download column and filter are inserted
columns, whatever the placeholder style. Fourth round: C18.2 the daemon drives
each archiver with its own options; C18.5 the snapshot reader searches every
snapshot.
Sweep: C18.5 the reader walks a whole batch (loop never cut short), skips an event only when it is older than or equal to the last one seen and hands every other one over; download_batch returns the rows it read.
Fifth round: C18.3 every input of the timestamp merge of the server-trace archiver is sorted when it is merged; C18.5 the trace loops read the snapshots before they register the live watch.
Sixth round: C18.2 the archivers keep nothing in module-level state between runs.
Seventh round: C18.4 download_batch (a prefix query on event names) is used on trace tables only; C18.5 every row of a finished snapshot is loaded into the history, whatever live records exist.
Eighth round: C18.5 the reader skips the snapshots only while the instance is scheduled (no other condition on consulting the history).
Ninth round: C18.5 a snapshot that cannot be read fails the read of the history (no handler around the downloads of either reader).
Does NOT decide retrievability from the produced snapshot nor every crash cut
beyond the upload-before-delete ordering.
"""

ASSUMPTIONS = [
    'zkutils.create raises when the snapshot node cannot be created',
    'sorted() of sequence-node names is creation order',
]

MIN_OBLIGATIONS = 16
MIN_PER_RULE = {'C18.1': 4, 'C18.2': 3, 'C18.3': 3, 'C18.4': 3, 'C18.5': 5}


def _upload(ctx):
    mod = ctx.index.module(TZK)
    func = mod.functions.get('upload_batch')
    ctx.require(func is not None, '_zk.upload_batch')
    graph = ctx.cfg(func)
    batch = func.params()[3]
    creates = [n for n, c in K.nodes_calling(
        graph, lambda c: K.callee_text(c) == 'zkutils.create')]
    dels = [n for n in graph.nodes for c in C.node_calls(n)
            if 'ensure_deleted' in N.txt(c) or
            K.is_meth(c, 'delete') and 'zkclient' in (K.recv_text(c) or '')]
    ctx.require(creates and dels, 'snapshot create and batch delete in '
                                  'upload_batch', rule='C18.1')
    for node in dels:
        ok = K.guarded_by(graph, node, lambda e: e.src in creates and
                          e.kind != 'exc')
        ctx.ob('C18.1', func, node, ok,
               'a batch node is deleted only after the snapshot was '
               'created' if ok else
               'a batch node can be deleted before the snapshot exists: a '
               'stop in between loses the events')
        loop = K.enclosing_for(graph, node)
        ctx.ob('C18.1', func, node, loop is not None and
               N.txt(loop.ast.iter) == batch,
               'the delete loop ranges over the batch that was inserted',
               construct='delete loop domain')
    # the create is not inside a try whose handler swallows
    swallowed = False
    for sub in K.walk_no_nested(func.node):
        if isinstance(sub, ast.Try):
            inside = any(isinstance(s, ast.Call) and
                         K.callee_text(s) == 'zkutils.create'
                         for b in sub.body for s in ast.walk(b))
            if inside:
                for hdl in sub.handlers:
                    if not any(isinstance(s, ast.Raise)
                               for s in ast.walk(hdl)):
                        swallowed = True
    ctx.ob('C18.1', func, creates[0], not swallowed,
           'a failing snapshot create is not swallowed',
           construct='snapshot create failure propagates')
    inserts = [s for s in K.walk_no_nested(func.node)
               if isinstance(s, ast.Call) and K.is_meth(s, 'executemany')]
    ok = len(inserts) == 1 and N.txt(inserts[0].args[1]) == batch
    reass = [n for n in graph.nodes if batch in N.assigned_targets(n)]
    ctx.ob('C18.1', func, inserts[0] if inserts else None,
           ok and not reass,
           'the rows inserted into the snapshot are the batch itself, never '
           're-bound', construct='inserted collection = deleted collection')
    return mod, func


def _expiry_atom(var):
    return N.cmp_atom(ast.parse(var, mode='eval').body, '<',
                      ast.parse('time.time() - expires_after',
                                mode='eval').body)


def _rows_tuple(func):
    """The tuple display whose instances make up the rows handed to
    upload_batch by func (through slices, copies, comprehensions and
    appends)."""
    calls = [c for c in K.calls(func.node)
             if K.is_meth(c, 'upload_batch') or
             K.callee_text(c).endswith('upload_batch')]
    if not calls or len(calls[0].args) < 4:
        return None
    cur = calls[0].args[3]
    defs = {}
    for sub in K.walk_no_nested(func.node):
        if isinstance(sub, ast.Assign) and \
                isinstance(sub.targets[0], ast.Name):
            defs.setdefault(sub.targets[0].id, []).append(sub.value)
    for _hop in range(8):
        if isinstance(cur, ast.Subscript) and isinstance(cur.slice,
                                                         ast.Slice):
            cur = cur.value
            continue
        if isinstance(cur, ast.ListComp):
            return cur.elt if isinstance(cur.elt, ast.Tuple) else None
        if not isinstance(cur, ast.Name):
            return None
        vals = defs.get(cur.id, [])
        if len(vals) == 1 and isinstance(vals[0], (ast.Name, ast.Subscript,
                                                   ast.ListComp)):
            cur = vals[0]
            continue
        def row(elt):
            # the row, possibly built in a local of its own first
            if isinstance(elt, ast.Name) and len(defs.get(elt.id, [])) == 1:
                return defs[elt.id][0]
            return elt
        tups = [row(p['elt']) for p in K.list_contributions(func, cur.id)
                if 'other' not in p and isinstance(row(p.get('elt')),
                                                   ast.Tuple)]
        return tups[0] if len(tups) == 1 else None
    return None


def _selection(ctx):
    app = ctx.index.module(APP)
    nz = N.Normaliser()
    ct = app.functions.get('cleanup_trace')
    cf = app.functions.get('cleanup_finished')
    ctx.require(ct is not None and cf is not None,
                'cleanup_trace / cleanup_finished', rule='C18.2')
    for func, need_sched in ((ct, True), (cf, False)):
        graph = ctx.cfg(func)
        facts = N.must_facts(graph, nz)
        defs = {}
        for sub in K.walk_no_nested(func.node):
            if isinstance(sub, ast.Assign) and \
                    isinstance(sub.targets[0], ast.Name):
                defs.setdefault(sub.targets[0].id, []).append(sub.value)
        # the collected list: the one cut into batches
        sliced = [s.value for s in K.walk_no_nested(func.node)
                  if isinstance(s, ast.Subscript) and
                  isinstance(s.slice, ast.Slice) and
                  isinstance(s.value, ast.Name)]
        ctx.require(sliced, 'batch slicing in %s' % func.qualname,
            rule='C18.2')
        lst = sliced[0]
        for _hop in range(3):
            if len(defs.get(lst.id, [])) == 1 and \
                    isinstance(defs[lst.id][0], ast.Name):
                lst = defs[lst.id][0]
        parts = [p for p in K.list_contributions(func, lst.id)
                 if 'other' not in p and p['elt'] is not None]
        by_ast = dict((id(n.ast), n) for n in graph.nodes
                      if n.kind == 'stmt' and n.ast is not None)
        # (the row may be built in a local first)
        adds = [(by_ast[id(p['node'])], p) for p in parts
                if id(p['node']) in by_ast and
                isinstance(K.rexpr(func, p['elt']), ast.Tuple)]
        ctx.require(adds, 'selection into %s' % lst.id, rule='C18.2')
        for node, part in adds:
            elts = K.rexpr(func, part['elt']).elts
            when = elts[0] if len(elts) == 3 else (
                elts[1] if len(elts) > 1 else elts[0])
            wants = [_expiry_atom(N.txt(when)),
                     _expiry_atom(K.rtxt(func, when))]
            old = any(N.same_direction(f, want) for f in facts[node]
                      for want in wants)
            ctx.ob('C18.2', func, node, old,
                   'selected for archiving only when older than the expiry '
                   '(%s)' % N.show(wants[0]), construct='%s [expired]' %
                   node.text(50))
            if need_sched:
                ids = [N.txt(sub.targets[0].elts[0])
                       for sub in K.walk_no_nested(func.node)
                       if isinstance(sub, ast.Assign) and
                       isinstance(sub.targets[0], ast.Tuple) and
                       isinstance(sub.value, ast.Call) and
                       K.is_meth(sub.value, 'split')]
                # ... or the first piece taken by position
                ids += [N.txt(sub.targets[0])
                        for sub in K.walk_no_nested(func.node)
                        if isinstance(sub, ast.Assign) and
                        isinstance(sub.targets[0], ast.Name) and
                        isinstance(sub.value, ast.Subscript) and
                        isinstance(sub.value.value, ast.Call) and
                        K.is_meth(sub.value.value, 'split') and
                        N.txt(sub.value.slice) == '0']
                def whole_listing(expr):
                    if isinstance(expr, ast.Call) and \
                            K.callee_text(expr) in ('set', 'frozenset',
                                                    'list') and \
                            len(expr.args) == 1:
                        expr = expr.args[0]
                    return isinstance(expr, ast.Call) and \
                        K.is_meth(expr, 'get_children') and \
                        len(expr.args) == 1 and \
                        N.txt(expr.args[0]) == 'z.SCHEDULED'
                narrowed = set()
                for sub in K.walk_no_nested(func.node):
                    if isinstance(sub, ast.AugAssign):
                        narrowed.add(N.txt(sub.target))
                    if isinstance(sub, ast.Call) and isinstance(
                            sub.func, ast.Attribute) and sub.func.attr in (
                                'remove', 'discard', 'pop', 'clear',
                                'difference_update', 'intersection_update',
                                'symmetric_difference_update'):
                        narrowed.add(N.txt(sub.func.value))
                listings = [name for name, vals in defs.items()
                            if len(vals) == 1 and whole_listing(vals[0])
                            and name not in narrowed]
                ok = any(f.key[0] == 'in' and not f.key[3] and
                         f.key[1] in ids and f.key[2] in listings
                         for f in facts[node])
                ctx.ob('C18.2', func, node, ok,
                       'selected only when the instance is no longer '
                       'scheduled', construct='%s [not scheduled]' %
                       node.text(50))
                ctx.ob('C18.2', func, None, bool(listings),
                       'scheduled is the current listing of /scheduled',
                       construct='scheduled listing')
    return app


def _full_batches(ctx, app):
    srv = ctx.index.module(SRV)
    nz = N.Normaliser()
    funcs = [app.functions.get('cleanup_trace'),
             app.functions.get('cleanup_finished'),
             srv.functions.get('cleanup_server_trace')]
    ctx.require(all(funcs), 'the three archivers', rule='C18.3')
    for func in funcs:
        graph = ctx.cfg(func)
        ups = [n for n, c in K.nodes_calling(
            graph, lambda c: K.is_meth(c, 'upload_batch'))]
        ctx.require(ups, 'upload_batch call in %s' % func.name, rule='C18.3')
        # len(<the collection uploaded, or the slice it is built from>) >=
        # <the batch size parameter>, whatever the locals are called
        size = [p for p in func.params() if 'batch' in p and 'size' in p]
        size = size[0] if size else 'batch_size'
        for node in ups:
            call = [c for c in C.node_calls(node)
                    if K.is_meth(c, 'upload_batch')][0]
            arg = call.args[-1] if call.args else None
            cands = set()
            if arg is not None:
                # the argument, and what the locals it names are built from
                ldefs = {}
                for sub in K.walk_no_nested(func.node):
                    if isinstance(sub, ast.Assign) and \
                            len(sub.targets) == 1 and \
                            isinstance(sub.targets[0], ast.Name):
                        ldefs.setdefault(sub.targets[0].id, []).append(
                            sub.value)
                cands = set(N.mentions(arg))
                for _level in range(3):
                    for cand in list(cands):
                        for val in ldefs.get(cand, []):
                            if isinstance(val, (ast.ListComp, ast.Name,
                                                ast.Call)):
                                cands |= set(N.mentions(val))
                        # ... or collected element by element in a loop
                        for part in K.list_contributions(func, cand):
                            for _t, dom in part.get('domains', []):
                                cands |= set(N.mentions(dom))
            shorts = [N.negate(N.cmp_atom(
                ast.parse('len(%s)' % cand, mode='eval').body, '<',
                ast.Name(id=size))) for cand in sorted(cands)
                if cand.isidentifier()]
            ok = K.guarded_by(graph, node, lambda e, sh=shorts: any(
                a in nz.facts_of_edge(e) for a in sh))
            ctx.ob('C18.3', func, node, ok,
                   'only full batches are uploaded (len(batch) >= '
                   'batch_size)')


def _nothing_kept(ctx, app):
    """C18.2: what an archiving run selects is judged on what the store
    holds now: the archivers keep nothing between runs (a finished record is
    rewritten for every terminal event of its instance; an age remembered
    from an earlier run archives a record that was just rewritten)."""
    srv = ctx.index.module(SRV)
    for mod, names in ((app, ('cleanup_trace', 'cleanup_finished')),
                       (srv, ('cleanup_server_trace',))):
        for name in names:
            func = mod.functions.get(name)
            if func is None:
                continue
            kept = K.kept_between_calls(mod, func)
            ctx.ob('C18.2', func, kept[0] if kept else None, not kept,
                   '%s reads every node it judges in this run (nothing is '
                   'kept in module-level state between runs)' % name,
                   construct='%s keeps nothing between runs' % name)


def _reader_tables(ctx, mod, app):
    """C18.4: download_batch selects rows whose name starts with
    `<object>,` - the form of an event name in the trace tables; a finished
    record is stored under the bare instance name, so the finished snapshots
    are not read through it (every caller hands it one of the trace tables).
    """
    srv = ctx.index.module(SRV)
    dl = mod.functions.get('download_batch')
    ctx.require(dl is not None, '_zk.download_batch', rule='C18.4')
    comma = any(isinstance(sub, ast.Constant) and isinstance(sub.value, str)
                and "GLOB '{" in sub.value and "},*'" in sub.value
                for sub in K.walk_no_nested(dl.node))
    seen = 0
    for m in (app, srv):
        for func in m.all_functions() if hasattr(m, 'all_functions') \
                else m.live_functions():
            for call in K.calls(func.raw):
                if not K.callee_text(call).endswith('download_batch'):
                    continue
                seen += 1
                table = call.args[2] if len(call.args) > 2 else \
                    K.kwarg(call, 'table')
                ttxt = N.txt(table) if table is not None else ''
                ok = ttxt.endswith('_SOW_TABLE') or not comma
                ctx.ob('C18.4', func, call, ok,
                       'download_batch (event-name prefix query) is used on '
                       'a trace table (%s)' % ttxt,
                       construct='download_batch table')
    ctx.require(seen >= 2, 'callers of download_batch', rule='C18.4')


def _history_loader(ctx):
    """C18.5: the state API keeps every archived finished record
    retrievable: the loader of a finished snapshot stores every row it reads
    (a row skipped because the live copy still exists is lost once the
    archiver deletes that copy - the snapshot is created before the batch is
    deleted, so every row "is still live" when the snapshot first shows up).
    """
    mod = ctx.index.module('treadmill.api.state')
    func = mod.functions.get('watch_finished_history') if mod else None
    ctx.require(func is not None, 'api.state.watch_finished_history',
                rule='C18.5')
    hits = 0
    for cb in [func] + list(func.nested_view().values()):
        graph = ctx.cfg(cb)
        for loop in [n for n in graph.nodes if n.kind == 'for' and
                     '.execute(' in K.rtxt(cb, n.ast.iter)]:
            body = K.loop_body_nodes(loop)
            stores = [n for n in body if n.kind == 'stmt' and
                      isinstance(n.ast, ast.Assign) and
                      isinstance(n.ast.targets[0], ast.Subscript) and
                      'history' in N.txt(n.ast.targets[0].value)]
            hits += 1
            skip = K.find_path(loop, [loop], cut_node=lambda n: n in stores,
                               cut_edge=lambda e, lp=loop: e.src is lp and
                               e.kind == 'done', follow_exc=False) \
                if stores else []
            ctx.ob('C18.5', cb, loop, bool(stores) and skip is None,
                   'every row of a finished snapshot is loaded into the '
                   'history', path=K.describe(skip) if skip else None,
                   construct='snapshot rows all loaded')
            K.exhaustive_loop(ctx, 'C18.5', cb, loop,
                              'walk over the rows of a finished snapshot')
    ctx.require(hits >= 1, 'row loop of the finished-history loader',
                rule='C18.5')


def _oldest_first(ctx):
    """C18.3: the server-trace archiver takes the oldest events first: the
    batch is the head of a merge by timestamp, and a merge orders nothing by
    itself - each of its inputs is sorted (sorted in place after the last
    element was added, or sorted by construction: empty, sorted(..), the
    head of an earlier merge).  Otherwise younger events are archived while
    older ones stay live, and the reader, which takes snapshots before live
    nodes and drops what is older than the last event seen, loses them."""
    srv = ctx.index.module(SRV)
    func = srv.functions.get('cleanup_server_trace')
    ctx.require(func is not None, 'cleanup_server_trace', rule='C18.3')
    graph = ctx.cfg(func)
    merges = [(n, c) for n, c in K.nodes_calling(
        graph, lambda c: K.callee_text(c) == 'heapq.merge')]
    ctx.require(merges, 'the merge by timestamp of cleanup_server_trace',
                rule='C18.3', func=func)

    def by_construction(val):
        if isinstance(val, (ast.List, ast.Tuple)) and not val.elts:
            return True
        if isinstance(val, ast.Call) and K.callee_text(val) == 'sorted':
            return True
        return any(isinstance(c, ast.Call) and
                   K.callee_text(c) == 'heapq.merge'
                   for c in ast.walk(val))
    for mnode, call in merges:
        ctx.ob('C18.3', func, mnode, not call.keywords,
               'the merge compares whole entries (timestamp first)',
               construct='merge key')
        for arg in call.args:
            if not isinstance(arg, ast.Name):
                ctx.ob('C18.3', func, mnode, by_construction(arg),
                       'merge input %s is sorted by construction'
                       % N.txt(arg), construct='merge input sorted')
                continue
            name = arg.id
            defs = [n for n in graph.nodes if n.kind == 'stmt' and
                    isinstance(n.ast, ast.Assign) and
                    N.txt(n.ast.targets[0]) == name]
            grows = [n for n in graph.nodes if any(
                K.is_meth(c, 'append', 'extend', 'insert') and
                K.recv_text(c) == name for c in C.node_calls(n))]
            sorts = [n for n in graph.nodes if any(
                K.is_meth(c, 'sort') and K.recv_text(c) == name and
                not c.keywords for c in C.node_calls(n))]
            ok = all(by_construction(d.ast.value) for d in defs)
            leak = None
            for grow in grows:
                leak = leak or K.find_path(
                    grow, [mnode], cut_node=lambda n: n in sorts,
                    follow_exc=False)
            ctx.ob('C18.3', func, mnode, ok and leak is None,
                   'merge input %s is sorted when it is merged (sorted in '
                   'place after the last element was added, or sorted by '
                   'construction)' % name,
                   path=K.describe(leak) if leak else None,
                   construct='merge input %s sorted' % name)


def _keep_newest(ctx, mod):
    func = mod.functions.get('cleanup')
    ctx.require(func is not None, '_zk.cleanup')
    nz = N.Normaliser()
    graph = ctx.cfg(func)
    defs = {}
    for sub in K.walk_no_nested(func.node):
        if isinstance(sub, ast.Assign) and isinstance(sub.targets[0],
                                                      ast.Name):
            defs[sub.targets[0].id] = sub.value
    # the history listing: the local bound to sorted(<children of the
    # history node>), whatever it is called
    lname = None
    for cand, val in sorted(defs.items()):
        if isinstance(val, ast.Call) and 'get_children' in N.txt(val):
            lname = cand
    nodes_def = defs.get(lname or 'nodes')
    ok = isinstance(nodes_def, ast.Call) and \
        K.callee_text(nodes_def) == 'sorted' and \
        K.kwarg(nodes_def, 'reverse') is None and \
        K.kwarg(nodes_def, 'key') is None and \
        'get_children' in N.txt(nodes_def)
    ctx.ob('C18.4', func, nodes_def, ok,
           'history nodes are sorted ascending (oldest first)',
           construct='history order')
    loops = [n for n in graph.nodes if n.kind == 'for']
    ctx.require(loops, 'delete loop of _zk.cleanup', rule='C18.4')
    max_count = func.params()[2]
    for loop in loops:
        it = loop.ast.iter
        # the domain may be held in a local (stale = nodes[:n])
        if isinstance(it, ast.Name) and it.id in defs and \
                isinstance(defs[it.id], ast.Subscript):
            it = defs[it.id]
        okp = False
        upper = None
        if isinstance(it, ast.Subscript) and \
                N.txt(it.value) == (lname or 'nodes') \
                and isinstance(it.slice, ast.Slice) and \
                it.slice.step is None and (
                    it.slice.lower is None or
                    N.txt(it.slice.lower) == '0'):
            upper = it.slice.upper
            src = defs.get(N.txt(upper), upper) if upper is not None \
                else None
            lin = N.linear(src) if src is not None else {}
            okp = lin == {'len(%s)' % (lname or 'nodes'): 1,
                          max_count: -1}
        ctx.ob('C18.4', func, loop, okp,
               'the oldest len(nodes) - max_count nodes are deleted '
               '(prefix of the ascending order): %s' % N.txt(it),
               construct='history prune slice')
        facts = N.must_facts(graph, nz)
        pos = any(f.key[0] == 'cmp' and N.txt(upper or ast.Name(id='')) in
                  [t for t, _c in f.key[2]] and f.key[1] == '<' and
                  dict(f.key[2]).get(N.txt(upper), 0) < 0
                  for f in facts[loop]) if upper is not None else False
        ctx.ob('C18.4', func, loop, pos,
               'pruning happens only when there are more than max_count '
               'nodes', construct='history prune guard')


# the table name is a parameter of the statements, however it is put in
_TABLE = r'(?:\{\w*\}|%s|%\(\w+\)s)'


def _schema(ctx, mod, up, app):
    down = mod.functions.get('download_batch')
    ctx.require(down is not None, '_zk.download_batch')
    usrc = ast.unparse(up.node)
    m = re.search(r'INSERT INTO ' + _TABLE + r' \(\s*([^)]*?)\s*\) VALUES'
                  r'\(([^)]*)\)', usrc)
    ctx.require(m is not None, 'INSERT statement of upload_batch',
        rule='C18.5')
    cols = [c.strip().replace('\\n', '').strip()
            for c in m.group(1).replace('\\n', ' ').split(',')]
    cols = [c for c in cols if c]
    marks = m.group(2).count('?')
    ctx.ob('C18.5', up, None, cols == ['path', 'timestamp', 'data',
                                       'directory', 'name'] and
           marks == len(cols),
           'INSERT columns %s with %d placeholders' % (cols, marks),
           construct='snapshot INSERT columns')
    m2 = re.search(r'CREATE TABLE ' + _TABLE + r' \(\s*(.*?)\)\s', usrc.replace(
        '\\n', ' '))
    created = []
    if m2:
        created = [c.strip().split(' ')[0] for c in m2.group(1).split(',')
                   if c.strip()]
    ctx.ob('C18.5', up, None, created == cols,
           'CREATE TABLE columns %s = INSERT columns' % created,
           construct='snapshot table columns')
    dsrc = ast.unparse(down.node)
    sel = re.search(r'SELECT (\w+) FROM ' + _TABLE + r' WHERE (\w+) GLOB',
                    dsrc)
    ctx.ob('C18.5', down, None, sel is not None and
           sel.group(1) in cols and sel.group(2) in cols,
           'download selects column %s filtered on %s, both inserted' % (
               sel.group(1) if sel else None,
               sel.group(2) if sel else None),
           construct='download column')
    # delete loop destructuring
    for sub in K.walk_no_nested(up.node):
        if isinstance(sub, ast.For) and isinstance(sub.target, ast.Tuple):
            names = [N.txt(e) for e in sub.target.elts]
            deleted = [N.txt(c.args[-1]) for c in ast.walk(sub)
                       if isinstance(c, ast.Call) and
                       'ensure_deleted' in N.txt(c)]
            ctx.ob('C18.5', up, sub, len(names) == len(cols) and
                   deleted == [names[0]],
                   'the delete loop unpacks %d columns and deletes the '
                   'first (path): %s' % (len(names), deleted),
                   construct='delete loop unpacking')
    # callers' tuples
    srv = ctx.index.module(SRV)
    for func, rows in ((app.functions.get('cleanup_trace'), 'db_rows'),
                       (srv.functions.get('cleanup_server_trace'),
                        'db_rows'),
                       (app.functions.get('cleanup_finished'), None)):
        tup = _rows_tuple(func)
        ok = isinstance(tup, ast.Tuple) and len(tup.elts) == len(cols)
        if ok:
            first = K.rtxt(func, tup.elts[0])
            direc = K.rtxt(func, tup.elts[3])
            name = N.txt(tup.elts[4])
            # path = <directory>/<name>: built by the path helpers from the
            # name in the last column
            ok = ('join_zookeeper_path(' in first or 'z.path.' in first) \
                and name in first and tup.elts[1] is not None and \
                not isinstance(tup.elts[1], ast.Constant) and \
                isinstance(tup.elts[4], ast.Name) and \
                (direc.startswith('z.') or 'join_zookeeper_path(' in direc)
        ctx.ob('C18.5', func, tup, ok,
               'rows are (path, timestamp, data, directory, name): %s' % (
                   N.txt(tup) if tup is not None else None),
               construct='row layout in %s' % func.name)


def _callers_and_readers(ctx, app):
    """C18.2 / C18.5 on the two ends of the archive: the daemon hands each
    archiver its own expiry option, and the reader of the snapshots visits
    every snapshot."""
    index = ctx.index
    daemon = index.module('treadmill.sproc.trace', required=False)
    if daemon is not None:
        seen = 0
        for call in K.calls(daemon.tree):
            name = K.callee_text(call)
            for kind in ('trace', 'finished'):
                if name.endswith('cleanup_%s' % kind) and len(call.args) == 3:
                    seen += 1
                    args = [N.txt(a) for a in call.args[1:]]
                    other = 'finished' if kind == 'trace' else 'trace'
                    ok = all(a.startswith(kind + '_') for a in args) and \
                        args[1].endswith('expire_after') and \
                        not any(other in a for a in args)
                    ctx.ob('C18.2', 'treadmill.sproc.trace', call, ok,
                           'cleanup_%s is driven by the %s options (batch '
                           'size, expiry): %s' % (kind, kind, args),
                           construct='daemon arguments of cleanup_%s' % kind,
                           file=daemon.rel)
        ctx.require(seen == 2, 'cleanup_trace / cleanup_finished calls of '
                               'the trace daemon', rule='C18.5')
    loop_cls = app.classes.get('AppTraceLoop')
    ctx.require(loop_cls is not None, 'trace.app.zk.AppTraceLoop')
    reader = loop_cls.methods.get('_process_db_events')
    ctx.require(reader is not None, 'AppTraceLoop._process_db_events')
    graph = ctx.cfg(reader)
    loops = [n for n in graph.nodes if n.kind == 'for' and
             'TRACE_HISTORY' in K.rtxt(reader, n.ast.iter)]
    ctx.require(loops, 'loop over the trace snapshots', rule='C18.5')
    for loop in loops:
        early = [e for e in K.loop_exit_edges(loop)
                 if e.kind not in ('done', 'exc')]
        body = K.loop_body_nodes(loop)
        downloads = [n for n in body if any(
            K.callee_text(c).endswith('download_batch')
            for c in C.node_calls(n))]
        skip = K.find_path(loop, [loop], cut_node=lambda n: n in downloads,
                           cut_edge=lambda e, lp=loop: e.src is lp and
                           e.kind == 'done', follow_exc=False)
        ctx.ob('C18.5', reader, loop, not early and bool(downloads) and
               skip is None,
               'every snapshot is searched for the events of the instance '
               '(no early end of the walk: the events of a long-running '
               'instance are spread over snapshots that need not be '
               'adjacent)', construct='snapshot walk of the reader')


def _snapshots_first(ctx, app):
    """C18.5: the reader takes the archived events before the live ones: the
    shared filter drops what is older than the last event handed on, and the
    live watch delivers its first batch when it is registered - snapshots
    read afterwards would all be dropped as old."""
    srv = ctx.index.module(SRV)
    for mod, cname in ((app, 'AppTraceLoop'), (srv, 'ServerTraceLoop')):
        cls = mod.classes.get(cname)
        run = cls.methods.get('run') if cls else None
        if run is None:
            continue
        graph = ctx.cfg(run)
        db = [n for n, c in K.nodes_calling(
            graph, lambda c: K.is_meth(c, '_process_db_events'))]
        live = [n for n in graph.nodes if n.kind == 'stmt' and
                isinstance(n.ast, (ast.FunctionDef,
                                   ast.AsyncFunctionDef)) and
                any('ChildrenWatch' in N.txt(d)
                    for d in n.ast.decorator_list)]
        live += [n for n, c in K.nodes_calling(
            graph, lambda c: K.is_meth(c, 'ChildrenWatch'))]
        if not db and not live:
            continue
        ctx.require(db and live, 'snapshot read and live watch of %s.run'
                    % cname, rule='C18.5', func=run)
        # the snapshots are consulted whenever the object may have been
        # archived: the only reason to skip them is that the instance is
        # still scheduled (nothing of a scheduled instance is ever archived).
        # Any other condition - "its exit summary exists" - fails once that
        # record was archived as well.
        nzr = N.Normaliser()
        facts = N.must_facts(graph, nzr)
        for node in db:
            extra = []
            for fact in N.raw_only(facts[node]):
                txt = N.show(fact)
                resolved = K.rtxt(run, ast.parse(
                    fact.key[1], mode='eval').body) if fact.key[0] in (
                        'truth',) else txt
                if fact.key[0] == 'truth' and not fact.key[2] and \
                        '.exists(' in resolved and \
                        'path.scheduled(' in resolved:
                    continue
                extra.append(txt)
            ctx.ob('C18.5', run, node, not extra,
                   '%s.run skips the snapshots only while the instance is '
                   'scheduled%s' % (cname, '' if not extra else
                                    ' - also required: %s' % extra),
                   construct='%s snapshots consulted unless scheduled' %
                   cname)
        late = [d for d in db if any(
            d in C.reach_after(w, edge_ok=C.no_exc) for w in live)]
        # a snapshot that could not be read is not skipped silently: a
        # failure of the download escapes the snapshot reader (the loop is
        # re-run by its caller; a reader that logs and carries on reports a
        # complete trace with the rest of the history missing)
        rd = cls.methods.get('_process_db_events')
        if rd is not None:
            rgraph = ctx.cfg(rd)
            handled = []
            for rnode, _c in K.nodes_calling(
                    rgraph, lambda c: K.callee_text(c).endswith(
                        'download_batch') or K.is_meth(c, 'get_children')):
                for edge in rnode.succ:
                    if edge.kind != 'exc':
                        continue
                    reach = K.cut_reach(rgraph, edge.dst, follow_exc=True)
                    if any(n.kind == 'handler' for n in reach | {edge.dst}):
                        handled.append(rnode)
            ctx.ob('C18.5', rd, handled[0] if handled else None, not handled,
                   '%s: a snapshot that cannot be read fails the read of the '
                   'history (no handler around the downloads)' % cname,
                   construct='%s snapshot read failure escapes' % cname)
        ctx.ob('C18.5', run, late[0] if late else db[0], not late,
               '%s.run reads the snapshots before it registers the live '
               'watch' % cname, construct='%s snapshots before live' % cname)


def _reader_filter(ctx, mod):
    """C18.5: what the reader hands on is every event of its own object (of
    a batch, live or downloaded from a snapshot): the walk over the batch is
    never cut short, an event is dropped only when it belongs to another
    object or was seen already, and the download returns the selected
    column of every row."""
    tl = mod.classes.get('TraceLoop')
    ctx.require(tl is not None, 'trace._zk.TraceLoop')
    pe = tl.methods.get('_process_events')
    ctx.require(pe is not None, 'TraceLoop._process_events')
    graph = ctx.cfg(pe)
    nz = N.Normaliser(env=K.func_env(pe))
    loops = [n for n in graph.nodes if n.kind == 'for']
    ctx.require(loops, 'event loop of _process_events', rule='C18.5')
    loop = loops[0]
    K.exhaustive_loop(ctx, 'C18.5', pe, loop, 'walk over a batch of events')
    hands = [n for n, c in K.nodes_calling(
        graph, lambda c: K.is_meth(c, '_process_event'))]
    ctx.require(hands, 'hand-over to _process_event', rule='C18.5')

    def dropped(edge):
        """outcomes on which an event is legitimately not handed on"""
        for a in nz.facts_of_edge(edge):
            key = a.key
            if key[0] == 'cmp' and key[1] == '!=' and \
                    'self._object_name' in [t for t, _c in key[2]]:
                return True         # another object's event
            if key[0] == 'truth' and key[2] and key[1] == 'self._last_event':
                return True         # judged by the following comparison
        return False
    own = all(K.guarded_by(graph, h, lambda e: any(
        a.key[0] == 'cmp' and a.key[1] == '==' and
        'self._object_name' in [t for t, _c in a.key[2]]
        for a in nz.facts_of_edge(e)), start=loop) for h in hands)
    skip = K.find_path(loop, [loop], cut_node=lambda n: n in hands,
                       cut_edge=lambda e: dropped(e) or (
                           e.src is loop and e.kind == 'done'),
                       follow_exc=False)
    ctx.ob('C18.5', pe, hands[0], own and skip is None,
           'an event is handed on exactly when it belongs to the object '
           'read (and is not a repeat of the last one)',
           path=K.describe(skip) if skip else None,
           construct='reader filter')
    down = mod.functions.get('download_batch')
    dgraph = ctx.cfg(down)
    parts = [p for name in set(
        N.txt(r.ast.value) for r in dgraph.nodes
        if r.kind == 'return' and isinstance(r.ast.value, ast.Name))
        for p in K.list_contributions(down, name)]
    okd = len(parts) == 1 and 'other' not in parts[0] and \
        not parts[0]['conditional'] and parts[0]['elt'] is not None and \
        len(parts[0]['domains']) == 1 and \
        'execute(' in K.rtxt(down, parts[0]['domains'][0][1]) and \
        (N.txt(parts[0]['elt']) == '%s[0]' % N.txt(
            parts[0]['domains'][0][0]) or (
                # the row destructured in the loop header: (col,)
                isinstance(parts[0]['domains'][0][0], ast.Tuple) and
                len(parts[0]['domains'][0][0].elts) >= 1 and
                N.txt(parts[0]['elt']) == N.txt(
                    parts[0]['domains'][0][0].elts[0])))
    ctx.ob('C18.5', down, None, okd,
           'download_batch returns the selected column of every row of the '
           'query', construct='download result')


def check(ctx):
    mod, up = _upload(ctx)
    app = _selection(ctx)
    _full_batches(ctx, app)
    _oldest_first(ctx)
    _nothing_kept(ctx, app)
    _reader_tables(ctx, mod, app)
    _history_loader(ctx)
    _keep_newest(ctx, mod)
    _schema(ctx, mod, up, app)
    _callers_and_readers(ctx, app)
    _snapshots_first(ctx, app)
    _reader_filter(ctx, mod)


_Z = 'lib/python/treadmill/trace/_zk.py'
_AZ = 'lib/python/treadmill/trace/app/zk.py'
_SZ = 'lib/python/treadmill/trace/server/zk.py'

MUTANTS = [
    ('delete-before-upload', [(_Z, """    with io.open(f.name, 'rb') as f:
        db_node = zkutils.create(""", """    for path, _timestamp, _data, _directory, _name in batch:
        zkutils.with_retry(zkutils.ensure_deleted, zkclient, path)

    with io.open(f.name, 'rb') as f:
        db_node = zkutils.create("""), (_Z, """    os.unlink(f.name)

    # Delete uploaded nodes from zk.
    for path, _timestamp, _data, _directory, _name in batch:
        zkutils.with_retry(zkutils.ensure_deleted, zkclient, path)
""", """    os.unlink(f.name)
""")], 'C18.1'),
    ('upload-failure-swallowed', [(_Z, """    with io.open(f.name, 'rb') as f:
        db_node = zkutils.create(
            zkclient, db_node_path, zlib.compress(f.read()),
            sequence=True
        )
        _LOGGER.info(
            'Uploaded compressed snapshot DB: %s to: %s',
            f.name, db_node
        )
""", """    with io.open(f.name, 'rb') as f:
        try:
            db_node = zkutils.create(
                zkclient, db_node_path, zlib.compress(f.read()),
                sequence=True
            )
        except Exception:  # pylint: disable=broad-except
            _LOGGER.exception('upload failed')
""")], 'C18.1'),
    ('insert-only-half', [(_Z, """            \"\"\".format(table=table), batch
        )""", """            \"\"\".format(table=table), batch[::2]
        )""")], 'C18.1'),
    ('trace-expiry-dropped', [(_AZ, """            if ((instanceid not in scheduled and
                 timestamp < time.time() - expires_after)):
""", """            if instanceid not in scheduled:
""")], 'C18.2'),
    ('trace-scheduled-archived', [(_AZ, """            if ((instanceid not in scheduled and
                 timestamp < time.time() - expires_after)):
""", """            if timestamp < time.time() - expires_after:
""")], 'C18.2'),
    ('trace-expiry-reversed', [(_AZ, """                 timestamp < time.time() - expires_after)):
""", """                 timestamp > time.time() - expires_after)):
""")], 'C18.2'),
    ('finished-expiry-from-zero', [(_AZ, """        if metadata.last_modified < time.time() - expires_after:
""", """        if metadata.last_modified < time.time():
""")], 'C18.2'),
    ('short-batch-uploaded', [(_AZ, """        batch = traces[idx:idx + batch_size]
        if len(batch) < batch_size:
            _LOGGER.info('Traces: batch = %s, total = %s, exiting.',
                         batch_size, len(batch))
            break
""", """        batch = traces[idx:idx + batch_size]
        if not batch:
            break
""")], 'C18.3'),
    ('server-short-batch-uploaded', [(_SZ, """        if len(batch) < batch_size:
            _LOGGER.info('Traces: batch = %s, total = %s, exiting.',
                         batch_size, len(batch))
            break
""", """        if not batch:
            break
""")], 'C18.3'),
    ('history-keeps-oldest', [(_Z, """        for node in nodes[0:extra]:
""", """        for node in nodes[-extra:]:
""")], 'C18.4'),
    ('history-sorted-descending', [(_Z, """    nodes = sorted(zkclient.get_children(path))
""", """    nodes = sorted(zkclient.get_children(path), reverse=True)
""")], 'C18.4'),
    ('history-off-by-one', [(_Z, """    extra = len(nodes) - max_count
""", """    extra = len(nodes) - max_count + 1
""")], 'C18.4'),
    ('download-other-column', [(_Z, """        SELECT name FROM {table} WHERE name GLOB '{name},*'
""", """        SELECT event FROM {table} WHERE name GLOB '{name},*'
""")], 'C18.5'),
    ('trace-rows-swapped', [(_AZ, """            (z.join_zookeeper_path(z.TRACE, shard, event), timestamp, None,
             z.join_zookeeper_path(z.TRACE, shard), event)
""", """            (event, timestamp, None,
             z.join_zookeeper_path(z.TRACE, shard),
             z.join_zookeeper_path(z.TRACE, shard, event))
""")], 'C18.5'),
]

REFACTORS = [
    ('trace-expiry-precomputed-swapped', [(_AZ, """                 timestamp < time.time() - expires_after)):
""", """                 timestamp + expires_after < time.time())):
""")], ),
    ('history-slice-without-zero', [(_Z, """        for node in nodes[0:extra]:
""", """        for node in nodes[:extra]:
""")], ),
    ('short-batch-ge', [(_AZ, """        batch = traces[idx:idx + batch_size]
        if len(batch) < batch_size:
            _LOGGER.info('Traces: batch = %s, total = %s, exiting.',
                         batch_size, len(batch))
            break
""", """        batch = traces[idx:idx + batch_size]
        if batch_size > len(batch):
            _LOGGER.info('Traces: batch = %s, total = %s, exiting.',
                         batch_size, len(batch))
            break
""")], ),
]
REFACTORS = [(r[0], r[1]) for r in REFACTORS]
