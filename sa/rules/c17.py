"""C17 - presence registration never touches nodes owned by another
session."""

import ast

from .. import cfg as C
from .. import norm as N
from . import common as K
from . import master_model as M

SVC = 'treadmill.services.presence_service'
PRES = 'treadmill.presence'
TRZK = 'treadmill.trace.app.zk'

EXPLANATION = """
C17.1 every create of a running / endpoint / identity node passes
ephemeral=True (presence service and presence.py alike).  C17.2 in
_safe_create the update of an existing node is reachable only when the
node's owner session equals the client's (session id taken from
zkclient.client_id); the other-owner branch installs a watch or retries and
returns false without any write; in _safe_delete the delete is dominated by
owner-session equality.  C17.3 OWNER: inside the service class ZooKeeper
writes happen only in those two helpers.  C17.4 per-container deletion:
on_delete_request deletes exactly the paths whose recorded resource id
equals the request's; on_create_request records the request id (a plain
assignment) for every path it created, after the create succeeded.  C17.5
EndpointPresence.unregister_* delete only under *equality* of the recorded
host with this host; trace.app.zk._unschedule deletes /scheduled only if this
host's placement node exists.
Added by the seeding rounds - C17.1 an existing node is never adopted in the
NodeExists handler; C17.2 the node is updated only after the owner-session
check; C17.4 the owner table is written by plain assignment and exactly the
recorded paths of the request are deleted; C17.5 equality (not prefix) with
this host, and /scheduled is deleted only while this host's placement node
exists; thorough: writers of running / endpoint / identity nodes are the owner
modules. Fourth round: C17.5 running / endpoint / identity nodes are deleted
in presence.py only by the owner-checked unregister routines.
Sweep: C17.2 _safe_create claims success only for a node it created or one its own session owns (also when the answer travels through a local), answers plain True / False, and the wait callback retries only when the other node is gone.
Fifth round: C17.1 the zkutils routines the service writes through create a node only with the ephemeral flag of their caller (zkutils.update creates nothing); C17.5 the host comparison is recognised on any local bound to a ZooKeeper read.
Sixth round: C17.1 the nodes of a container are registered through _create_ephemeral_with_retry only; C17.2 zkutils.create lets NodeExistsError escape.
Seventh round: C17.2 the node _safe_delete removes is the one whose owner it read - nothing else is deleted on its way; C17.5 /scheduled/<instance> is deleted only by _unschedule, under its own conditions.
Does NOT decide interleavings of two sessions with expiry (schedules).
"""

ASSUMPTIONS = [
    'an ephemeral node disappears with its session; owner_session_id of '
    'the node metadata identifies the creating session',
]

MIN_OBLIGATIONS = 18
MIN_PER_RULE = {'C17.1': 2, 'C17.2': 5, 'C17.3': 1, 'C17.4': 5, 'C17.5': 4}

_WRITES = ('zkutils.create', 'zkutils.update', 'zkutils.put',
           'zkutils.ensure_deleted', 'zkutils.ensure_exists')
_CLIENT_WRITES = ('create', 'set', 'delete', 'ensure_path')


def _is_zk_write(call):
    name = K.callee_text(call)
    if name in _WRITES:
        return True
    if isinstance(call.func, ast.Attribute) and \
            call.func.attr in _CLIENT_WRITES and \
            (K.recv_text(call) or '').endswith('zkclient'):
        return True
    return False


_NAMES = {}


def _session_names(func):
    """(metadata locals, own-session locals) of func: the second component
    of get_with_metadata(...) and the first of zkclient.client_id."""
    key = id(func.node)
    if key not in _NAMES:
        metas, sids = set(), set()
        for sub in K.walk_no_nested(func.node):
            if isinstance(sub, ast.Assign) and \
                    isinstance(sub.targets[0], ast.Tuple) and \
                    len(sub.targets[0].elts) == 2:
                first, second = sub.targets[0].elts
                if isinstance(sub.value, ast.Call) and \
                        K.callee_text(sub.value).endswith(
                            'get_with_metadata'):
                    metas.add(N.txt(second))
                if N.txt(sub.value).endswith('zkclient.client_id'):
                    sids.add(N.txt(first))
                    # ... and what copy propagation makes of that local
                    sids.add('%s[0]' % N.txt(sub.value))
            # the projection written out (or read through an accessor)
            if isinstance(sub, ast.Subscript) and \
                    N.txt(sub.value).endswith('zkclient.client_id') and \
                    isinstance(sub.slice, ast.Constant) and \
                    sub.slice.value == 0:
                sids.add(N.txt(sub))
        _NAMES[key] = (metas, sids)
    return _NAMES[key]


def _session_eq(atom, positive=True, func=None):
    key = atom.key
    if key[0] != 'cmp':
        return False
    terms = sorted(t for t, _c in key[2])
    metas, sids = _session_names(func) if func is not None else (
        {'metadata'}, {'session_id'})
    if len(terms) != 2 or not any(
            sorted(['%s.owner_session_id' % m, sid]) == terms
            for m in metas for sid in sids):
        return False
    return key[1] == ('==' if positive else '!=')


def _create_side(ctx, svc, create, host):
    """Obligations on a routine that creates presence nodes through
    _safe_create: on_create_request itself or a helper it calls with the
    request id.  Returns the number of creation sites it accounts for."""
    sites = 0
    if host is create:
        rid = create.params()[1]
    else:
        # the helper's request-id parameter: the one handed to _safe_create
        first = [c for c in K.calls(host.node)
                 if K.is_meth(c, '_safe_create') and c.args]
        rid = N.txt(first[0].args[0]) if first else None
        callers = [c for c in K.calls(create.node)
                   if K.is_meth(c, host.name)]
        ctx.require(rid in host.params() and callers,
                    'request id parameter of %s' % host.qualname, rule='C17.4')
        for call in callers:
            passed = K.call_passes_as(call, host, create.params()[1])
            ctx.ob('C17.4', create, call, passed == rid,
                   'the request id is handed to %s (for the retry)' %
                   host.name, construct='%s request id' % N.txt(call)[:50])
            sites += 1
    cgraph = ctx.cfg(host)
    creates = [n for n in cgraph.nodes if n.kind == 'test' and any(
        K.is_meth(c, '_safe_create') for c in K.test_calls(host, n))]
    ctx.require(creates, '_safe_create tests in %s' % host.qualname,
        rule='C17.4')
    if host is create:
        sites += len(creates)
    for test in creates:
        call = [c for c in K.calls(test.ast)
                if K.is_meth(c, '_safe_create')][0]
        pvar = N.txt(call.args[1])

        def records(node, pvar=pvar):
            stmt = node.ast
            return node.kind == 'stmt' and isinstance(stmt, ast.Assign) \
                and isinstance(stmt.targets[0], ast.Subscript) and \
                N.txt(stmt.targets[0].slice) == pvar and \
                N.txt(stmt.targets[0].value).startswith('self.presence[') \
                and N.txt(stmt.value) == rid
        # success = the edge on which `_safe_create(...)` is truthy
        succ = [e for e in test.succ if e.kind == 'true']
        others = [c for c in creates if c is not test]
        path = None
        for edge in succ:
            if records(edge.dst):
                continue
            path = K.find_path(
                test, others + [cgraph.exit], cut_node=records,
                cut_edge=lambda e, t=test: e.src is t and e.kind != 'true',
                follow_exc=False)
        ctx.ob('C17.4', host, test, path is None,
               'after a successful create the path is recorded for this '
               'request id (plain assignment) before the next create',
               path=K.describe(path) if path else None)
        ctx.ob('C17.4', host, test, N.txt(call.args[0]) == rid,
               'the request id is handed to _safe_create (for the retry)',
               construct='%s request id' % test.text(50))
    # records only after success
    recs = [n for n in cgraph.nodes if n.kind == 'stmt' and
            isinstance(n.ast, ast.Assign) and isinstance(
                n.ast.targets[0], ast.Subscript) and
            N.txt(n.ast.targets[0].value).startswith('self.presence[')]
    other_writes = [n for n in cgraph.nodes for c in C.node_calls(n)
                    if K.is_meth(c, 'setdefault', 'update') and
                    'self.presence' in (K.recv_text(c) or '')]
    ctx.ob('C17.4', host, other_writes[0] if other_writes else None,
           not other_writes,
           'the owner table is written by plain assignment only (a '
           'setdefault would keep the previous container as owner)',
           construct='owner table writes')
    for node in recs:
        ok = K.guarded_by(cgraph, node, lambda e: e.src in creates and
                          e.kind == 'true')
        ctx.ob('C17.4', host, node, ok,
               'a path is recorded only after its create succeeded')
    return sites


_PRESENCE_WRITERS = {
    SVC: 'presence service (owner-session checks of C17.2)',
    PRES: 'presence library (ephemeral create, host-equality deletes of '
          'C17.5)',
    'treadmill.cli.admin.master': 'operator tool',
    'treadmill.sproc.nodeinfo': 'own service endpoint',
    'treadmill.sproc.tickets': 'own service endpoint',
    'treadmill.sproc.keytabs': 'own service endpoint',
}


def _writers_package(ctx):
    """Thorough tier, whole package: presence nodes (running, endpoint,
    identity) are written or deleted only by the listed
    modules; any other writer bypasses the ownership rules of C17."""
    # container presence nodes of the property's state: running, endpoint,
    # identity (server presence belongs to the node, not to a container)
    hits = K.zk_path_writers(ctx.index, ('running', 'endpoint',
                                         'identity_group'))
    inside = 0
    for func, call, kind in hits:
        if kind == 'identity_group' and func.module.name in (
                'treadmill.scheduler.masterapi',):
            continue      # the group definition node, not a member node
        ok = func.module.name in _PRESENCE_WRITERS
        inside += ok
        ctx.ob('C17.3', func, call, ok,
               'presence node (%s) written by a known writer: %s' % (
                   kind, _PRESENCE_WRITERS.get(func.module.name))
               if ok else
               'presence node (%s) written from %s, outside the modules '
               'whose ownership checks C17 verifies' % (kind,
                                                        func.module.name),
               construct='presence writer %s' % func.module.name)
    ctx.require(inside >= 5, 'presence writes inside the known writers '
                             '(found %d)' % inside, rule='C17.3')


def _zk_read_local(func, text):
    """text is an expression rooted at a local of func that holds what was
    read from ZooKeeper (bound, alone or as the first element of a tuple
    target, to zkutils.get / get_with_metadata / get_default / zkclient.get),
    whatever the local is called."""
    try:
        expr = ast.parse(text, mode='eval').body
    except SyntaxError:
        return False
    while True:
        if isinstance(expr, (ast.Subscript, ast.Attribute)):
            expr = expr.value
        elif isinstance(expr, ast.Call) and K.is_meth(
                expr, 'get', 'decode', 'split', 'partition', 'strip'):
            expr = K.recv(expr)     # data.get('host'), data.decode()...
        else:
            break
    if not isinstance(expr, ast.Name):
        return False
    found = False
    for sub in K.walk_no_nested(func.node):
        if not isinstance(sub, ast.Assign) or len(sub.targets) != 1:
            continue
        tgt = sub.targets[0]
        hit = (isinstance(tgt, ast.Name) and tgt.id == expr.id) or (
            isinstance(tgt, ast.Tuple) and tgt.elts and
            isinstance(tgt.elts[0], ast.Name) and
            tgt.elts[0].id == expr.id)
        if not hit:
            continue
        val = sub.value
        if isinstance(val, ast.Call) and K.callee_text(val).split('.')[-1] \
                in ('get', 'get_with_metadata', 'get_default') and (
                    'zk' in K.callee_text(val)):
            found = True
        else:
            return False
    return found



def _watcher(svc):
    """The method of the service that sets the wait: a DataWatch on the node
    another session owns - by role, whatever it is called."""
    func = svc.methods.get('_watch')
    if func is not None:
        return func
    for cand in svc.methods.values():
        if any(isinstance(n, ast.Attribute) and n.attr == 'DataWatch'
               for n in ast.walk(cand.raw)):
            return cand
    return None


def check(ctx):
    index = ctx.index
    if ctx.tier in ('quick', 'thorough'):   # whole-package clause, cheap enough for every run
        _writers_package(ctx)
    nz = N.Normaliser()
    svc = index.module(SVC).classes.get('PresenceResourceService')
    ctx.require(svc is not None, 'PresenceResourceService')
    sc = svc.methods.get('_safe_create')
    sd = svc.methods.get('_safe_delete')
    ctx.require(sc is not None and sd is not None,
                '_safe_create / _safe_delete', rule='C17.1')
    # ---- C17.1 ---------------------------------------------------------
    pres = index.module(PRES)
    n = 0
    for func in [sc] + pres.live_functions():
        for sub in K.walk_no_nested(func.node):
            if isinstance(sub, ast.Call) and \
                    K.callee_text(sub) == 'zkutils.create':
                n += 1
                eph = K.kwarg(sub, 'ephemeral')
                ctx.ob('C17.1', func, sub,
                       isinstance(eph, ast.Constant) and eph.value is True,
                       'presence nodes are created ephemeral=True')
    ctx.require(n >= 2, 'zkutils.create calls for presence nodes',
        rule='C17.1')
    # zkutils.create reports a node that exists: the service takes that
    # error as the one occasion to look at the owner of the node (a create
    # that answers "done" for a node with the same content hides a node of
    # another session)
    zc = index.module('treadmill.zkutils').functions.get('create')
    ctx.require(zc is not None, 'zkutils.create', rule='C17.2')
    swallow = [h for h in K.walk_no_nested(zc.raw)
               if isinstance(h, ast.ExceptHandler) and (
                   h.type is None or 'NodeExists' in N.txt(h.type) or
                   N.txt(h.type).endswith('Exception') or
                   'KazooException' in N.txt(h.type))]
    ctx.ob('C17.2', zc, swallow[0] if swallow else None, not swallow,
           'zkutils.create lets NodeExistsError escape to its caller',
           construct='create reports an existing node')
    # the nodes of a container are registered through the routine that waits
    # for a previous owner (_create_ephemeral_with_retry), never by a write
    # that takes over whatever is there
    ep_cls = pres.classes.get('EndpointPresence')
    if ep_cls is not None:
        for func in ep_cls.live_methods():
            if not func.name.startswith('register'):
                continue
            for call in K.calls(func.node):
                text = K.callee_text(call)
                takes_over = text in (
                    'zkutils.put', 'zkutils.update', 'zkutils.ensure_exists',
                    'zkutils.create') or (
                        K.is_meth(call, 'set', 'create', 'ensure_path') and
                        (K.recv_text(call) or '').endswith('zkclient'))
                if takes_over:
                    ctx.fail('C17.1', func, call,
                             '%s writes a presence node through %s: a node '
                             'another live session owns is overwritten '
                             'instead of waited for' % (func.name, text),
                             construct='register through the waiting create')
            creates = [c for c in K.calls(func.node)
                       if K.callee_text(c) == '_create_ephemeral_with_retry']
            if creates:
                ctx.ok('C17.1', func, creates[0],
                       '%s registers through _create_ephemeral_with_retry'
                       % func.name,
                       construct='register through the waiting create')
    # the zkutils routines the service writes through create a node only
    # where the caller's ephemeral flag reaches the client (zkutils.create);
    # a refresh of an existing node (zkutils.update) creates nothing - a node
    # re-created there would be persistent and owned by no session
    zmod = index.module('treadmill.zkutils')
    used = set()
    for func in [sc, sd] + pres.live_functions():
        for call in K.calls(func.node):
            text = K.callee_text(call)
            if text.startswith('zkutils.'):
                used.add(text.split('.', 1)[1])
    ctx.require('update' in used and 'create' in used,
                'zkutils.create / zkutils.update used by the presence '
                'service', rule='C17.1')
    for name in sorted(used):
        zfunc = zmod.functions.get(name)
        if zfunc is None:
            continue
        for call in K.calls(zfunc.node):
            if not (K.is_meth(call, 'create') and
                    (K.recv_text(call) or '') == zfunc.params()[0]):
                continue
            eph = K.kwarg(call, 'ephemeral')
            ok = isinstance(eph, ast.Name) and eph.id in zfunc.params()
            ctx.ob('C17.1', zfunc, call, ok,
                   'zkutils.%s creates a node only with the ephemeral flag '
                   'of its caller' % name if ok else
                   'zkutils.%s creates a node that is not ephemeral whatever '
                   'the caller asked for: a presence node written through it '
                   'outlives its session and is owned by nobody' % name,
                   construct='zkutils.%s create passes ephemeral' % name)
    # registering never adopts a node that exists: after NodeExistsError the
    # only way to report success is a later create of our own
    for func in pres.live_functions():
        if not any(isinstance(c, ast.Call) and
                   K.callee_text(c) == 'zkutils.create'
                   for c in K.walk_no_nested(func.node)):
            continue
        graph = ctx.cfg(func)
        handlers = [nd for nd in graph.nodes if nd.kind == 'handler' and
                    nd.ast is not None and nd.ast.type is not None and
                    'NodeExists' in N.txt(nd.ast.type)]
        creates = [nd for nd, _c in K.nodes_calling(
            graph, lambda c: K.callee_text(c) == 'zkutils.create')]
        for hdl in handlers:
            goals = [nd for nd in graph.nodes if nd.kind == 'return' and
                     nd.ast.value is not None and nd not in creates]
            path = K.find_path(hdl, goals + [graph.exit],
                               cut_node=lambda nd: nd in creates,
                               follow_exc=False) if True else None
            ctx.ob('C17.1', func, hdl, path is None,
                   'when the node already exists the registration waits '
                   'and creates its own node; it never returns success on '
                   "someone else's node",
                   path=K.describe(path) if path else None,
                   construct='existing node is not adopted in %s' %
                   func.name)
    # ---- C17.2 ---------------------------------------------------------
    graph = ctx.cfg(sc)
    updates = [n for n, c in K.nodes_calling(
        graph, lambda c: _is_zk_write(c) and
        K.callee_text(c) != 'zkutils.create')]
    for node in updates:
        ok = K.guarded_by(graph, node, lambda e: any(
            _session_eq(a, True, sc) for a in nz.facts_of_edge(e)))
        ctx.ob('C17.2', sc, node, ok,
               'an existing node is modified only when its owner session '
               "is the client's")
    tests = [n for n in graph.nodes if n.kind == 'test' and
             'owner_session_id' in K.test_text(sc, n)]
    ctx.require(tests, 'owner-session test in _safe_create', rule='C17.2')
    for test in tests:
        for edge in test.succ:
            if not any(_session_eq(a, False, sc)
                       for a in nz.facts_of_edge(edge)):
                continue
            region = K.cut_reach(graph, edge.dst, follow_exc=False)
            writes = [n for n in region for c in C.node_calls(n)
                      if _is_zk_write(c)]
            ctx.ob('C17.2', sc, test, not writes,
                   'the other-owner branch performs no ZooKeeper write',
                   construct='other-owner branch: no write')

            def waits(node):
                wname = _watcher(svc).name if _watcher(svc) else '_watch'
                if node.ast is not None and isinstance(
                        node.ast, ast.FunctionDef) and any(
                            'DataWatch' in N.txt(d)
                            for d in node.ast.decorator_list):
                    return True     # the watcher spliced in by the view
                return any(K.is_meth(c, wname, 'retry_request')
                           for c in C.node_calls(node))
            path = None
            if not waits(edge.dst):
                path = K.find_path(edge.dst, [graph.exit],
                                   cut_node=waits, follow_exc=False)
            ctx.ob('C17.2', sc, test, path is None,
                   'it waits for the node to go away (watch / retry)',
                   path=K.describe(path) if path else None,
                   construct='other-owner branch: waits')
            rets = [n for n in region if n.kind == 'return']
            ok = bool(rets) and all(
                isinstance(r.ast.value, ast.Constant) and
                r.ast.value.value is False for r in rets
                if K.guarded_by(graph, r, lambda e, ed=edge: e is ed))
            ctx.ob('C17.2', sc, test, ok,
                   'and reports failure (returns False)',
                   construct='other-owner branch: returns False')
    # success is claimed only for a node that is ours: every truthy return of
    # _safe_create follows the create itself or the owner-session equality
    creates = [n for n, c in K.nodes_calling(
        graph, lambda c: K.callee_text(c).endswith('zkutils.create') or
        K.is_meth(c, 'create'))]
    # the answer may travel through a local that only ever holds True /
    # False (a helper spliced into the routine): the assignment of True is
    # then the point where success is claimed
    assigned = {}
    for node in graph.nodes:
        if node.kind == 'stmt' and isinstance(node.ast, ast.Assign) and \
                len(node.ast.targets) == 1 and \
                isinstance(node.ast.targets[0], ast.Name):
            assigned.setdefault(node.ast.targets[0].id, []).append(node)
    carriers = set(
        name for name, nodes in assigned.items()
        if all(isinstance(n.ast.value, ast.Constant) and
               n.ast.value.value in (True, False) for n in nodes) and
        any(r.kind == 'return' and isinstance(r.ast.value, ast.Name) and
            r.ast.value.id == name for r in graph.nodes))
    claims = [n for n in graph.nodes if n.kind == 'return' and
              isinstance(n.ast.value, ast.Constant) and
              n.ast.value.value is True]
    for name in sorted(carriers):
        claims.extend(n for n in assigned[name]
                      if n.ast.value.value is True)
    for ret in claims:
        ok = K.guarded_by(graph, ret, lambda e: (
            e.src in creates and e.kind != 'exc') or any(
                _session_eq(a, True, sc) for a in nz.facts_of_edge(e)))
        ctx.ob('C17.2', sc, ret, ok,
               '_safe_create reports success only for a node it created or '
               'one its own session owns', construct='success only if ours')
    others = [n for n in graph.nodes if n.kind == 'return' and not (
        isinstance(n.ast.value, ast.Constant) and
        n.ast.value.value in (True, False)) and not (
            isinstance(n.ast.value, ast.Name) and
            n.ast.value.id in carriers)]
    ctx.ob('C17.2', sc, others[0] if others else None, not others,
           '_safe_create answers with a plain True / False',
           construct='plain result')
    # the wait: the watch set on the other owner's node retries the request
    # exactly when that node is gone, and stops watching then
    wt = _watcher(svc)
    if wt is not None:
        for name, cb in sorted(wt.nested_view().items()):
            cgraph = ctx.cfg(cb)
            cnz = N.Normaliser()
            params = cb.params()
            if len(params) < 3:
                continue
            data_p, event_p = params[0], params[2]
            retries = [n for n, c in K.nodes_calling(
                cgraph, lambda c: K.is_meth(c, 'retry_request'))]

            def gone(edge, data_p=data_p):
                for a in cnz.facts_of_edge(edge):
                    if a.key[0] == 'is' and a.key[3] and \
                            a.key[1] == data_p and a.key[2] == 'None':
                        return True
                    if a.key[0] == 'cmp' and a.key[1] == '==' and \
                            "'DELETED'" in [t for t, _c in a.key[2]]:
                        return True
                return False
            okw = bool(retries) and all(
                K.guarded_by(cgraph, r, gone) for r in retries)
            rets = [n for n in cgraph.nodes if n.kind == 'return']
            okret = bool(rets) and all(
                isinstance(r.ast.value, ast.Constant) and (
                    r.ast.value.value is False) == any(
                        r in K.cut_reach(cgraph, x, follow_exc=False)
                        for x in retries) for r in rets)
            ctx.ob('C17.2', cb, retries[0] if retries else None,
                   okw and okret,
                   'the wait retries the request only when the other '
                   "owner's node is gone (no data / DELETED) and stops "
                   'watching exactly then',
                   construct='wait callback')
    for func in (sc, sd):
        sid = [s for s in K.walk_no_nested(func.node)
               if isinstance(s, ast.Assign) and
               N.txt(s.value) == 'self.zkclient.client_id' and
               isinstance(s.targets[0], ast.Tuple) and
               len(s.targets[0].elts) == 2]
        if not sid:
            # the first component read directly (an accessor folded in)
            sid = [s for s in K.walk_no_nested(func.node)
                   if isinstance(s, ast.Subscript) and
                   N.txt(s.value) == 'self.zkclient.client_id' and
                   isinstance(s.slice, ast.Constant) and s.slice.value == 0]
            sid = sid[:1] if len(set(N.txt(s) for s in sid)) == 1 else sid
        ctx.ob('C17.2', func, sid[0] if sid else None, len(sid) == 1,
               "session_id is the client's own session "
               '(zkclient.client_id)',
               construct='session id source in %s' % func.name)
    dgraph = ctx.cfg(sd)
    dels = [n for n, c in K.nodes_calling(dgraph, _is_zk_write)]
    ctx.require(dels, 'delete in _safe_delete', rule='C17.2')
    for node in dels:
        ok = K.guarded_by(dgraph, node, lambda e: any(
            _session_eq(a, True, sd) for a in nz.facts_of_edge(e)))
        ctx.ob('C17.2', sd, node, ok,
               'a node is deleted only when its owner session is the '
               "client's")
    # ... and it is that node: the path deleted is the path whose owner was
    # read (a parent, or anything else derived from it, was never checked
    # and may hold the nodes of another session by the time it is deleted)
    read_paths = set(
        N.txt(c.args[-1]) for c in K.calls(sd.node)
        if K.callee_text(c).endswith('get_with_metadata') and c.args)
    for node in dels:
        for call in C.node_calls(node):
            if not _is_zk_write(call) or not call.args:
                continue
            target = N.txt(call.args[-1]) if K.callee_text(call).startswith(
                'zkutils.') else N.txt(call.args[0])
            ctx.ob('C17.2', sd, node, target in read_paths,
                   'the node deleted is the one whose owner was read (%s)'
                   % target, construct='delete target = verified path')
    # ---- C17.3 ---------------------------------------------------------
    count = 0
    for func in svc.live_methods():
        for inner in [func] + list(func.nested().values()):
            for sub in K.walk_no_nested(inner.node):
                if isinstance(sub, ast.Call) and _is_zk_write(sub):
                    count += 1
                    ctx.ob('C17.3', inner, sub, func in (sc, sd),
                           'ZooKeeper writes of the presence service happen '
                           'only in _safe_create / _safe_delete')
    ctx.require(count >= 3, 'ZooKeeper writes of the service', rule='C17.4')
    # ---- C17.4 ---------------------------------------------------------
    create = svc.methods.get('on_create_request')
    delete = svc.methods.get('on_delete_request')
    ctx.require(create is not None and delete is not None,
                'on_create_request / on_delete_request', rule='C17.4')
    hosts = [f for f in svc.live_methods() if f is not sc and any(
        K.is_meth(c, '_safe_create') for c in K.calls(f.node))]
    ctx.require(hosts, 'callers of _safe_create', rule='C17.4')
    sites = 0
    for host in hosts:
        sites += _create_side(ctx, svc, create, host)
    ctx.require(sites >= 3, '_safe_create tests in on_create_request '
                            '(found %d)' % sites, rule='C17.4')
    # delete side
    did = delete.params()[1]
    dg = ctx.cfg(delete)
    dl = [n for n, c in K.nodes_calling(
        dg, lambda c: K.is_meth(c, '_safe_delete'))]
    ctx.require(dl, '_safe_delete call in on_delete_request', rule='C17.4')
    for node in dl:
        loop = K.enclosing_for(dg, node)
        ctx.require(loop is not None, 'loop of the deletions in '
                                      'on_delete_request', rule='C17.4')
        dom = loop.ast.iter
        ddefs = M.local_defs(delete)
        for _hop in range(4):
            if isinstance(dom, ast.Name) and \
                    len(ddefs.get(dom.id, [])) == 1 and \
                    isinstance(ddefs[dom.id][0], ast.Name):
                dom = ddefs[dom.id][0]
        parts = K.list_contributions(delete, dom.id) \
            if isinstance(dom, ast.Name) else []
        ok = bool(parts)
        shown = []
        for part in parts:
            if 'other' in part or len(part['domains']) != 1 or \
                    part['elt'] is None:
                ok = False
                continue
            target, source = part['domains'][0]

            def deref(expr):
                if isinstance(expr, ast.Name) and \
                        len(ddefs.get(expr.id, [])) == 1:
                    return ddefs[expr.id][0]
                return expr
            inner = deref(source)
            pairs = False
            if isinstance(inner, ast.Call) and (
                    K.is_meth(inner, 'items', 'keys') and not inner.args):
                pairs = inner.func.attr == 'items'
                inner = K.recv(inner)
            elif isinstance(inner, ast.Call) and K.callee_text(inner) in (
                    'six.iteritems', 'six.iterkeys', 'list') and \
                    len(inner.args) == 1:
                pairs = K.callee_text(inner) == 'six.iteritems'
                inner = inner.args[0]
            aliases = [N.txt(inner)]
            inner = deref(inner)
            aliases.append(N.txt(inner))
            keyv = valv = None
            if isinstance(inner, ast.Subscript) and \
                    N.txt(inner.value) == 'self.presence':
                if pairs and isinstance(target, ast.Tuple) and \
                        len(target.elts) == 2:
                    keyv = N.txt(target.elts[0])
                    valv = N.txt(target.elts[1])
                elif not pairs:
                    keyv = N.txt(target)
            if keyv is None or N.txt(part['elt']) != keyv:
                ok = False
                continue
            owners = ['%s[%s]' % (a, keyv) for a in aliases] + (
                [valv] if valv else [])
            matched = False
            for test, outcome in part['conds']:
                if test is None:
                    ok = False
                    continue
                atom = nz.atom(test)
                if not outcome:
                    atom = N.negate(atom)
                shown.append(N.show(atom))
                key = atom.key
                if key[0] == 'cmp' and key[1] == '==' and sorted(
                        t for t, _c in key[2]) in [sorted([o, did])
                                                   for o in owners]:
                    matched = True
                else:
                    ok = False
            ok = ok and matched
        ctx.ob('C17.4', delete, loop, ok,
               'exactly the paths recorded for this request id are '
               'selected for deletion: %s' % shown,
               construct='delete selection')
        ctx.ob('C17.4', delete, node,
               N.txt(C.node_calls(node)[0].args[0]) ==
               N.txt(loop.ast.target) if C.node_calls(node) and
               C.node_calls(node)[0].args else False,
               'only the selected paths are deleted',
               construct='delete loop domain')
    # ---- C17.5 ---------------------------------------------------------
    ep = pres.classes.get('EndpointPresence')
    ctx.require(ep is not None, 'presence.EndpointPresence')
    n = 0
    for func in ep.live_methods():
        if not func.name.startswith('unregister'):
            continue
        graph = ctx.cfg(func)
        for node, call in K.nodes_calling(graph, _is_zk_write):
            n += 1

            def host_eq(edge):
                for atom in nz.facts_of_edge(edge):
                    key = atom.key
                    if key[0] == 'cmp' and key[1] == '==' and \
                            'self.hostname' in [t for t, _c in key[2]] and \
                            len(key[2]) == 2:
                        other = [t for t, _c in key[2]
                                 if t != 'self.hostname'][0]
                        read = 'zkutils.get(' in other or \
                            'zkclient.get(' in other or \
                            _zk_read_local(func, other)
                        if read and 'startswith' not in other:
                            return True
                return False
            loop = K.enclosing_for(graph, node)
            ctx.ob('C17.5', func, node,
                   K.guarded_by(graph, node, host_eq, start=loop),
                   'a presence node is deleted only when the host it '
                   'records *equals* this host')
    ctx.require(n >= 3, 'deletes in EndpointPresence.unregister_*',
        rule='C17.5')
    # ... and those owner-checked routines are the only places of the module
    # where a running / endpoint / identity node is deleted: clean-up code
    # (kill_node, ...) goes through them, never around them
    kinds = ('path.running(', 'path.endpoint(', 'path.identity_group(')
    for func in pres.all_functions():
        if func.cls is ep and func.name.startswith('unregister'):
            continue
        for call in K.calls(func.node):
            if not _is_zk_write(call):
                continue
            name = K.callee_text(call)
            if not ('delete' in name):
                continue
            texts = [K.rtxt(func, a) for a in call.args]
            if any(k in t for k in kinds for t in texts):
                ctx.fail('C17.5', func, call,
                         'a presence node is deleted outside the '
                         'owner-checked unregister routines: %s' %
                         N.txt(call)[:80],
                         construct='unchecked delete in %s' % func.name)
    ctx.ob('C17.5', 'treadmill.presence', None, True,
           'running / endpoint / identity nodes are deleted only by the '
           'owner-checked EndpointPresence.unregister_* routines',
           construct='delete owner in presence.py', file=pres.rel)
    tz = index.module(TRZK)
    uns = tz.functions.get('_unschedule')
    ctx.require(uns is not None, 'trace.app.zk._unschedule')
    graph = ctx.cfg(uns)
    defs = {}
    for sub in K.walk_no_nested(uns.node):
        if isinstance(sub, ast.Assign) and isinstance(sub.targets[0],
                                                      ast.Name):
            defs[sub.targets[0].id] = N.txt(sub.value)
    dels = [n for n in graph.nodes for c in C.node_calls(n)
            if 'ensure_deleted' in N.txt(c)]
    ctx.require(dels, 'delete in _unschedule', rule='C17.5')
    unz = N.Normaliser(env=K.func_env(uns))
    want = 'zkclient.exists(z.path.placement(_HOSTNAME, %s))' % \
        uns.params()[1]

    def placed_here(edge):
        # the test itself or a local holding its outcome, with the node path
        # read through its local
        return any(a.key[0] == 'truth' and a.key[2] and a.key[1] == want
                   for a in unz.facts_of_edge(edge))
    for node in dels:
        ok = K.guarded_by(graph, node, placed_here)
        ctx.ob('C17.5', uns, node, ok,
               "/scheduled is deleted only while this host's placement "
               'node exists')
    # OWNER: in this module /scheduled/<instance> is deleted by _unschedule
    # alone (a terminal event that is replayed after the scheduler moved the
    # instance must not unschedule it on behalf of its new host)
    for func in tz.live_functions():
        for call in K.calls(func.node):
            if not ('ensure_deleted' in N.txt(call) or
                    K.is_meth(call, 'delete')):
                continue
            if not any('path.scheduled(' in K.rtxt(func, a)
                       for a in call.args):
                continue
            ctx.ob('C17.5', func, call, func is uns,
                   '/scheduled/<instance> is deleted only by _unschedule '
                   '(found in %s)' % func.qualname,
                   construct='owner of the /scheduled delete')


_P = 'lib/python/treadmill/services/presence_service.py'
_PR = 'lib/python/treadmill/presence.py'
_TZ = 'lib/python/treadmill/trace/app/zk.py'

MUTANTS = [
    ('presence-node-deleted-from-an-unknown-module', [('lib/python/treadmill/cleanup.py', '        cleanup_link = os.path.join(self.tm_env.cleanup_dir, instance)\n        try:\n            container_dir = os.readlink(cleanup_link)\n', '        cleanup_link = os.path.join(self.tm_env.cleanup_dir, instance)\n        zkutils.ensure_deleted(self.zkclient, z.path.running(instance))\n        try:\n            container_dir = os.readlink(cleanup_link)\n')], 'C17.3', 'thorough'),
    ('create-not-ephemeral', [(_P, """                self.zkclient, path, data, acl=[acl], ephemeral=True
""", """                self.zkclient, path, data, acl=[acl], ephemeral=False
""")], 'C17.1'),
    ('presence-py-not-ephemeral', [(_PR, """            return zkutils.create(zkclient, path, data, acl=[acl],
                                  ephemeral=True)
""", """            return zkutils.create(zkclient, path, data, acl=[acl])
""")], 'C17.1'),
    ('update-before-owner-check', [(_P, """            session_id, _pwd = self.zkclient.client_id
            if metadata.owner_session_id != session_id:
                _LOGGER.info('Node exists, owned by other: %s - %s - %s',
""", """            session_id, _pwd = self.zkclient.client_id
            if content != data:
                zkutils.update(self.zkclient, path, data)
            if metadata.owner_session_id != session_id:
                _LOGGER.info('Node exists, owned by other: %s - %s - %s',
""")], 'C17.2'),
    ('other-owner-takes-over', [(_P, """                self._watch(rsrc_id, path)
                return False

            if content != data:""", """                zkutils.ensure_deleted(self.zkclient, path)
                self.retry_request(rsrc_id)
                return False

            if content != data:""")], 'C17.2'),
    ('other-owner-no-wait', [(_P, """                self._watch(rsrc_id, path)
                return False

            if content != data:""", """                return False

            if content != data:""")], 'C17.2'),
    ('other-owner-reports-success', [(_P, """                self._watch(rsrc_id, path)
                return False

            if content != data:""", """                self._watch(rsrc_id, path)
                return True

            if content != data:""")], 'C17.2'),
    ('delete-any-owner', [(_P, """            if metadata.owner_session_id == session_id:
                _LOGGER.info('Delete node: %s', path)
                zkutils.ensure_deleted(self.zkclient, path)
            else:
                _LOGGER.info('Node exists, owned by other: %s - %s',
                             path, metadata.owner_session_id)
""", """            _LOGGER.info('Delete node: %s', path)
            zkutils.ensure_deleted(self.zkclient, path)
""")], 'C17.2'),
    ('delete-request-direct', [(_P, """            for path in to_delete:
                self._safe_delete(path)
                del self.presence[app_name][path]
""", """            for path in to_delete:
                zkutils.ensure_deleted(self.zkclient, path)
                del self.presence[app_name][path]
""")], 'C17.3'),
    ('owner-table-setdefault', [(_P, """                self.presence[app_name][path] = rsrc_id

            # Register identity.""", """                self.presence[app_name].setdefault(path, rsrc_id)

            # Register identity.""")], 'C17.4'),
    ('running-not-recorded', [(_P, """            self.presence[app_name][path] = rsrc_id

            # Register endpoints.""", """            # Register endpoints.""")], 'C17.4'),
    ('delete-all-of-instance', [(_P, """                path for path in self.presence[app_name]
                if self.presence[app_name][path] == rsrc_id
""", """                path for path in self.presence[app_name]
""")], 'C17.4'),
    ('unregister-endpoint-prefix', [(_PR, """                if data and data.decode().split(':')[0] == self.hostname:
""", """                if data and data.decode().startswith(self.hostname):
""")], 'C17.5'),
    ('unregister-running-unconditional', [(_PR, """            if data and data.decode() == self.hostname:
                self.zkclient.delete(path)
""", """            if data:
                self.zkclient.delete(path)
""")], 'C17.5'),
    ('unschedule-unconditional', [(_TZ, """    if zkclient.exists(placement_node):
        _LOGGER.info('Unscheduling: %s', scheduled_node)
        zkutils.with_retry(
            zkutils.ensure_deleted, zkclient,
            scheduled_node
        )
    else:
        _LOGGER.info('Stale event, placement does not exist: %s',
                     placement_node)
""", """    _LOGGER.info('Unscheduling: %s', scheduled_node)
    zkutils.with_retry(
        zkutils.ensure_deleted, zkclient,
        scheduled_node
    )
""")], 'C17.5'),
]

REFACTORS = [
    ('owner-check-positive', [(_P, """            if metadata.owner_session_id == session_id:
                _LOGGER.info('Delete node: %s', path)
                zkutils.ensure_deleted(self.zkclient, path)
            else:
                _LOGGER.info('Node exists, owned by other: %s - %s',
                             path, metadata.owner_session_id)
""", """            if session_id != metadata.owner_session_id:
                _LOGGER.info('Node exists, owned by other: %s - %s',
                             path, metadata.owner_session_id)
            else:
                _LOGGER.info('Delete node: %s', path)
                zkutils.ensure_deleted(self.zkclient, path)
""")]),
    ('unregister-endpoint-partition', [(_PR, """                if data and data.decode().split(':')[0] == self.hostname:
""", """                if data and self.hostname == data.decode().partition(':')[0]:
""")]),
    ('create-positive-test', [(_P, """            if not self._safe_create(rsrc_id, path, self.hostname):
                _LOGGER.info('Waiting to expire: %s', path)
                return None

            self.presence[app_name][path] = rsrc_id
""", """            if self._safe_create(rsrc_id, path, self.hostname):
                self.presence[app_name][path] = rsrc_id
            else:
                _LOGGER.info('Waiting to expire: %s', path)
                return None
""")]),
]
