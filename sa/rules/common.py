"""Helpers shared by the rule modules."""

import ast

from .. import AnalysisError
from .. import cfg as C
from .. import norm as N
from ..index import dotted_text

SCHED = 'treadmill.scheduler'
LOADER = 'treadmill.scheduler.loader'
MASTER = 'treadmill.scheduler.master'


# ---------------------------------------------------------------------------
# AST helpers
# ---------------------------------------------------------------------------

def calls(node_or_ast):
    if isinstance(node_or_ast, C.Node):
        return C.node_calls(node_or_ast)
    out = []
    stack = [node_or_ast]
    while stack:
        cur = stack.pop()
        if isinstance(cur, ast.Call):
            out.append(cur)
        stack.extend(ast.iter_child_nodes(cur))
        # the body of a helper spliced in at a condition
        stack.extend(getattr(cur, '_inline_body', None) or ())
    return out


def is_meth(call, *names):
    """call is <recv>.<name>(...) for one of names."""
    return isinstance(call.func, ast.Attribute) and call.func.attr in names


def recv(call):
    """Receiver expression of a method call."""
    return call.func.value if isinstance(call.func, ast.Attribute) else None


def recv_text(call):
    rcv = recv(call)
    return N.txt(rcv) if rcv is not None else None


def callee_text(call):
    return dotted_text(call.func) or N.txt(call.func)


def arg_texts(call):
    return [N.txt(a) for a in call.args]


def kwarg(call, name):
    for kw in call.keywords:
        if kw.arg == name:
            return kw.value
    return None


def name_is(expr, ident):
    return isinstance(expr, ast.Name) and expr.id == ident


def attr_of(expr, base, attr):
    """expr is <base>.<attr> with base a Name."""
    return (isinstance(expr, ast.Attribute) and expr.attr == attr and
            name_is(expr.value, base))


def func_calls_method(func, *names):
    """Does the function body (without nested defs) call .<name>()?"""
    for sub in walk_no_nested(func.node):
        if isinstance(sub, ast.Call) and is_meth(sub, *names):
            return True
    return False


def walk_no_nested(root):
    """ast.walk that does not descend into nested function/class defs
    (the root itself may be a def)."""
    stack = [root]
    first = True
    while stack:
        node = stack.pop()
        if not first and isinstance(node, (ast.FunctionDef,
                                           ast.AsyncFunctionDef,
                                           ast.ClassDef, ast.Lambda)):
            continue
        first = False
        yield node
        stack.extend(reversed(list(ast.iter_child_nodes(node))))
        extra = getattr(node, '_inline_body', None)
        if extra:
            stack.extend(reversed(extra))


def stmt_nodes(cfg, pred):
    return [n for n in cfg.nodes if n.ast is not None and pred(n)]


def nodes_calling(cfg, pred):
    """[(node, call)] of CFG nodes whose own expressions contain a call
    satisfying pred."""
    out = []
    for node in cfg.nodes:
        for call in C.node_calls(node):
            if pred(call):
                out.append((node, call))
    return out


def assigns_attr(node, base=None, attr=None):
    """Attribute stores performed by a CFG stmt node:
    [(target_expr, value_expr or None, kind)] kind in assign/aug/del."""
    out = []
    stmt = node.ast
    if node.kind not in ('stmt',) or stmt is None:
        return out
    targets = []
    if isinstance(stmt, ast.Assign):
        for tgt in stmt.targets:
            for elt in (tgt.elts if isinstance(tgt, (ast.Tuple, ast.List))
                        else [tgt]):
                targets.append((elt, stmt.value, 'assign'))
    elif isinstance(stmt, ast.AugAssign):
        targets.append((stmt.target, stmt.value, 'aug'))
    elif isinstance(stmt, ast.AnnAssign) and stmt.value is not None:
        targets.append((stmt.target, stmt.value, 'assign'))
    elif isinstance(stmt, ast.Delete):
        for tgt in stmt.targets:
            targets.append((tgt, None, 'del'))
    for tgt, val, kind in targets:
        if isinstance(tgt, ast.Attribute):
            if attr is not None and tgt.attr != attr:
                continue
            if base is not None and N.txt(tgt.value) != base:
                continue
            out.append((tgt, val, kind))
    return out


# ---------------------------------------------------------------------------
# CFG helpers
# ---------------------------------------------------------------------------

def loop_body_nodes(head):
    """CFG nodes of a for/while loop body (lexical containment: nodes whose
    AST lies inside the loop statement's body, condition tests of a while
    included)."""
    inside = set()
    roots = list(head.ast.body)
    if head.kind == 'loop_head':
        roots.append(head.ast.test)
    stack = list(roots)
    while stack:
        sub = stack.pop()
        if id(sub) in inside:
            continue
        inside.add(id(sub))
        stack.extend(ast.iter_child_nodes(sub))
        # a helper inlined in condition position hangs off its call
        stack.extend(getattr(sub, '_inline_body', None) or [])
    out = set()
    for node in C.reach([head]):
        if node is head:
            continue
        if node.ast is None:
            if head in getattr(node, 'loops', ()):
                out.add(node)
            continue
        if id(node.ast) in inside:
            out.add(node)
    return out


def loop_back_edges(head):
    """Edges from inside the body back to the header (end of an
    iteration)."""
    body = loop_body_nodes(head)
    return [e for e in head.pred if e.src in body]


def loop_exit_edges(head):
    """Edges that leave the loop (done edge of the header, breaks, returns,
    exceptions)."""
    body = loop_body_nodes(head)
    out = [e for e in head.succ if e.kind == 'done']
    for node in body:
        for edge in node.succ:
            if edge.dst not in body and edge.dst is not head:
                out.append(edge)
    return out


def exhaustive_loop(ctx, rule, func, head, what):
    """Obligation: the loop visits every element of its domain - it is left
    only when the domain is exhausted or by an exception (no break, no
    return from inside the body).  For loops whose property-relevant work
    must reach *every* element: a `continue` turned into a `break` ends the
    walk at the first element that is skipped."""
    early = [e for e in loop_exit_edges(head)
             if e.kind not in ('done', 'exc') and
             e.src.kind not in ('raise_stmt',)]
    first = early[0].src if early else None
    return ctx.ob(rule, func, first if first is not None else head,
                  not early,
                  '%s: the walk is never cut short (no break / return in '
                  'the loop)%s' % (what, '' if not early else
                                   ' - left early at: %s' % first.text(50)),
                  construct='exhaustive: %s' % what)


def tolerance_polarity(ctx, rule, func, allowed=None):
    """Error discipline of the handlers of ``func``: a test of the caught
    error's errno against errno.E* splits the handler into the tolerated
    case (the benign race: already there / already gone) and everything else.
    The tolerated outcome must not re-raise, every other outcome must - an
    inverted test raises on the benign race and swallows real failures.
    Returns the number of tests judged."""
    graph = ctx.cfg(func)
    nz = N.Normaliser()
    count = 0
    raises = [n for n in graph.nodes if n.kind == 'raise_stmt']
    for test in [n for n in graph.nodes if n.kind == 'test']:
        atom = nz.atom(test.ast)
        key = atom.key
        codes = []
        if key[0] == 'cmp' and key[1] in ('==', '!=') and len(key[2]) == 2:
            terms = [t for t, _c in key[2]]
            codes = [t for t in terms if t.startswith('errno.E')]
            if not (len(codes) == 1 and any(t.endswith('.errno')
                                            for t in terms)):
                continue
            equal_kind = 'true' if key[1] == '==' else 'false'
        elif key[0] == 'in' and key[1].endswith('.errno') and \
                'errno.E' in key[2]:
            equal_kind = 'true' if key[3] else 'false'
            codes = [key[2]]
        else:
            continue
        if allowed is not None and not any(a in codes[0] for a in allowed):
            continue
        count += 1
        benign = [e for e in test.succ if e.kind == equal_kind]
        other = [e for e in test.succ if e.kind not in (equal_kind, 'exc')]
        # a handler without any raise tolerates everything by design (it
        # logs and goes on): nothing to judge about polarity then
        local = [r for r in raises if any(
            r in cut_reach(graph, e.dst, follow_exc=False)
            for e in test.succ)]
        if not local:
            ctx.ob(rule, func, test, True,
                   'errno test without a re-raise on either side',
                   construct='tolerance %s' % N.txt(test.ast)[:50])
            continue
        # tolerated: some way on to the normal exit (it may still raise under
        # a further test - "exists, but owned by somebody else"); anything
        # else: no way on without a raise
        def goes_on(node):
            return node is graph.exit or (node not in raises and find_path(
                node, [graph.exit], cut_node=lambda n: n in raises,
                follow_exc=False) is not None)
        ok = all(goes_on(e.dst) for e in benign) and \
            not any(goes_on(e.dst) for e in other)
        ctx.ob(rule, func, test, ok,
               'exactly %s is tolerated: that outcome does not re-raise, '
               'every other error does' % codes[0],
               construct='tolerance %s' % N.txt(test.ast)[:50])
    return count


def enclosing_for(cfg, node, var=None):
    """Innermost for-loop header whose body contains node (and, if given,
    whose target is the name ``var``)."""
    best = None
    for head in cfg.nodes:
        if head.kind != 'for':
            continue
        if var is not None and var not in N.for_targets(head):
            continue
        body = loop_body_nodes(head)
        if node in body:
            if best is None or len(body) < best[1]:
                best = (head, len(body))
    return best[0] if best else None


def cut_reach(cfg, start, cut_edge=None, cut_node=None, follow_exc=True):
    """Nodes reachable from start when edges/nodes selected by the
    predicates are removed."""
    seen = {start}
    stack = [start]
    C.STATS['queries'] += 1
    while stack:
        cur = stack.pop()
        C.STATS['visited'] += 1
        if cut_node is not None and cur is not start and cut_node(cur):
            continue
        for edge in cur.succ:
            if not follow_exc and edge.kind == 'exc':
                continue
            if cut_edge is not None and cut_edge(edge):
                continue
            if edge.dst not in seen:
                seen.add(edge.dst)
                stack.append(edge.dst)
    return seen


def guarded_by(cfg, site, edge_establishes, start=None, follow_exc=True):
    """True iff every path from entry (or start) to ``site`` takes an edge
    for which edge_establishes(edge) holds (the guard is established on the
    path).  Decided by cutting those edges and testing reachability."""
    start = start or cfg.entry
    seen = cut_reach(cfg, start, cut_edge=edge_establishes,
                     follow_exc=follow_exc)
    return site not in seen


def find_path(start, goals, cut_edge=None, cut_node=None, follow_exc=True):
    """Shortest path (list of edges) from ``start`` along at least one edge
    to a node of ``goals``; nodes selected by cut_node are not traversed
    (a goal is recognised before the cut applies), edges selected by
    cut_edge are not taken.  None when there is no such path."""
    import collections
    goals = set(goals)
    parent = {}
    queue = collections.deque()

    def push(edge):
        if not follow_exc and edge.kind == 'exc':
            return
        if cut_edge is not None and cut_edge(edge):
            return
        if edge.dst in parent:
            return
        parent[edge.dst] = edge
        queue.append(edge.dst)

    for edge in start.succ:
        push(edge)
    C.STATS['queries'] += 1
    while queue:
        cur = queue.popleft()
        C.STATS['visited'] += 1
        if cur in goals:
            path = []
            node = cur
            while True:
                edge = parent[node]
                path.append(edge)
                node = edge.src
                if node is start:
                    break
            path.reverse()
            return path
        if cut_node is not None and cut_node(cur):
            continue
        if cur is start:
            continue
        for edge in cur.succ:
            push(edge)
    return None


class _NonNull(object):
    """Abstract value: some object that is not None (truthiness
    unknown)."""

    def __repr__(self):
        return '<nonnull>'

    def __lt__(self, other):
        return False


NONNULL = _NonNull()


def state_env(state):
    return dict(state[1])


def _never_none(expr):
    """expr evaluates to something other than None."""
    if isinstance(expr, ast.Constant):
        return expr.value is not None and not isinstance(expr.value, bool)
    if isinstance(expr, (ast.List, ast.Tuple, ast.Set, ast.Dict,
                         ast.ListComp, ast.SetComp, ast.DictComp,
                         ast.JoinedStr, ast.BinOp)):
        return True
    if isinstance(expr, ast.Call):
        return callee_text(expr) in ('os.path.join', 'str', 'int', 'float',
                                     'list', 'set', 'dict', 'tuple', 'len',
                                     'sorted', 'os.path.basename',
                                     'os.path.dirname', 'os.path.realpath')
    return False


def find_path_cp(graph, start, goals, cut_edge=None, cut_node=None,
                 follow_exc=False):
    """Like find_path but path-sensitive for local boolean flags: names
    assigned a constant are tracked and tests on them prune the infeasible
    outcome (handles `ok = True ... ok = False ... if not ok:`)."""
    goals = set(goals)
    nzl = N.Normaliser()

    def step(edge, state):
        if not follow_exc and edge.kind == 'exc':
            return []
        if cut_edge is not None and cut_edge(edge):
            return []
        node = edge.src
        env = dict(state[1])
        moved = state[0]
        if moved and node in goals:
            return []           # stop at the first goal
        if moved and cut_node is not None and cut_node(node):
            return []
        if node.kind == 'test' and edge.kind in ('true', 'false'):
            atom = nzl.atom(node.ast)
            if atom.key[0] == 'truth' and atom.key[1] in env and \
                    env[atom.key[1]] is not NONNULL:
                val = bool(env[atom.key[1]]) == atom.key[2]
                if val != (edge.kind == 'true'):
                    return []
            elif atom.key[0] == 'truth' and atom.key[1].isidentifier():
                # remember what the test established about a plain local
                env[atom.key[1]] = (edge.kind == 'true') == atom.key[2]
            if atom.key[0] == 'is' and atom.key[2] == 'None' and \
                    atom.key[1] in env:
                val = (env[atom.key[1]] is None) == atom.key[3]
                if val != (edge.kind == 'true'):
                    return []
            elif atom.key[0] == 'is' and atom.key[2] == 'None' and \
                    atom.key[1].isidentifier():
                # remember what the test established about a plain local
                env[atom.key[1]] = None if (edge.kind == 'true') == \
                    atom.key[3] else NONNULL
        if node.kind == 'stmt' and isinstance(node.ast, ast.Assign):
            for tgt in node.ast.targets:
                for name in ast.walk(tgt):
                    if isinstance(name, ast.Name):
                        env.pop(name.id, None)
            if len(node.ast.targets) == 1 and \
                    isinstance(node.ast.targets[0], ast.Name):
                val = node.ast.value
                tgt = node.ast.targets[0].id
                if isinstance(val, ast.Constant) and \
                        (val.value is None or isinstance(val.value, bool)):
                    env[tgt] = val.value
                elif _never_none(val):
                    env[tgt] = NONNULL
                elif isinstance(val, ast.Name) and val.id in state_env(
                        state):
                    env[tgt] = state_env(state)[val.id]
        elif node.kind in ('stmt', 'for', 'with_enter'):
            for name in N.assigned_targets(node) | N.for_targets(node):
                env.pop(name, None)
        return [(True, tuple(sorted(env.items(), key=lambda kv: kv[0])))]

    reached = C.explore(graph, [(False, ())], step, start=start)
    for (node, state) in reached:
        if node in goals and state[0]:
            return C.witness(reached, (node, state))
    return None


def _establishes(nzl, expr, polarity, pred):
    """Does `expr evaluating to polarity` establish a fact accepted by pred?
    Compound conditions are taken apart: a conjunction that holds gives
    every operand, one that fails gives only what each operand's failure
    would give; dually for disjunctions."""
    if isinstance(expr, ast.UnaryOp) and isinstance(expr.op, ast.Not):
        return _establishes(nzl, expr.operand, not polarity, pred)
    if isinstance(expr, ast.BoolOp):
        parts = [_establishes(nzl, v, polarity, pred) for v in expr.values]
        conj = isinstance(expr.op, ast.And)
        return any(parts) if conj == polarity else all(parts)
    try:
        atom = nzl.atom(expr)
        if not polarity:
            atom = N.negate(atom)
    except Exception:             # pylint: disable=broad-except
        return False
    return bool(pred(atom))


def unestablished_path(graph, goals, preds, start=None, cut_node=None):
    """Path (list of edges) from the entry to a goal node along which one of
    the wanted facts was NOT established, or None when every path
    establishes all of them.  ``preds``: {name: fn(atom) -> bool}.
    Path-sensitive for local booleans: a name bound to a constant prunes the
    impossible outcome of a test on it; a name bound to a condition
    (``deleted = stat is None`` ... ``if deleted:``) passes on, at the test,
    what that condition establishes."""
    goals = set(goals)
    nzl = N.Normaliser()
    names = sorted(preds)

    def learn(have, expr, polarity):
        new = set(have)
        for name in names:
            if name not in new and _establishes(nzl, expr, polarity,
                                                preds[name]):
                new.add(name)
        return frozenset(new)

    def step(edge, state):
        if edge.kind == 'exc':
            return []
        have, envt = state
        env = dict(envt)
        node = edge.src
        if node in goals:
            return []
        if cut_node is not None and node is not first and cut_node(node):
            return []
        if node.kind == 'test' and edge.kind in ('true', 'false') and \
                node.ast is not None:
            polarity = edge.kind == 'true'
            expr = node.ast
            flip = False
            while isinstance(expr, ast.UnaryOp) and isinstance(
                    expr.op, ast.Not):
                expr = expr.operand
                flip = not flip
            if isinstance(expr, ast.Name) and expr.id in env:
                kind, val = env[expr.id]
                want = polarity != flip
                if kind == 'const':
                    if bool(val) != want:
                        return []
                else:
                    have = learn(have, val, want)
            else:
                have = learn(have, node.ast, polarity)
        if node.kind == 'stmt' and isinstance(node.ast, ast.Assign) and \
                len(node.ast.targets) == 1 and \
                isinstance(node.ast.targets[0], ast.Name):
            tgt = node.ast.targets[0].id
            val = node.ast.value
            for key in [k for k, (kind, v) in env.items()
                        if kind == 'expr' and tgt in N.mentions(v)]:
                env.pop(key)
            if isinstance(val, ast.Constant) and (
                    val.value is None or isinstance(val.value, bool)):
                env[tgt] = ('const', val.value)
            elif isinstance(val, (ast.Compare, ast.BoolOp)) or (
                    isinstance(val, ast.UnaryOp) and
                    isinstance(val.op, ast.Not)):
                env[tgt] = ('expr', val)
            elif isinstance(val, ast.Name) and val.id in env:
                env[tgt] = env[val.id]
            else:
                env.pop(tgt, None)
        elif node.kind in ('stmt', 'for', 'with_enter'):
            for name in N.assigned_targets(node) | N.for_targets(node):
                env.pop(name, None)
                for key in [k for k, (kind, v) in env.items()
                            if kind == 'expr' and name in N.mentions(v)]:
                    env.pop(key)
        return [(have, tuple(sorted(env.items(), key=lambda kv: kv[0])))]

    first = start or graph.entry
    reached = C.explore(graph, [(frozenset(), ())], step, start=first)
    for (node, state) in reached:
        if node in goals and len(state[0]) < len(names):
            return C.witness(reached, (node, state))
    return None


def const_path(graph, start, goals, cut_node=None, init=()):
    """Path (list of edges) from ``start`` to a node of ``goals`` that does
    not pass through a node for which ``cut_node`` holds and does not leave
    by an exception - or None.  Path-sensitive for locals that hold a
    constant (a reason string set by a handler, None set before the try): a
    test on such a local (``x``, ``not x``, ``x is None``, ``x is not None``,
    ``x == c``, ``x != c``) is followed only in the direction its value
    allows."""
    goals = set(goals)
    unknown = object()

    def value(expr, env):
        if isinstance(expr, ast.Constant):
            return expr.value
        if isinstance(expr, ast.Name) and expr.id in env:
            return env[expr.id]
        return unknown

    def outcome(expr, env):
        if isinstance(expr, ast.UnaryOp) and isinstance(expr.op, ast.Not):
            inner = outcome(expr.operand, env)
            return unknown if inner is unknown else not inner
        if isinstance(expr, ast.Compare) and len(expr.ops) == 1:
            left = value(expr.left, env)
            right = value(expr.comparators[0], env)
            if left is unknown or right is unknown:
                return unknown
            op = expr.ops[0]
            if isinstance(op, ast.Is):
                return left is right
            if isinstance(op, ast.IsNot):
                return left is not right
            if isinstance(op, ast.Eq):
                return left == right
            if isinstance(op, ast.NotEq):
                return left != right
            return unknown
        val = value(expr, env)
        return unknown if val is unknown else bool(val)

    def step(edge, envt):
        if edge.kind == 'exc':
            return []
        node = edge.src
        if node in goals:
            return []
        if cut_node is not None and node is not start and cut_node(node):
            return []
        env = dict(envt)
        if node.kind == 'test' and edge.kind in ('true', 'false') and \
                node.ast is not None:
            res = outcome(node.ast, env)
            if res is not unknown and res != (edge.kind == 'true'):
                return []
        if node.kind == 'stmt' and isinstance(node.ast, ast.Assign) and \
                len(node.ast.targets) == 1 and \
                isinstance(node.ast.targets[0], ast.Name):
            tgt = node.ast.targets[0].id
            val = value(node.ast.value, env)
            if val is unknown or not isinstance(
                    val, (str, bool, int, type(None))):
                env.pop(tgt, None)
            else:
                env[tgt] = val
        elif node.kind in ('stmt', 'for', 'with_enter', 'handler'):
            for name in N.assigned_targets(node) | N.for_targets(node):
                env.pop(name, None)
        return [tuple(sorted(env.items(), key=lambda kv: kv[0]))]

    reached = C.explore(graph, [tuple(sorted(init))], step, start=start)
    for (node, state) in reached:
        if node in goals and not (node is start and
                                  reached[(node, state)][1] is None):
            return C.witness(reached, (node, state))
    return None


def kept_between_calls(mod, func):
    """Statements of ``func`` that store into a module-level container or
    name (X[k] = v, del X[k], X.update / setdefault / add / append / pop ...,
    ``global X`` followed by an assignment): state that survives the call."""
    params = set(func.params())
    local = set()
    for sub in walk_no_nested(func.raw):
        if isinstance(sub, ast.Assign):
            for tgt in sub.targets:
                for leaf in ast.walk(tgt):
                    if isinstance(leaf, ast.Name) and isinstance(
                            leaf.ctx, ast.Store):
                        local.add(leaf.id)
    globs = set()
    for sub in walk_no_nested(func.raw):
        if isinstance(sub, ast.Global):
            globs |= set(sub.names)
    local -= globs

    def module_level(name):
        return name in mod.consts and name not in params and \
            name not in local
    out = []
    for sub in walk_no_nested(func.raw):
        tgts = []
        if isinstance(sub, ast.Assign):
            tgts = sub.targets
        elif isinstance(sub, ast.AugAssign):
            tgts = [sub.target]
        elif isinstance(sub, ast.Delete):
            tgts = sub.targets
        for tgt in tgts:
            base = tgt
            while isinstance(base, (ast.Subscript, ast.Attribute)):
                base = base.value
            if isinstance(base, ast.Name) and (
                    (base is not tgt and module_level(base.id)) or
                    base.id in globs):
                out.append(sub)
        if isinstance(sub, ast.Call) and is_meth(
                sub, 'update', 'setdefault', 'add', 'append', 'extend',
                'pop', 'clear', 'remove', 'insert', 'discard') and \
                isinstance(recv(sub), ast.Name) and \
                module_level(recv(sub).id):
            out.append(sub)
    return out


_OUTSIDE = ('os.stat', 'os.lstat', 'os.listdir', 'os.readlink', 'os.path.exists',
            'os.path.islink', 'os.path.isfile', 'os.path.isdir',
            'os.path.getmtime', 'glob.glob', 'time.time', 'io.open', 'open')
_OUTSIDE_METHODS = ('get', 'get_children', 'exists', 'get_with_metadata',
                    'get_default', 'list', 'paged_search', 'search')


def reads_outside(mod, func, depth=0, _seen=None):
    """The routine (or a routine of the same module it calls) reads state
    outside the process: the file system, the clock, ZooKeeper, the admin
    store."""
    _seen = _seen if _seen is not None else set()
    if func.fq in _seen or depth > 3:
        return False
    _seen.add(func.fq)
    for call in calls(func.raw):
        text = callee_text(call)
        if text in _OUTSIDE:
            return True
        if isinstance(call.func, ast.Attribute) and \
                call.func.attr in _OUTSIDE_METHODS:
            base = recv_text(call) or ''
            if any(w in base for w in ('zk', 'backend', 'admin', 'client')):
                return True
            if isinstance(recv(call), ast.Call):    # _admin_x().get(..)
                return True
        if isinstance(call.func, ast.Name):
            callee = mod.functions.get(call.func.id)
            if callee is not None and reads_outside(mod, callee, depth + 1,
                                                    _seen):
                return True
        if isinstance(call.func, ast.Attribute) and \
                recv_text(call) in ('self', 'cls') and func.cls is not None:
            callee = func.cls.methods.get(call.func.attr)
            if callee is not None and reads_outside(mod, callee, depth + 1,
                                                    _seen):
                return True
    return False


def no_hidden_state(ctx, rule, files):
    """Generic clause: a routine of the anchored modules that reads state
    outside the process (file system, clock, ZooKeeper, admin store) answers
    from what it reads now - it neither carries a memoising decorator nor
    keeps results in a module-level container between calls.  (Pure helpers
    are not judged: memoising those changes nothing.)"""
    judged = 0
    for rel in sorted(files):
        name = rel[len('lib/python/'):-3].replace('/', '.')
        if name.endswith('.__init__'):
            name = name[:-len('.__init__')]
        try:
            mod = ctx.index.module(name)
        except Exception:           # pylint: disable=broad-except
            continue
        bad = []
        for func in mod.live_functions():
            memo = [N.txt(d) for d in func.decorators()
                    if any(w in N.txt(d).lower()
                           for w in ('cache', 'memo', 'lru'))]
            kept = kept_between_calls(mod, func)
            if (memo or kept) and reads_outside(mod, func):
                bad.append((func, memo, kept))
        judged += 1
        if not bad:
            ctx.ok(rule, name, None,
                   'no routine of %s that reads outside state keeps results '
                   'between calls' % name,
                   construct='no hidden state in %s' % name, file=mod.rel)
        for func, memo, kept in bad:
            ctx.fail(rule, func, kept[0] if kept else None,
                     '%s reads outside state but answers from a %s: a later '
                     'change of what it read is not seen' % (
                         func.qualname, 'memo (%s)' % memo[0] if memo else
                         'module-level container'),
                     construct='no hidden state in %s' % name)
    return judged


_PURE_BUILTINS = {'enumerate': enumerate, 'dict': dict, 'zip': zip,
                  'range': range, 'len': len, 'list': list, 'tuple': tuple,
                  'reversed': reversed, 'sorted': sorted}


def fold_literal_table(expr):
    """Value of a module-level table written as a literal or a comprehension
    over literals and pure builtins (enumerate, zip, range, ...) - constant
    folding by the analyser; anything else (a name, an attribute, a call of
    repository code) is refused (None).  Nothing of the repository runs."""
    bound = set()
    for node in ast.walk(expr):
        if isinstance(node, ast.comprehension):
            for leaf in ast.walk(node.target):
                if isinstance(leaf, ast.Name):
                    bound.add(leaf.id)
    allowed = (ast.Constant, ast.List, ast.Tuple, ast.Dict, ast.Set,
               ast.DictComp, ast.ListComp, ast.SetComp, ast.GeneratorExp,
               ast.comprehension, ast.Name, ast.Subscript, ast.Call,
               ast.Load, ast.Store, ast.Slice, ast.BinOp, ast.Add, ast.Sub,
               ast.Mult, ast.UnaryOp, ast.USub, ast.Compare, ast.Eq,
               ast.NotEq, ast.Lt, ast.Gt, ast.IfExp, ast.keyword)
    for node in ast.walk(expr):
        if not isinstance(node, allowed):
            return None
        if isinstance(node, ast.Name) and node.id not in bound and \
                node.id not in _PURE_BUILTINS:
            return None
        if isinstance(node, ast.Call) and not (
                isinstance(node.func, ast.Name) and
                node.func.id in _PURE_BUILTINS):
            return None
    try:
        code = compile(ast.Expression(body=expr), '<table>', 'eval')
        return eval(code, {'__builtins__': {}}, dict(_PURE_BUILTINS))
    except Exception:               # pylint: disable=broad-except
        return None


_DOM_CACHE = {}


def controlling(node, graph=None, limit=12):
    """Describe the branch decision that leads to ``node``: the closest
    dominating test (or loop header) and the outcome that must have been
    taken."""
    cur = node
    for _ in range(limit):
        preds = [e for e in cur.pred if e.kind != 'exc']
        if len(preds) != 1:
            break
        edge = preds[0]
        if edge.src.kind in ('test', 'for', 'handler'):
            return '%s -> %s' % (edge.src.text(70), edge.kind)
        cur = edge.src
    if graph is not None:
        key = id(graph)
        if key not in _DOM_CACHE:
            _DOM_CACHE[key] = (graph, C.dominators(graph, edge_ok=C.no_exc))
        dom = _DOM_CACHE[key][1]
        tests = [d for d in dom.get(node, ()) if d is not node and
                 d.kind in ('test', 'for')]
        if tests:
            best = max(tests, key=lambda d: len(dom[d]))
            kinds = []
            for edge in best.succ:
                if edge.kind == 'exc':
                    continue
                seen = cut_reach(graph, edge.dst, cut_node=lambda n,
                                 b=best: n is b, follow_exc=False)
                if node in seen or edge.dst is node:
                    kinds.append(edge.kind)
            return '%s -> %s' % (best.text(70), '|'.join(sorted(kinds)))
    return 'after %s' % node.text(70)


def edge_atoms(normaliser, edge):
    return normaliser.facts_of_edge(edge)


def edge_has_atom(normaliser, edge, pred):
    for atom in normaliser.facts_of_edge(edge):
        if pred(atom):
            return True
    return False


def truth_edge(normaliser, edge, text, positive=True):
    """edge establishes truthiness (or falsiness) of expression text."""
    for atom in normaliser.facts_of_edge(edge):
        if atom.key[0] == 'truth' and atom.key[1] == text and \
                atom.key[2] == positive:
            return True
    return False


def describe(path):
    return C.describe_path(path)


# ---------------------------------------------------------------------------
# role location
# ---------------------------------------------------------------------------

def class_methods(index, cls, include_inherited=False):
    if include_inherited:
        out = {}
        for klass in reversed(index.mro(cls)):
            out.update(klass.methods)
        return out
    return dict(cls.methods)


def methods_calling(cls, *names):
    return [f for f in cls.live_methods() if func_calls_method(f, *names)]


def one(items, what):
    items = list(items)
    if len(items) != 1:
        raise AnalysisError('anchor role "%s" matched %d constructs (%s), '
                            'expected exactly 1' % (
                                what, len(items),
                                ', '.join(getattr(i, 'fq', str(i))
                                          for i in items[:5])))
    return items[0]


def some(items, what, minimum=1):
    items = list(items)
    if len(items) < minimum:
        raise AnalysisError('anchor role "%s" matched %d constructs, '
                            'expected at least %d' % (what, len(items),
                                                      minimum))
    return items


# ---------------------------------------------------------------------------
# callee summaries
# ---------------------------------------------------------------------------

def resolve_call(ctx, func, call):
    """Resolve a call made inside ``func`` to a FuncInfo of the package when
    possible: self.m() through the MRO, module.f(), plain f()."""
    return ctx.index.resolve_call(func, call)


def callee_always_calls(ctx, callee, param, method, depth=0):
    """Every normal path of ``callee`` calls <param>.<method>()."""
    if callee is None or depth > 2:
        return False
    graph = ctx.cfg(callee)

    def hit(node):
        for call in C.node_calls(node):
            if is_meth(call, method) and name_is(recv(call), param):
                return True
        return False
    seen = cut_reach(graph, graph.entry, cut_node=hit, follow_exc=False)
    return graph.exit not in seen


def call_passes_as(call, callee, expr_text):
    """Name of the callee parameter that receives the argument whose text
    is expr_text, or None."""
    params = callee.params()
    if params and params[0] in ('self', 'cls') and \
            isinstance(call.func, ast.Attribute):
        params = params[1:]
    for idx, arg in enumerate(call.args):
        if N.txt(arg) == expr_text and idx < len(params):
            return params[idx]
    for kw in call.keywords:
        if kw.arg and N.txt(kw.value) == expr_text:
            return kw.arg
    return None


# ---------------------------------------------------------------------------
# E5: set-expression evaluator over Venn regions
# ---------------------------------------------------------------------------

class SetExpr(object):
    """Evaluates a set-valued expression of a function to a boolean function
    over base sets.

    ``bases`` maps a name to a recogniser ``fn(expr) -> bool`` telling that
    an (unresolved) expression denotes that base set.  ``subset`` lists
    (a, b) pairs meaning a is a subset of b (used to skip impossible
    regions).  Local names are resolved through their unique assignment in
    the function.  Returns None when the expression is not understood.
    """

    def __init__(self, func, bases, subset=()):
        self.func = func
        self.bases = bases
        self.names = sorted(bases)
        self.subset = list(subset)
        self.defs = {}
        counts = {}
        for sub in walk_no_nested(func.node):
            if isinstance(sub, ast.Assign) and len(sub.targets) == 1 and \
                    isinstance(sub.targets[0], ast.Name):
                name = sub.targets[0].id
                counts[name] = counts.get(name, 0) + 1
                self.defs[name] = sub.value
        self.defs = {k: v for k, v in self.defs.items() if counts[k] == 1}

    def regions(self):
        import itertools
        out = []
        for bits in itertools.product([False, True],
                                      repeat=len(self.names)):
            env = dict(zip(self.names, bits))
            if any(env.get(a) and not env.get(b) for a, b in self.subset):
                continue
            if not any(bits):
                continue
            out.append(env)
        return out

    def member(self, expr, env, depth=0):
        """Is an element with base memberships ``env`` in the set denoted
        by expr?  None if unknown."""
        if depth > 10:
            return None
        for name, recog in self.bases.items():
            try:
                if recog(expr):
                    if hasattr(self, '_used'):
                        self._used.add(name)
                    return env[name]
            except Exception:  # pylint: disable=broad-except
                pass
        if isinstance(expr, ast.Name) and expr.id in self.defs:
            return self.member(self.defs[expr.id], env, depth + 1)
        if isinstance(expr, ast.BinOp):
            left = self.member(expr.left, env, depth + 1)
            right = self.member(expr.right, env, depth + 1)
            if left is None or right is None:
                return None
            if isinstance(expr.op, ast.Sub):
                return left and not right
            if isinstance(expr.op, ast.BitAnd):
                return left and right
            if isinstance(expr.op, ast.BitOr):
                return left or right
            if isinstance(expr.op, ast.BitXor):
                return left != right
            return None
        if isinstance(expr, ast.Call):
            name = callee_text(expr)
            short = name.split('.')[-1]
            if short in ('set', 'frozenset', 'list', 'sorted', 'tuple',
                         'viewkeys', 'iterkeys', 'keys') and \
                    len(expr.args) == 1:
                return self.member(expr.args[0], env, depth + 1)
            if isinstance(expr.func, ast.Attribute):
                meth = expr.func.attr
                if meth == 'keys' and not expr.args:
                    return self.member(expr.func.value, env, depth + 1)
                base = self.member(expr.func.value, env, depth + 1)
                if meth in ('difference', 'intersection', 'union',
                            'symmetric_difference') and expr.args:
                    if base is None:
                        return None
                    cur = base
                    for arg in expr.args:
                        other = self.member(arg, env, depth + 1)
                        if other is None:
                            return None
                        if meth == 'difference':
                            cur = cur and not other
                        elif meth == 'intersection':
                            cur = cur and other
                        elif meth == 'union':
                            cur = cur or other
                        else:
                            cur = cur != other
                    return cur
            return None
        if isinstance(expr, (ast.SetComp, ast.ListComp, ast.GeneratorExp)):
            if len(expr.generators) != 1:
                return None
            gen = expr.generators[0]
            if N.txt(expr.elt) != N.txt(gen.target):
                return None
            base = self.member(gen.iter, env, depth + 1)
            if base is None:
                return None
            cur = base
            for cond in gen.ifs:
                val = self._cond(cond, N.txt(gen.target), env, depth)
                if val is None:
                    return None
                cur = cur and val
            return cur
        return None

    def _cond(self, cond, var, env, depth):
        if isinstance(cond, ast.UnaryOp) and isinstance(cond.op, ast.Not):
            val = self._cond(cond.operand, var, env, depth)
            return None if val is None else not val
        if isinstance(cond, ast.Compare) and len(cond.ops) == 1 and \
                isinstance(cond.ops[0], (ast.In, ast.NotIn)) and \
                N.txt(cond.left) == var:
            val = self.member(cond.comparators[0], env, depth + 1)
            if val is None:
                return None
            return val if isinstance(cond.ops[0], ast.In) else not val
        return None

    def table(self, expr):
        """{frozenset(true base names): membership}; None if not
        understood."""
        out = {}
        for env in self.regions():
            val = self.member(expr, env)
            if val is None:
                return None
            out[frozenset(k for k, v in env.items() if v)] = bool(val)
        return out

    def expect(self, fn):
        out = {}
        for env in self.regions():
            out[frozenset(k for k, v in env.items() if v)] = bool(fn(env))
        return out


def show_table(table):
    if table is None:
        return 'not a recognised set expression'
    return ', '.join('{%s}' % '&'.join(sorted(k)) for k, v in
                     sorted(table.items(), key=lambda kv: sorted(kv[0]))
                     if v) or 'empty'


# ---------------------------------------------------------------------------
# reaching definitions of local names
# ---------------------------------------------------------------------------

def reaching_defs(graph):
    """dict node -> {name: frozenset(def nodes)} holding on entry of node.
    A def node is a CFG node assigning the plain local name (Assign /
    AugAssign / for target / with-as)."""
    import collections
    defs_of = {}
    for node in graph.nodes:
        names = set()
        for name in N.assigned_targets(node):
            if '.' not in name and '[' not in name:
                names.add(name)
        defs_of[node] = names
    state = {graph.entry: {}}
    work = collections.deque([graph.entry])
    while work:
        node = work.popleft()
        cur = state[node]
        for edge in node.succ:
            out = dict(cur)
            names = set(defs_of[node])
            if node.kind == 'for' and edge.kind == 'iter':
                names |= N.for_targets(node)
            if edge.kind != 'exc':
                for name in names:
                    out[name] = frozenset([node])
            old = state.get(edge.dst)
            if old is None:
                state[edge.dst] = out
                work.append(edge.dst)
            else:
                merged = dict(old)
                changed = False
                for name, dset in out.items():
                    new = merged.get(name, frozenset()) | dset
                    if new != merged.get(name):
                        merged[name] = new
                        changed = True
                if changed:
                    state[edge.dst] = merged
                    work.append(edge.dst)
    return state


def def_values(graph, rdefs, node, name):
    """Right-hand sides of the definitions of ``name`` reaching ``node``
    (None entries for definitions that are not plain assignments)."""
    out = []
    for dnode in sorted(rdefs.get(node, {}).get(name, ()),
                        key=lambda n: n.id):
        stmt = dnode.ast
        if dnode.kind == 'stmt' and isinstance(stmt, ast.Assign) and \
                len(stmt.targets) == 1 and \
                isinstance(stmt.targets[0], ast.Name):
            out.append(stmt.value)
        else:
            out.append(None)
    return out


def def_sites(graph, rdefs, node, name):
    """(defining node, right-hand side) of the plain assignments to
    ``name`` that reach ``node``."""
    out = []
    for dnode in sorted(rdefs.get(node, {}).get(name, ()),
                        key=lambda n: n.id):
        stmt = dnode.ast
        if dnode.kind == 'stmt' and isinstance(stmt, ast.Assign) and \
                len(stmt.targets) == 1 and \
                isinstance(stmt.targets[0], ast.Name):
            out.append((dnode, stmt.value))
    return out


class FlowSetExpr(SetExpr):
    """SetExpr whose local names are resolved flow-sensitively at a CFG
    node; when several definitions reach, every combination is evaluated
    and tables() returns the list of possible tables."""

    def __init__(self, func, graph, bases, subset=()):
        SetExpr.__init__(self, func, bases, subset)
        self.graph = graph
        self.rdefs = reaching_defs(graph)
        self.at = None
        self.choice = {}

    def member(self, expr, env, depth=0):
        if isinstance(expr, ast.Name):
            for name, recog in self.bases.items():
                try:
                    if recog(expr):
                        self._used.add(name)
                        return env[name]
                except Exception:  # pylint: disable=broad-except
                    pass
            vals = def_values(self.graph, self.rdefs, self.at, expr.id)
            if not vals:
                return None
            idx = self.choice.get(expr.id, 0)
            if idx >= len(vals) or vals[idx] is None:
                return None
            self._multi[expr.id] = len(vals)
            return self.member(vals[idx], env, depth + 1)
        if isinstance(expr, ast.Subscript) and \
                isinstance(expr.value, ast.Name) and \
                isinstance(expr.ctx, ast.Load):
            # value read back from a local dict: D[k] <- the value stored
            # with D[k] = v (evaluated where it was stored)
            dname = expr.value.id
            for _hop in range(3):
                # the dict may have been handed over under another name
                # (D = E, E a local dict)
                vals = def_values(self.graph, self.rdefs, self.at, dname)
                if vals and len(vals) == 1 and isinstance(vals[0],
                                                          ast.Name):
                    dname = vals[0].id
                else:
                    break
            stores = [n for n in self.graph.nodes if n.kind == 'stmt' and
                      isinstance(n.ast, ast.Assign) and
                      len(n.ast.targets) == 1 and
                      isinstance(n.ast.targets[0], ast.Subscript) and
                      N.txt(n.ast.targets[0].value) == dname]
            if len(stores) == 1:
                saved = self.at
                self.at = stores[0]
                try:
                    return self.member(stores[0].ast.value, env, depth + 1)
                finally:
                    self.at = saved
            return None
        if isinstance(expr, ast.Call) and callee_text(expr) in (
                'set', 'frozenset', 'dict', 'list') and not expr.args:
            return False
        return SetExpr.member(self, expr, env, depth)

    def tables(self, expr, at):
        """Possible membership tables of expr at node ``at`` (one per
        combination of reaching definitions).  Each table is projected on
        the base sets it actually refers to: regions in which an
        unreferenced base is true are dropped."""
        import itertools
        self.at = at
        self.choice = {}
        self._multi = {}
        self.used_all = None
        first = self._projected(expr)
        if first is None:
            return None
        names = sorted(k for k, v in self._multi.items() if v > 1)
        out = [first]
        if names:
            out = []
            ranges = [range(self._multi[n]) for n in names]
            for combo in itertools.product(*ranges):
                self.choice = dict(zip(names, combo))
                tab = self._projected(expr)
                if tab is None:
                    return None
                out.append(tab)
        return out

    def _projected(self, expr):
        self._used = set()
        tab = self.table(expr)
        if tab is None:
            return None
        used = set(self._used)
        self.used_all = used if self.used_all is None else \
            (self.used_all & used)
        return {region: val for region, val in tab.items()
                if region <= used}


# ---------------------------------------------------------------------------
# copy-propagated text, helper-lifted guards
# ---------------------------------------------------------------------------

_ENV_CACHE = {}


def func_env(func):
    key = id(func.node)
    if key not in _ENV_CACHE:
        try:
            graph = C.CFG(func.node.body, func)
        except Exception:                 # pylint: disable=broad-except
            graph = None
        _ENV_CACHE[key] = N.copy_env(func.node, graph)
    return _ENV_CACHE[key]


def rexpr(func, expr):
    """expr with single-assignment locals of func replaced by their
    definitions."""
    return N.subst(expr, func_env(func))


def test_expr(func, node):
    """The expression tested by a CFG test node with the function's
    single-assignment locals replaced by what they hold
    (`ok = s.renew(a); if not ok` tests `s.renew(a)`)."""
    if node.ast is None:
        return None
    return rexpr(func, node.ast)


def test_text(func, node):
    expr = test_expr(func, node)
    return N.txt(expr) if expr is not None else ''


def test_calls(func, node):
    expr = test_expr(func, node)
    return list(calls(expr)) if expr is not None else []


def rtxt(func, expr):
    """Text of expr after copy propagation of the function's locals."""
    if expr is None:
        return ''
    return N.txt(rexpr(func, expr))


def _outcome_atoms(nzc, expr, want):
    """Atoms established when ``expr`` evaluates truthy (want) / falsy: the
    atoms of a conjunction, an 'anyof' atom for a disjunction."""
    # pylint: disable=protected-access
    return nzc._flatten(nzc._formula(expr, bool(want)))


def edge_establishes(ctx, func, nz, edge, atom_pred, depth=0):
    """Taking ``edge`` establishes an atom accepted by ``atom_pred`` -
    directly, or because the edge is the outcome of a call to a helper of
    the package all of whose returns with that outcome establish one."""
    for atom in nz.facts_of_edge(edge):
        if atom.key[0] == 'anyof':
            alts = N.alternatives(atom)
            if alts and all(any(atom_pred(a) for a in alt) for alt in alts):
                return True
        elif atom_pred(atom):
            return True
    node = edge.src
    if node.kind != 'test' or edge.kind not in ('true', 'false') or \
            depth >= 2 or func is None:
        return False
    # the outcome may be that of a helper kept in a local (ok = self.check(x))
    # or one conjunct of a compound test (a(x) and b(x), taken true)
    for call, want in _call_outcomes(node.ast, edge.kind == 'true',
                                     nz.env_of(node) or {}):
        if _call_establishes(ctx, func, nz, node, call, want, atom_pred,
                             depth):
            return True
    return False


def _call_outcomes(expr, want, env, depth=0):
    """[(call, outcome)] that necessarily hold when ``expr`` evaluates to
    ``want``."""
    if depth > 4:
        return []
    if isinstance(expr, ast.Call):
        return [(expr, want)]
    if isinstance(expr, ast.Name):
        held = env.get(expr.id)
        if held is not None and not isinstance(held, ast.Name):
            return _call_outcomes(held, want, env, depth + 1)
        return []
    if isinstance(expr, ast.UnaryOp) and isinstance(expr.op, ast.Not):
        return _call_outcomes(expr.operand, not want, env, depth + 1)
    if isinstance(expr, ast.BoolOp) and (
            isinstance(expr.op, ast.And) == want):
        out = []
        for val in expr.values:
            out.extend(_call_outcomes(val, want, env, depth + 1))
        return out
    return []


def _call_establishes(ctx, func, nz, node, expr, want, atom_pred, depth):
    callee = resolve_call(ctx, func, expr)
    if callee is None or callee is func:
        return False
    # bind parameters to the (copy-propagated) argument expressions
    params = callee.params()
    if params and params[0] in ('self', 'cls') and \
            isinstance(expr.func, ast.Attribute):
        params = params[1:]
    binding = {}
    cenv = nz.env_of(node) or {}
    for idx, arg in enumerate(expr.args):
        if idx < len(params):
            binding[params[idx]] = N.subst(arg, cenv)
    for kw in expr.keywords:
        if kw.arg:
            binding[kw.arg] = N.subst(kw.value, cenv)
    env = dict(func_env(callee))
    env.update(binding)
    nzc = N.Normaliser(nz.helpers, env=env)
    graph = ctx.cfg(callee)

    def inner(edge_):
        return edge_establishes(ctx, callee, nzc, edge_, atom_pred,
                                depth + 1)
    exits = [n for n in graph.nodes if n.kind == 'return']
    falls = [e.src for e in graph.exit.pred if e.src.kind != 'return']
    found = False
    for ret in exits:
        val = ret.ast.value
        if val is None or isinstance(val, ast.Constant):
            outcome = bool(val.value) if val is not None else False
            if outcome != want:
                continue
            found = True
            if not guarded_by(graph, ret, inner, follow_exc=False):
                return False
        else:
            found = True
            atoms = _outcome_atoms(nzc, val, want)
            if any(atom_pred(a) if a.key[0] != 'anyof' else (
                    N.alternatives(a) and all(
                        any(atom_pred(x) for x in alt)
                        for alt in N.alternatives(a))) for a in atoms):
                continue
            if isinstance(val, ast.Call):
                # return other_helper(...)
                sub = resolve_call(ctx, callee, val)
                fake_ok = False
                if sub is not None and depth + 1 < 2:
                    test = C.Node(-1, 'test', val, cfg=graph)
                    fake = C.Edge(test, test, 'true' if want else 'false')
                    fake_ok = edge_establishes(ctx, callee, nzc, fake,
                                               atom_pred, depth + 1)
                if fake_ok:
                    continue
            if not guarded_by(graph, ret, inner, follow_exc=False):
                return False
    if falls and not want:
        found = True
        for node_ in falls:
            if not guarded_by(graph, graph.exit, inner, follow_exc=False):
                return False
    return found


def guarded_by_atoms(ctx, func, graph, site, atom_pred, nz=None,
                     start=None, follow_exc=True):
    """Every path to ``site`` establishes an atom accepted by atom_pred
    (directly or through a helper predicate of the package)."""
    nz = nz or N.Normaliser()
    return guarded_by(
        graph, site,
        lambda e: edge_establishes(ctx, func, nz, e, atom_pred),
        start=start, follow_exc=follow_exc)


def absorbed(ctx, func):
    """``func`` is a private helper whose every call site was inlined into
    its callers: it is analysed there, in context, and need not (must not)
    be judged on its own."""
    index = ctx.index
    # make sure the module's functions were expanded
    for other in func.module.live_functions():
        other.node  # pylint: disable=pointless-statement
    stats = getattr(index, 'inline_stats', {})
    totals = getattr(index, 'inline_totals', {})
    sites = stats.get(func.fq)
    if not sites:
        return False
    return len(sites) >= totals.get(func.fq, 10 ** 6)


def live_methods(ctx, cls):
    """Methods of a class that are analysed on their own (helpers absorbed
    by inlining are skipped)."""
    return [f for f in cls.live_methods() if not absorbed(ctx, f)]


def exact_ms_to_s(expr):
    """expr converts a ZooKeeper millisecond stamp (<meta>.ctime/.mtime/
    .created) to seconds without truncation: <stamp> / 1000[.0] or
    <stamp> * 0.001.  Returns the stamp's text or None."""
    if not isinstance(expr, ast.BinOp):
        return None
    left, right = expr.left, expr.right
    if isinstance(expr.op, ast.Div) and isinstance(right, ast.Constant) and \
            right.value in (1000, 1000.0) and \
            not isinstance(right.value, bool):
        stamp = left
    elif isinstance(expr.op, ast.Mult) and isinstance(right, ast.Constant) \
            and right.value == 0.001:
        stamp = left
    else:
        return None
    if isinstance(stamp, ast.Attribute) and \
            stamp.attr in ('ctime', 'mtime', 'created',
                           'last_modified'):
        return N.txt(stamp)
    return None


def singleton_of(func, expr, want):
    """expr is a one-element list / tuple / set display whose element is
    ``want`` (text), after copy propagation of func's locals."""
    expr = rexpr(func, expr) if func is not None else expr
    if isinstance(expr, (ast.List, ast.Tuple, ast.Set)) and \
            len(expr.elts) == 1:
        return N.txt(expr.elts[0]) == want
    return False


def list_contributions(func, name, _seen=()):
    """How the local list ``name`` of func is built.  Returns a list of
    dicts {elt, var, domains, conditional, node}: ``elt`` the element
    expression (None = every item of the single domain), ``domains`` the
    iterables it ranges over (outer to inner; [] = one element),
    ``conditional`` whether a filter / branch / jump can skip it; a dict
    {'other': node} marks any other change of the list."""
    out = []
    root = func.node
    parents = {}
    for node in ast.walk(root):
        for child in ast.iter_child_nodes(node):
            parents[child] = node

    conds_of = {}

    def context(stmt):
        domains, conditional = [], False
        conds = []
        cur = stmt
        while cur in parents and parents[cur] is not root:
            par = parents[cur]
            if isinstance(par, ast.For):
                if cur in par.body:
                    domains.insert(0, (par.target, par.iter))
                    # a jump earlier in the body may skip the statement
                    for sib in par.body:
                        if sib is cur:
                            break
                        if isinstance(sib, ast.If) and not sib.orelse and \
                                len(sib.body) == 1 and \
                                isinstance(sib.body[0], ast.Continue):
                            conds.append((sib.test, False))
                            conditional = True
                        elif any(isinstance(s, (ast.Continue, ast.Break,
                                                ast.Return, ast.Raise))
                                 for s in ast.walk(sib)):
                            conds.append((None, None))
                            conditional = True
                else:
                    conditional = True
                    conds.append((None, None))
            elif isinstance(par, ast.If):
                if not (isinstance(par.test, ast.Constant) and
                        par.test.value is True):
                    conditional = True
                    conds.append((par.test, cur in par.body))
            elif isinstance(par, (ast.While, ast.Try, ast.ExceptHandler)):
                conditional = True
                conds.append((None, None))
            cur = par
        conds_of[id(stmt)] = conds
        return domains, conditional

    def from_value(value, node, domains, conditional):
        if isinstance(value, (ast.List, ast.Tuple)):
            for elt in value.elts:
                out.append({'elt': elt, 'var': None, 'domains': domains,
                            'conditional': conditional, 'node': node})
        elif isinstance(value, ast.ListComp):
            doms = list(domains)
            cond = conditional
            for gen in value.generators:
                doms.append((gen.target, gen.iter))
                cond = cond or bool(gen.ifs)
            out.append({'elt': value.elt, 'var': value.generators[-1].target,
                        'domains': doms, 'conditional': cond, 'node': node})
        elif isinstance(value, ast.Call) and callee_text(value) in (
                'list', 'sorted') and len(value.args) == 1:
            out.append({'elt': None, 'var': None,
                        'domains': domains + [(None, value.args[0])],
                        'conditional': conditional, 'node': node,
                        'sorted': callee_text(value) == 'sorted'})
        elif isinstance(value, ast.Call) and callee_text(value) in (
                'list',) and not value.args:
            pass
        elif isinstance(value, ast.Name) and value.id != name and \
                value.id not in _seen and len(_seen) < 3:
            # X = Y: whatever was collected in the local list Y (a helper's
            # result list after inlining)
            inner = list_contributions(func, value.id, _seen + (name,))
            if not inner:
                out.append({'other': node})
            for part in inner:
                if 'other' not in part:
                    part = dict(part, conditional=part['conditional'] or
                                conditional, _done=True)
                out.append(part)
        else:
            out.append({'other': node})

    for sub in walk_no_nested(root):
        if isinstance(sub, ast.Assign) and any(
                N.txt(t) == name for t in sub.targets):
            domains, conditional = context(sub)
            from_value(sub.value, sub, domains, conditional)
        elif isinstance(sub, ast.AugAssign) and N.txt(sub.target) == name:
            domains, conditional = context(sub)
            if isinstance(sub.op, ast.Add):
                from_value(sub.value, sub, domains, conditional)
            else:
                out.append({'other': sub})
        elif isinstance(sub, ast.Expr) and isinstance(sub.value, ast.Call) \
                and isinstance(sub.value.func, ast.Attribute) and \
                N.txt(sub.value.func.value) == name:
            call = sub.value
            domains, conditional = context(sub)
            if call.func.attr == 'append' and len(call.args) == 1:
                out.append({'elt': call.args[0],
                            'var': domains[-1][0] if domains else None,
                            'domains': domains, 'conditional': conditional,
                            'node': sub})
            elif call.func.attr == 'extend' and len(call.args) == 1:
                arg = call.args[0]
                inner = None
                if isinstance(arg, ast.Name) and arg.id != name and \
                        arg.id not in _seen and len(_seen) < 3:
                    # acc.extend(part): what was collected in the local
                    # list `part` (built in this function)
                    inner = list_contributions(func, arg.id,
                                               _seen + (name,))
                    if not inner or any('other' in p for p in inner):
                        inner = None
                if inner is not None:
                    for part in inner:
                        out.append(dict(
                            part, conditional=part['conditional'] or
                            conditional, _done=True))
                else:
                    out.append({'elt': None, 'var': None,
                                'domains': domains + [(None, arg)],
                                'conditional': conditional, 'node': sub})
            else:
                out.append({'other': sub})
        elif isinstance(sub, ast.Delete) and any(
                name in N.txt(t) for t in sub.targets):
            out.append({'other': sub})
    for part in out:
        if 'other' in part or part.get('_done'):
            continue
        conds = list(conds_of.get(id(part['node']), []))
        node = part['node']
        if isinstance(node, (ast.Assign, ast.AugAssign)) and \
                isinstance(node.value, ast.ListComp):
            for gen in node.value.generators:
                conds.extend((test, True) for test in gen.ifs)
        # conds: [(test expression, outcome)] guarding the contribution;
        # (None, None) marks a guard that is not a plain condition
        part['conds'] = conds
    return out


def sequence_parts(func, expr, depth=0):
    """What a sequence expression holds, as list_contributions parts: a
    local list (its contributions), a display (one part per element), a
    concatenation `a + b`, `list(x)` / `tuple(x)`."""
    if depth > 3:
        return [{'other': expr}]
    if isinstance(expr, ast.Name):
        return list_contributions(func, expr.id) or [{'other': expr}]
    if isinstance(expr, (ast.List, ast.Tuple)):
        out = []
        for elt in expr.elts:
            if isinstance(elt, ast.Starred):
                out.extend(sequence_parts(func, elt.value, depth + 1))
            else:
                out.append({'elt': elt, 'var': None, 'domains': [],
                            'conditional': False, 'node': expr,
                            'conds': []})
        return out
    if isinstance(expr, ast.BinOp) and isinstance(expr.op, ast.Add):
        return sequence_parts(func, expr.left, depth + 1) + \
            sequence_parts(func, expr.right, depth + 1)
    if isinstance(expr, ast.Call) and callee_text(expr) in (
            'list', 'tuple') and len(expr.args) == 1 and not expr.keywords:
        return sequence_parts(func, expr.args[0], depth + 1)
    if isinstance(expr, ast.ListComp):
        doms, cond, conds = [], False, []
        for gen in expr.generators:
            doms.append((gen.target, gen.iter))
            cond = cond or bool(gen.ifs)
            conds.extend((test, True) for test in gen.ifs)
        return [{'elt': expr.elt, 'var': expr.generators[-1].target,
                 'domains': doms, 'conditional': cond, 'node': expr,
                 'conds': conds}]
    return [{'other': expr}]


def _fn_body(fdef):
    body = list(fdef.body)
    if body and isinstance(body[0], ast.Expr) and isinstance(
            body[0].value, ast.Constant) and isinstance(
                body[0].value.value, str):
        body = body[1:]
    return body


def _select_assigns(body):
    """`if T: n = A else: n = B` and `n = B; if T: n = A` as the single
    binding `n = A if T else B` (a flag chosen by a test)."""
    def single(stmts):
        if len(stmts) == 1 and isinstance(stmts[0], ast.Assign) and \
                len(stmts[0].targets) == 1 and \
                isinstance(stmts[0].targets[0], ast.Name):
            return stmts[0]
        return None
    out = []
    for stmt in body:
        if isinstance(stmt, ast.If):
            then, other = single(stmt.body), single(stmt.orelse)
            if then is not None and other is not None and \
                    then.targets[0].id == other.targets[0].id:
                out.append(ast.Assign(
                    targets=[then.targets[0]],
                    value=ast.IfExp(test=stmt.test, body=then.value,
                                    orelse=other.value)))
                continue
            prev = out[-1] if out else None
            if then is not None and not stmt.orelse and \
                    isinstance(prev, ast.Assign) and \
                    len(prev.targets) == 1 and \
                    isinstance(prev.targets[0], ast.Name) and \
                    prev.targets[0].id == then.targets[0].id and \
                    then.targets[0].id not in N.mentions(stmt.test):
                out[-1] = ast.Assign(
                    targets=[then.targets[0]],
                    value=ast.IfExp(test=stmt.test, body=then.value,
                                    orelse=prev.value))
                continue
        out.append(stmt)
    return out


def expr_of_function(fdef):
    """A tiny pure function as an expression over its parameters:
    `return E`, or `if T: return A [else:] return B` -> `A if T else B`.
    Returns the expression or None."""
    body = _select_assigns(_fn_body(fdef))
    if len(body) == 1 and isinstance(body[0], ast.Return) and \
            body[0].value is not None:
        return body[0].value
    # x = E1 ; y = E2(x) ; return R(x, y)  ->  R with the locals replaced;
    # a, b = E ; return a, b  ->  E
    if len(body) >= 2 and isinstance(body[-1], ast.Return) and \
            body[-1].value is not None and all(
                isinstance(st, ast.Assign) and len(st.targets) == 1
                for st in body[:-1]):
        ret = body[-1].value
        last = body[-2]
        if len(body) == 2 and isinstance(last.targets[0], ast.Tuple) and \
                isinstance(ret, ast.Tuple) and \
                [N.txt(e) for e in last.targets[0].elts] == \
                [N.txt(e) for e in ret.elts] and all(
                    isinstance(e, ast.Name) for e in ret.elts):
            return last.value
        # a, b = E ; return a  ->  E[0]
        if len(body) == 2 and isinstance(last.targets[0], ast.Tuple) and \
                isinstance(ret, ast.Name) and all(
                    isinstance(e, ast.Name) for e in last.targets[0].elts):
            names = [e.id for e in last.targets[0].elts]
            if names.count(ret.id) == 1 and not isinstance(
                    last.value, (ast.Tuple, ast.List)):
                return ast.Subscript(
                    value=last.value,
                    slice=ast.Constant(value=names.index(ret.id)),
                    ctx=ast.Load())
        if all(isinstance(st.targets[0], ast.Name) or (
                isinstance(st.targets[0], ast.Tuple) and
                N._unpack_defs(st.targets[0], st.value) is not None)
               for st in body[:-1]):
            import copy
            env = {}
            seen = set()
            for st in body[:-1]:
                if isinstance(st.targets[0], ast.Tuple):
                    # a, b, c = record  (record a plain name): the pieces
                    # stand for record[0], record[1], record[2]
                    for name, val in N._unpack_defs(st.targets[0],
                                                    st.value):
                        if name in seen:
                            return None
                        seen.add(name)
                        env[name] = N.subst(copy.deepcopy(val), env)
                    continue
                name = st.targets[0].id
                if name in seen:
                    return None
                seen.add(name)
                env[name] = N.subst(copy.deepcopy(st.value), env)
            out = N.subst(copy.deepcopy(ret), env)
            if N.mentions(out) & seen:
                return None     # a local could not be read through
            return out
    if body and isinstance(body[0], ast.If) and len(body[0].body) == 1 and \
            isinstance(body[0].body[0], ast.Return) and \
            body[0].body[0].value is not None:
        first = body[0]
        other = None
        if len(first.orelse) == 1 and isinstance(first.orelse[0],
                                                 ast.Return) and \
                len(body) == 1:
            other = first.orelse[0].value
        elif not first.orelse and len(body) == 2 and \
                isinstance(body[1], ast.Return):
            other = body[1].value
        if other is not None:
            return ast.IfExp(test=first.test, body=first.body[0].value,
                             orelse=other)
    return None


def inline_expr_call(index, func, call):
    """The value of ``call`` as an expression in the caller's terms when
    the callee is a tiny pure function (nested in func, in its module, or a
    static/plain method) - else None."""
    import copy
    fdef = None
    if isinstance(call.func, ast.Name):
        nested = func.nested() if hasattr(func, 'nested') else {}
        if call.func.id in nested:
            fdef = nested[call.func.id].raw
    if fdef is None:
        callee = index.resolve_call(func, call)
        if callee is not None:
            fdef = callee.raw
    if fdef is None:
        return None
    expr = expr_of_function(fdef)
    if expr is None:
        return None
    params = [a.arg for a in fdef.args.args]
    if params and params[0] in ('self', 'cls') and \
            isinstance(call.func, ast.Attribute):
        params = params[1:]
    if len(params) != len(call.args) or call.keywords:
        return None
    env = dict(zip(params, call.args))
    return N.subst(copy.deepcopy(expr), env)


def sort_key_tuple(index, func, call):
    """(key function FuncInfo | None, parameter name, tuple expression) of a
    sorted(..., key=K) call inside func, K a lambda, a nested function, a
    module-level function or a method."""
    keyf = kwarg(call, 'key')
    keyfunc, param, tup = None, None, None
    if isinstance(keyf, ast.Lambda):
        param = keyf.args.args[0].arg
        tup = keyf.body
    elif isinstance(keyf, ast.Name) and keyf.id in func.nested():
        keyfunc = func.nested()[keyf.id]
    elif isinstance(keyf, (ast.Name, ast.Attribute)):
        res = index.resolve_expr(func.module, keyf)
        if res and res[0] == 'func':
            keyfunc = res[1]
        elif isinstance(keyf, ast.Attribute) and func.cls is not None and \
                N.txt(keyf.value) in ('self', func.cls.name):
            keyfunc = index.find_method(func.cls, keyf.attr)
    if keyfunc is not None:
        params = [p for p in keyfunc.params() if p not in ('self', 'cls')]
        param = params[0] if params else None
        rets = [s for s in walk_no_nested(keyfunc.node)
                if isinstance(s, ast.Return)]
        tup = rets[0].value if len(rets) == 1 else None
        whole = expr_of_function(keyfunc.raw)
        if isinstance(whole, ast.Tuple):
            tup = whole         # locals of the key function read through
    return keyfunc, param, tup


def placed_first(index, func, expr, param):
    """expr orders placed instances before pending ones: 0 if p.server
    else 1 / not p.server / p.server is None, directly or through a tiny
    helper."""
    if isinstance(expr, ast.Call):
        inner = inline_expr_call(index, func, expr)
        if inner is not None:
            expr = inner
    # int(<flag>) / bool(<flag>) order like the flag itself (False < True)
    while isinstance(expr, ast.Call) and callee_text(expr) in ('int', 'bool') \
            and len(expr.args) == 1 and not expr.keywords:
        expr = expr.args[0]
    if isinstance(expr, ast.IfExp) and \
            isinstance(expr.body, ast.Constant) and \
            isinstance(expr.orelse, ast.Constant):
        if N.txt(expr.test) == '%s.server' % param:
            return expr.body.value < expr.orelse.value
        if N.txt(expr.test) in ('not %s.server' % param,
                                '%s.server is None' % param):
            return expr.body.value > expr.orelse.value
    return N.txt(expr) in ('not %s.server' % param,
                           '%s.server is None' % param)


def value_at(func, graph, node, expr, depth=0):
    """What ``expr`` evaluates to at ``node`` in terms of the state when its
    locals were bound: a Name with one definition D stands for D's value,
    provided nothing D reads (fields, subscripts) is stored between D and
    ``node``.  Unlike copy propagation this is about the value used by one
    statement, so a store performed by ``node`` itself does not matter."""
    if not isinstance(expr, ast.Name) or depth > 3:
        return expr
    dnodes = [n for n in graph.nodes if n.kind == 'stmt' and
              isinstance(n.ast, ast.Assign) and len(n.ast.targets) == 1 and
              isinstance(n.ast.targets[0], ast.Name) and
              n.ast.targets[0].id == expr.id]
    others = [n for n in graph.nodes if n not in dnodes and
              expr.id in (N.assigned_targets(n) | N.for_targets(n))]
    if len(dnodes) != 1 or others:
        return expr
    dnode = dnodes[0]
    val = dnode.ast.value
    paths = set(N.txt(sub) for sub in ast.walk(val)
                if isinstance(sub, (ast.Subscript, ast.Attribute)))
    after_def = C.reach_after(dnode)
    for cand in graph.nodes:
        if cand is node or cand.ast is None or cand.kind != 'stmt':
            continue
        stores = [sub for sub in ast.walk(cand.ast)
                  if isinstance(sub, (ast.Subscript, ast.Attribute)) and
                  isinstance(sub.ctx, (ast.Store, ast.Del)) and
                  N.txt(sub) in paths]
        if stores and cand in after_def and node in C.reach_after(cand):
            return expr
    return value_at(func, graph, dnode, val, depth + 1) \
        if isinstance(val, ast.Name) else val


_FS_MUTATORS = {
    'os.symlink': 1, 'os.link': 1, 'os.rename': None, 'os.replace': None,
    'os.unlink': 0, 'os.remove': 0, 'os.rmdir': 0, 'os.mkdir': 0,
    'os.makedirs': 0, 'shutil.rmtree': 0, 'shutil.move': None,
    'shutil.copy': 1, 'shutil.copyfile': 1, 'fs.symlink_safe': 0,
    'fs.rm_safe': 0, 'fs.rmtree_safe': 0, 'fs.write_safe': 0,
    'fs.replace': None, 'fs.mkdir_safe': 0, 'io.open': 0, 'open': 0,
    'fs.mkfile_safe': 0, 'fs.link_safe': 1,
}


def fs_mutations(index, attr):
    """Whole-package list of (func, call, api) where a file-system mutating
    call is applied to a path whose (copy-propagated) text reads the
    environment directory attribute ``attr`` (e.g. 'running_dir').  Opening
    a file counts only in a writing mode."""
    index.load_all()
    out = []
    for mod in index.modules.values():
        if '.tests' in mod.name or attr not in mod.source:
            continue
        for func in mod.live_functions():
            for sub in walk_no_nested(func.node):
                if not isinstance(sub, ast.Call):
                    continue
                api = callee_text(sub)
                if api not in _FS_MUTATORS:
                    continue
                which = _FS_MUTATORS[api]
                args = list(sub.args) if which is None else (
                    sub.args[which:which + 1])
                if api in ('io.open', 'open'):
                    mode = sub.args[1] if len(sub.args) > 1 else \
                        kwarg(sub, 'mode')
                    if not (isinstance(mode, ast.Constant) and any(
                            ch in str(mode.value) for ch in 'wax+')):
                        continue
                texts = [rtxt(func, a) for a in args]
                if any(('.%s' % attr) in t or t == attr for t in texts):
                    out.append((func, sub, api))
    return out


def owner_clause(ctx, rule, attr, owners, what, minimum=1, ignore=None):
    """OWNER over the whole package: the directory ``attr`` of the node
    environment is changed only by the listed (module, class) owners.
    ``owners`` maps (module, class|'*') to None (any mutation) or to the set
    of APIs that owner may use; ``ignore(func, call)`` drops sites that are
    about another object with an attribute of the same name."""
    hits = fs_mutations(ctx.index, attr)
    inside = 0
    for func, call, api in hits:
        if ignore is not None and ignore(func, call):
            continue
        owner = (func.module.name, func.cls.name if func.cls else None)
        if owner not in owners and (owner[0], '*') in owners:
            owner = (owner[0], '*')
        ok = owner in owners and (owners[owner] is None or
                                  api in owners[owner])
        inside += ok
        ctx.ob(rule, func, call, ok,
               '%s is changed only by %s (%s here)' % (what, sorted(
                   '%s.%s' % (m.split('.')[-1], c) for m, c in owners), api)
               if ok else
               '%s is changed by %s outside its owners %s: the rules of '
               'this property do not see that writer' % (
                   what, api, sorted('%s.%s' % (m.split('.')[-1], c)
                                     for m, c in owners)),
               construct='%s %s' % (api, attr))
    ctx.require(inside >= minimum, 'writers of %s inside the owners (found '
                                   '%d)' % (attr, inside), rule=rule)


_ZK_WRITES = ('create', 'put', 'set', 'delete', 'ensure_deleted',
              'ensure_exists', 'update', 'set_data', 'create_ephemeral')


def zk_path_writers(index, kinds):
    """Whole-package list of (func, call, kind): ZooKeeper write calls one of
    whose first arguments is (after copy propagation) a z.path.<kind>(...)
    node."""
    index.load_all()
    out = []
    needles = ['path.%s(' % k for k in kinds]
    for mod in index.modules.values():
        if '.tests' in mod.name or not any(n in mod.source for n in needles):
            continue
        for func in mod.live_functions():
            for sub in walk_no_nested(func.node):
                if not isinstance(sub, ast.Call):
                    continue
                name = callee_text(sub).split('.')[-1]
                if name not in _ZK_WRITES:
                    continue
                texts = [rtxt(func, a) for a in sub.args[:3]]
                for kind in kinds:
                    if any('path.%s(' % kind in t for t in texts):
                        out.append((func, sub, kind))
                        break
    return out


def namedtuple_fields(index, module, ctor):
    """Field names of the namedtuple class the expression ``ctor`` names
    (a module-level  X = collections.namedtuple('X', [...] | 'a b')  or a
    class deriving from one), else None."""
    name = N.txt(ctor)
    expr = module.consts.get(name)
    if expr is None and name in module.classes:
        for base in module.classes[name].node.bases:
            if isinstance(base, ast.Call):
                expr = base
    if not (isinstance(expr, ast.Call) and
            callee_text(expr).endswith('namedtuple') and
            len(expr.args) >= 2):
        return None
    spec = expr.args[1]
    if isinstance(spec, (ast.List, ast.Tuple)) and all(
            isinstance(e, ast.Constant) for e in spec.elts):
        return [e.value for e in spec.elts]
    if isinstance(spec, ast.Constant) and isinstance(spec.value, str):
        return spec.value.replace(',', ' ').split()
    return None


def record_stores(index, func, stmt):
    """What an assignment records, field by field: [(path text, value)].
    A plain store gives one pair; a namedtuple / dict display / tuple value
    gives one pair per field (T.f, T['k'], T[i])."""
    if not (isinstance(stmt, ast.Assign) and len(stmt.targets) == 1):
        return []
    tgt, val = stmt.targets[0], stmt.value
    base = N.txt(tgt)
    out = [(base, val)]
    if isinstance(val, ast.Call) and not val.keywords:
        fields = namedtuple_fields(index, func.module, val.func)
        if fields and len(fields) == len(val.args):
            for idx, (fld, arg) in enumerate(zip(fields, val.args)):
                out.append(('%s.%s' % (base, fld), arg))
                out.append(('%s[%d]' % (base, idx), arg))
    elif isinstance(val, ast.Call) and val.keywords and not val.args:
        fields = namedtuple_fields(index, func.module, val.func)
        if fields:
            for kw in val.keywords:
                out.append(('%s.%s' % (base, kw.arg), kw.value))
    elif isinstance(val, ast.Dict):
        for key, item in zip(val.keys, val.values):
            if isinstance(key, ast.Constant):
                out.append(('%s[%r]' % (base, key.value), item))
    elif isinstance(val, ast.Tuple):
        for idx, item in enumerate(val.elts):
            out.append(('%s[%d]' % (base, idx), item))
    return out


def upward_walk(graph):
    """An iterative walk up the tree:  v = self ; while ...: ... ;
    v = v.parent.  Returns (var, loop head, advancing nodes) or None."""
    for head in graph.nodes:
        if head.kind != 'loop_head' or head.ast is None or \
                not isinstance(head.ast, ast.While):
            continue
        body = loop_body_nodes(head)
        adv = [n for n in body if n.kind == 'stmt' and
               isinstance(n.ast, ast.Assign) and
               isinstance(n.ast.targets[0], ast.Name) and
               N.txt(n.ast.value) == '%s.parent' % n.ast.targets[0].id]
        if not adv:
            continue
        var = adv[0].ast.targets[0].id
        inits = [n for n in graph.nodes if n.kind == 'stmt' and
                 isinstance(n.ast, ast.Assign) and
                 N.txt(n.ast.targets[0]) == var and n not in body]
        if not inits or any(N.txt(n.ast.value) != 'self' for n in inits):
            continue
        return var, head, adv
    return None


def walk_covers(graph, walk, applies):
    """The walk applies ``applies(node)`` at every level from self to the
    root: no way round the loop without applying and advancing, and the loop
    is left only above the root (v falsy / None before the application, or
    v.parent falsy / None after it).  Returns (ok, detail)."""
    var, head, adv = walk
    nz = N.Normaliser()
    body = loop_body_nodes(head)
    hits = [n for n in body if applies(n)]
    if not hits:
        return False, 'nothing applied inside the walk'
    if find_path(head, [head], cut_node=lambda n: n in hits,
                 follow_exc=False) is not None:
        return False, 'a level can be passed without the application'
    if find_path(head, [head], cut_node=lambda n: n in adv,
                 follow_exc=False) is not None:
        return False, 'a round of the walk does not advance to the parent'
    def roots(edge_):
        top = parent = False
        for atom in nz.facts_of_edge(edge_):
            key = atom.key
            falsy = (key[0] == 'truth' and not key[2]) or (
                key[0] == 'is' and key[2] == 'None' and key[3])
            if falsy and key[1] == var:
                top = True
            if falsy and key[1] == '%s.parent' % var:
                parent = True
        return top, parent
    for edge in loop_exit_edges(head):
        if edge.kind == 'exc':
            continue
        before, parent = roots(edge)
        at_root = before or parent
        if not at_root:
            # a break / return behind the root test
            before = guarded_by(graph, edge.src,
                                lambda e: roots(e)[0], start=head)
            at_root = before or guarded_by(
                graph, edge.src, lambda e: roots(e)[1], start=head)
        if not at_root:
            return False, 'the walk can be left below the root (%s)' % \
                edge.src.text(40)
        if not before and not guarded_by(
                graph, edge.src, lambda e: e.src in hits, start=head):
            return False, 'the last level is left before the application'
    return True, 'applied at every level up to the root'
