"""Shared model of the scheduler's placement loop (Cell._find_placements):
the product of its CFG with the (placed, identity) automaton.

placed in {'Y','N','?'}; identity in {'clean','held'} (held = may hold).
Entry state of an iteration: ('?', 'held') - instances un-placed between
cycles (server removed / reloaded) legitimately still hold an identity.
"""

import ast

from .. import cfg as C
from .. import norm as N
from . import common as K


class PlacementLoop(object):
    def __init__(self, ctx):
        self.ctx = ctx
        cell = ctx.index.get_class(K.SCHED, 'Cell')
        self.cell = cell
        cands = K.methods_calling(cell, 'acquire_identity')
        if len(cands) > 1:
            # the placement loop is the one that also places the instance
            # it took the identity for; any other caller is reported by
            # acquire_owner (C05.1 / C09.2), it does not hide the loop
            placing = [f for f in cands
                       if K.func_calls_method(f, 'put') and
                       K.func_calls_method(f, 'feasible')]
            if len(placing) == 1:
                cands = placing
        func = K.one(cands, 'Cell method that calls acquire_identity()')
        graph = ctx.cfg(func)
        sites = K.nodes_calling(
            graph, lambda c: K.is_meth(c, 'acquire_identity'))
        node, call = sites[0]
        var = N.txt(K.recv(call))
        head = K.enclosing_for(graph, node, var)
        ctx.require(head is not None, 'for-loop over the instance that '
                                      'calls acquire_identity')
        self.func, self.graph, self.head, self.var = func, graph, head, var
        self.acquire_node = node
        self.nz = N.Normaliser(N.VecHelpers(func.module))
        self.server_txt = '%s.server' % var
        aliases = {}
        counts = {}
        for sub in K.walk_no_nested(func.node):
            if isinstance(sub, ast.Assign) and len(sub.targets) == 1 and \
                    isinstance(sub.targets[0], ast.Name):
                name = sub.targets[0].id
                counts[name] = counts.get(name, 0) + 1
                if isinstance(sub.value, ast.Call):
                    aliases[name] = sub.value
        self.aliases = {k: v for k, v in aliases.items()
                        if counts.get(k) == 1}
        self._reached = None

    # -- event recognisers -------------------------------------------------
    def releases(self, call):
        var = self.var
        if K.is_meth(call, 'release_identity') and \
                N.txt(K.recv(call)) == var:
            return True
        callee = K.resolve_call(self.ctx, self.func, call)
        if callee is not None and callee is not self.func:
            param = K.call_passes_as(call, callee, var)
            if param and K.callee_always_calls(self.ctx, callee, param,
                                               'release_identity'):
                return True
        return False

    def places(self, call):
        """<x>.put(var) / <x>.restore(var, ...)"""
        return K.is_meth(call, 'put', 'restore') and call.args and \
            N.txt(call.args[0]) == self.var

    def removes(self, call):
        return K.is_meth(call, 'remove', 'remove_app') and call.args and \
            N.txt(call.args[0]) == '%s.name' % self.var

    def step(self, edge, state):
        # pylint: disable=too-many-branches
        placed, ident = state
        node = edge.src
        var, server_txt, aliases = self.var, self.server_txt, self.aliases
        if node is self.head and edge.kind == 'iter':
            return [('?', 'held')]
        if edge.kind == 'exc':
            return []          # exceptional exits abort the whole cycle
        if node.kind == 'test':
            atom = self.nz.atom(node.ast)
            truth = edge.kind == 'true'
            key = atom.key
            if key[0] == 'truth' and key[1] == server_txt:
                val = truth == key[2]
                if placed == ('N' if val else 'Y'):
                    return []          # infeasible branch
                placed = 'Y' if val else 'N'
            elif key[0] == 'is' and key[1] == server_txt and \
                    key[2] == 'None':
                is_none = truth == key[3]
                if placed == ('Y' if is_none else 'N'):
                    return []
                placed = 'N' if is_none else 'Y'
            elif key[0] == 'truth' and key[1] in aliases and \
                    isinstance(node.ast, ast.Name):
                call = aliases[key[1]]
                val = truth == key[2]
                if K.is_meth(call, 'acquire_identity') and \
                        N.txt(K.recv(call)) == var:
                    ident = 'held' if val else 'clean'
                elif self.places(call):
                    if val:
                        placed = 'Y'
                    elif placed == 'N?':
                        placed = 'N'
            else:
                for call in K.calls(node.ast):
                    if K.is_meth(call, 'acquire_identity') and \
                            N.txt(K.recv(call)) == var and \
                            node.ast is call:
                        ident = 'held' if truth else 'clean'
                    elif self.places(call) and node.ast is call:
                        if truth:
                            placed = 'Y'
                    elif self.places(call):
                        placed = '?'
                    elif self.removes(call):
                        placed = 'N'
                    elif self.releases(call):
                        ident = 'clean'
            return [(placed, ident)]
        if node.kind in ('stmt', 'return'):
            for call in K.calls(node):
                if self.removes(call):
                    placed = 'N'
                elif self.releases(call):
                    ident = 'clean'
                elif self.places(call):
                    tgt = node.ast.targets[0] if isinstance(
                        node.ast, ast.Assign) and len(
                            node.ast.targets) == 1 else None
                    if isinstance(tgt, ast.Name) and tgt.id in aliases:
                        # outcome pending until the alias is tested
                        if placed == 'N':
                            placed = 'N?'
                        elif placed != 'Y':
                            placed = '?'
                    else:
                        # unconditional restore: trusted to succeed
                        placed = 'Y'
                elif K.is_meth(call, 'acquire_identity') and \
                        N.txt(K.recv(call)) == var:
                    ident = 'held'
            for tgt, val, kind in K.assigns_attr(node):
                if N.txt(tgt) == '%s.identity' % var and kind == 'assign' \
                        and isinstance(val, ast.Constant) and \
                        val.value is None:
                    ident = 'clean'
                if N.txt(tgt) == server_txt and kind == 'assign':
                    if isinstance(val, ast.Constant) and val.value is None:
                        placed = 'N'
                    else:
                        placed = '?'
            return [(placed, ident)]
        return [(placed, ident)]

    @property
    def reached(self):
        if self._reached is None:
            self._reached = C.explore(self.graph, [('?', 'held')],
                                      self.step, start=self.head)
        return self._reached

    def states_before(self, node):
        return set(state for (n, state) in self.reached if n is node)

    def witness_to(self, node, pred):
        for (n, state) in self.reached:
            if n is node and pred(state):
                return C.witness(self.reached, (n, state))
        return None

    def body(self):
        return K.loop_body_nodes(self.head)


def placement_mutators(index):
    """Names of scheduler-module routines that may change an instance's
    server or expiry: those assigning <x>.server / <x>.placement_expiry, and
    (fixed point) those calling a routine of such a name."""
    mod = index.module(K.SCHED)
    funcs = []
    for cls in mod.classes.values():
        funcs.extend(cls.live_methods())
    funcs.extend(mod.live_functions())
    names = set()
    for func in funcs:
        for sub in K.walk_no_nested(func.node):
            tgts = sub.targets if isinstance(sub, ast.Assign) else (
                [sub.target] if isinstance(sub, ast.AugAssign) else [])
            for tgt in tgts:
                if isinstance(tgt, ast.Attribute) and \
                        tgt.attr in ('server', 'placement_expiry') and \
                        func.name != '__init__':
                    names.add(func.name)
    changed = True
    while changed:
        changed = False
        for func in funcs:
            if func.name in names or func.name == '__init__':
                continue
            for sub in K.walk_no_nested(func.node):
                if isinstance(sub, ast.Call) and \
                        isinstance(sub.func, ast.Attribute) and \
                        sub.func.attr in names:
                    names.add(func.name)
                    changed = True
                    break
    return names


def snapshot_brackets(ctx, rule):
    """Cell.schedule() reports every change: its before-snapshot is taken
    before, its after-snapshot after every routine that may change a
    placement, both over the same list, and the result pairs them."""
    cell = ctx.index.get_class(K.SCHED, 'Cell')
    func = cell.methods.get('schedule')
    ctx.require(func is not None, 'Cell.schedule')
    graph = ctx.cfg(func)
    snaps = []
    for node in graph.nodes:
        if node.kind == 'stmt' and isinstance(node.ast, ast.Assign) and \
                isinstance(node.ast.value, ast.ListComp) and \
                isinstance(node.ast.targets[0], ast.Name):
            comp = node.ast.value
            var = N.txt(comp.generators[0].target)
            reads = set(N.txt(s) for s in ast.walk(comp.elt)
                        if isinstance(s, ast.Attribute))
            if '%s.server' % var in reads and \
                    '%s.placement_expiry' % var in reads:
                snaps.append((node, comp, var, reads))
    ctx.require(len(snaps) == 2, 'before/after snapshots in Cell.schedule '
                                 '(found %d)' % len(snaps), rule=rule)
    order = C.reach_after(snaps[0][0], edge_ok=C.no_exc)
    if snaps[1][0] not in order:
        snaps.reverse()
    (bnode, bcomp, bvar, breads), (anode, acomp, _avar, _ar) = snaps
    ctx.ob(rule, func, bnode,
           N.txt(bcomp.generators[0].iter) ==
           N.txt(acomp.generators[0].iter) and
           not bcomp.generators[0].ifs and not acomp.generators[0].ifs and
           '%s.name' % bvar in breads,
           'both snapshots range over the same unfiltered list and the '
           'first carries the instance name',
           construct='snapshot domains')
    names = placement_mutators(ctx.index)
    ctx.require('remove' in names and 'put' in names,
                'placement mutators of the scheduler', rule=rule)
    changers = [n for n in graph.nodes for c in C.node_calls(n)
                if isinstance(c.func, ast.Attribute) and
                c.func.attr in names]
    ctx.require(len(changers) >= 3, 'placement-changing calls in '
                                    'Cell.schedule', rule=rule)
    for node in changers:
        before_ok = K.guarded_by(graph, node, lambda e: e.src is bnode)
        after_ok = node not in C.reach_after(anode, edge_ok=C.no_exc)
        ctx.ob(rule, func, node, before_ok and after_ok,
               'a routine that may change placements runs between the '
               'before- and the after-snapshot, so the change is reported '
               'and published' if before_ok and after_ok else
               'a routine that may change placements runs outside the '
               'before/after snapshots: its changes are not reported, the '
               'stored records keep the old server',
               construct='%s inside the snapshots' % node.text(50))
    rets = [n for n in graph.nodes if n.kind == 'return' and
            n.ast.value is not None]
    defs = {}
    for sub in K.walk_no_nested(func.node):
        if isinstance(sub, ast.Assign) and \
                isinstance(sub.targets[0], ast.Name):
            defs.setdefault(sub.targets[0].id, []).append(sub.value)
    bname = bnode.ast.targets[0].id
    aname = anode.ast.targets[0].id
    for ret in rets:
        val = ret.ast.value
        vals = defs.get(val.id, [val]) if isinstance(val, ast.Name) else [val]
        txt = ' '.join(N.txt(v) for v in vals)
        ctx.ob(rule, func, ret,
               'zip(%s, %s)' % (bname, aname) in txt.replace(
                   'six.moves.zip', 'zip'),
               'the result pairs the two snapshots position by position',
               construct='result = zip(before, after)')


def acquire_owner(ctx, rule):
    """An identity is taken only by the placement loop: there the typestate
    analysis ties it to a placement made (or the identity given back) in the
    same iteration, and the placement that follows takes a fresh expiry, so
    the new identity is published.  Any other caller of acquire_identity
    changes an identity outside both arguments."""
    loop = PlacementLoop(ctx)
    index = ctx.index
    mods = [index.module(K.SCHED), index.module(K.LOADER),
            index.module(K.MASTER)]
    count = 0
    for mod in mods:
        for func in mod.live_functions():
            if func.name == 'acquire_identity':
                continue
            for call in K.calls(func.node):
                if not K.is_meth(call, 'acquire_identity'):
                    continue
                count += 1
                ctx.ob(rule, func, call, func is loop.func,
                       'acquire_identity is called by the placement loop '
                       '(%s) only' % loop.func.qualname,
                       construct='caller of acquire_identity')
    ctx.require(count >= 1, 'a caller of acquire_identity', rule=rule)


def loop_always_run(ctx, rule):
    """The routine that schedules one partition hands its queue to the
    placement loop on every path: the loop is where instances over the cap,
    blacklisted or left without a server give up identity and placement, so
    a cycle that returns before it ("nothing pending", "no server in the
    partition") leaves them as they were."""
    loop = PlacementLoop(ctx)
    cell = ctx.index.get_class(K.SCHED, 'Cell')
    callers = [f for f in cell.live_methods() if f is not loop.func and
               K.func_calls_method(f, loop.func.name)]
    ctx.require(callers, 'caller of %s' % loop.func.qualname, rule=rule)
    for func in callers:
        graph = ctx.cfg(func)
        hits = [n for n, _c in K.nodes_calling(
            graph, lambda c: K.is_meth(c, loop.func.name))]
        path = K.find_path(graph.entry, [graph.exit],
                           cut_node=lambda n: n in hits, follow_exc=False)
        ctx.ob(rule, func, hits[0] if hits else None,
               bool(hits) and path is None,
               'the queue of the partition goes through the placement loop '
               '(%s) on every path of %s' % (loop.func.name, func.name),
               path=K.describe(path) if path else None,
               construct='placement loop always run by %s' % func.name)
