"""C02 - an instance that fits an eligible up server is not left pending:
pruning aggregates are upper bounds, memo skips only dominated demands."""

import ast

from .. import cfg as C
from .. import norm as N
from ..index import dotted_text
from . import common as K
from .sched_model import PlacementLoop

EXPLANATION = """
C02.1 the bucket's free-capacity aggregate is an upper bound: combined with
the component-wise maximum in both adjust routines, recomputed over exactly
the children that are up, and every Server routine that raises its free
capacity / becomes up calls the parent's adjust-up, every one that lowers it
/ leaves up calls adjust-down (only a missing parent may bypass the call);
trait sets combine with |= and are tested with (agg & t) == t, labels with
set union; add_node/remove_node propagate/withdraw what the child
contributes.  C02.2 the adjust-down shortcut returns only under
ALL(prev < aggregate).  C02.3 the feasibility memo answers 'infeasible' only
under ALL(demand >= recorded) and replaces a record only under
ALL(demand <= recorded).  C02.4 SHAPE-COMPLETE: every attribute of the
instance read by the admission predicates is captured by the memo key or the
compared demand.  C02.5 the bucket walk advances over children that are not
up instead of leaving the loop.  C02.6 identity release (shared with C05.1).
C02.7 exact fit is admitted (capacity guard non-strict on the accept side,
affinity count < limit).
Added by the seeding rounds - C02.1 trait propagation refreshes the parent's
entry on every path; C02.4 the feasibility memo reads only guarding tests of
put and keys on required traits; C02.5 the bucket gives up before walking its
children only on the admission predicate, with no child, or after a successful
put; C02.7 check_app_constraints rejects only on label / traits / affinity
limit / ANY(free < demand), and decrement_affinity withdraws the whole
multiset (shared with C04). Fourth round: C02.4 the feasibility memo consulted
by a placement walk is created by that walk, on every path (never handed in
across partitions); C02.6 also covers the deletion path (shared with C05.2).
Sweep: C02.1 / C02.6 the accumulation over children and the placement walk over the queue are never cut short (no break or return inside the loop).
Sixth round: C02.1 Server.remove gives capacity back additively (found by role); the fold of the children traits is judged on the attribute or on a local stored afterwards; C02.5 the cursor of each placement strategy indexes the sequence whose length bounds and wraps it, and the walk is left only on the wrap comparison (also through a named boolean).
Seventh round: C02.6 the routines that decide whether an instance holds an identity test `is None`, never the truth value (identity 0 is an identity; shared with C05).
Eighth round: C02.1 TraitSet.add stores the child's entry and folds the aggregate again on every path, TraitSet.remove skips the deletion only for a child without an entry; C02.7 the affinity of an instance is set by its constructor only (shared with C04.1).
Ninth round: C02.4 the memo key keeps the level of every affinity limit - where the key closure reads the limits mapping, one read takes its items or a subscript per level (F19: Affinity.constraints carries sorted values only, so {'rack': 1} and {'server': 1} shared a record; repaired in /repo). Also C02.4: a derived attribute (Allocation.constraints) covers a source attribute in the memo key only while every method that re-assigns the source refreshes it; C02.1 the recompute routine is located by role (it looks at the children) and a vector written through out= counts as a store.
Tenth round: C02.5 a placement strategy wraps its kept index for every value at or beyond the end of the children (the list can be rebound shorter by the reload of the cell; F30, repaired in /repo); C02.3 the memo rule reads the key helper by role; C02.7 the head-room answer may be spelled True / False under count < limit and its negation.
Does NOT decide the liveness statement as a whole (quiescent states reached
by histories) nor the strategies' index arithmetic.
"""

ASSUMPTIONS = [
    'np.maximum is the component-wise maximum; set.update is union',
    'strategy.next_node() eventually returns the first suggested node again '
    '(index arithmetic of the strategies is not analysed)',
]

MIN_OBLIGATIONS = 25
MIN_PER_RULE = {'C02.1': 12, 'C02.2': 1, 'C02.3': 2, 'C02.4': 6, 'C02.5': 1,
                'C02.6': 4, 'C02.7': 2}


def _stores_attr(func, text):
    out = []
    for sub in K.walk_no_nested(func.node):
        if isinstance(sub, ast.Assign) and any(N.txt(t) == text
                                               for t in sub.targets):
            out.append(sub)
        elif isinstance(sub, ast.AugAssign) and N.txt(sub.target) == text:
            out.append(sub)
        elif isinstance(sub, ast.Call) and any(
                kw.arg == 'out' and N.txt(kw.value) == text
                for kw in sub.keywords):
            out.append(sub)         # written in place through out=
    return out


def _is_max_of(expr, *operands):
    if not (isinstance(expr, ast.Call) and
            (dotted_text(expr.func) or '').split('.')[-1] in
            ('maximum', 'fmax') and len(expr.args) == 2):
        return False
    have = sorted(N.txt(a) for a in expr.args)
    return have == sorted(operands)


def _parent_call_after(ctx, func, graph, start, method, arg=None,
                       rule='C02.1', what=''):
    """Every normal path from ``start`` to the exit passes
    self.parent.<method>(...) - only the falsy edge of `self.parent` may
    bypass it."""
    nz = N.Normaliser()

    def calls_it(node):
        for call in C.node_calls(node):
            if K.is_meth(call, method) and \
                    (K.recv_text(call) or '').endswith('parent'):
                accepted = (arg,) if isinstance(arg, str) else arg
                if arg is None or (call.args and
                                   N.txt(call.args[0]) in accepted):
                    return True
        return False

    def no_parent(edge):
        return K.truth_edge(nz, edge, 'self.parent', False) or any(
            a.key[0] == 'is' and a.key[1] == 'self.parent' and
            a.key[2] == 'None' and a.key[3]
            for a in nz.facts_of_edge(edge))
    path = K.find_path(start, [graph.exit], cut_node=calls_it,
                       cut_edge=no_parent, follow_exc=False)
    ctx.ob(rule, func, start, path is None,
           what or 'followed on every path by parent.%s(%s)' % (
               method, (arg if isinstance(arg, str) else
                        (arg or ['...'])[0]) or '...'),
           path=K.describe(path) if path else None,
           construct='%s => parent.%s' % (start.text(70), method))


def _aggregates(ctx):
    index = ctx.index
    bucket = index.get_class(K.SCHED, 'Bucket')
    server = index.get_class(K.SCHED, 'Server')
    node_cls = index.get_class(K.SCHED, 'Node')
    nz = N.Normaliser(N.VecHelpers(index.module(K.SCHED)))

    writers = [f for f in bucket.live_methods()
               if _stores_attr(f, 'self.free_capacity')]
    writers = [f for f in writers if f.name != '__init__']
    # by role: the writer that looks at the children (a loop, or any other
    # walk over them)
    downs = [f for f in writers if any(
        isinstance(s, ast.For) for s in K.walk_no_nested(f.node)) or any(
            isinstance(s, ast.Attribute) and s.attr in (
                'children', 'children_iter', 'children_by_name')
            for s in K.walk_no_nested(f.node))]
    down = K.one(downs, 'Bucket routine recomputing the aggregate over the '
                        'children')
    up = K.one([f for f in writers if f is not down],
               'Bucket routine raising the aggregate')
    ctx.ok('C02.1', bucket.methods.get('__init__', up), None,
           'aggregate written only by %s and %s' % (up.name, down.name),
           construct='writers of Bucket.free_capacity')

    # adjust-up: maximum + propagate
    graph = ctx.cfg(up)
    for node in graph.nodes:
        if node.kind == 'stmt' and isinstance(node.ast, ast.Assign) and \
                N.txt(node.ast.targets[0]) == 'self.free_capacity':
            good = _is_max_of(
                K.value_at(up, graph, node, K.rexpr(up, node.ast.value)),
                'self.free_capacity', up.params()[1])
            ctx.ob('C02.1', up, node, good,
                   'aggregate raised with the component-wise maximum')
            _parent_call_after(ctx, up, graph, node, up.name,
                               ('self.free_capacity',
                                N.txt(node.ast.value)))

    # adjust-down: recomputation over exactly the up children
    graph = ctx.cfg(down)
    facts = N.must_facts(graph, nz)
    acc = None
    loops = [n for n in graph.nodes if n.kind == 'for']
    for node in graph.nodes:
        if node.kind == 'stmt' and isinstance(node.ast, ast.Assign) and \
                isinstance(node.ast.targets[0], ast.Name) and \
                K.enclosing_for(graph, node) is not None and \
                'free_capacity' in N.txt(node.ast.value):
            acc = node
    ctx.require(acc is not None and loops,
                'accumulation over the children in %s' % down.qualname,
                    rule='C02.1')
    loop = K.enclosing_for(graph, acc)
    ctx.require(loop is not None, 'child loop of %s' % down.qualname,
        rule='C02.1')
    child = sorted(N.for_targets(loop))[0]
    accname = N.txt(acc.ast.targets[0])
    good = _is_max_of(acc.ast.value, accname, '%s.free_capacity' % child)
    ctx.ob('C02.1', down, acc, good,
           'recomputation accumulates maximum(acc, child.free_capacity)')
    ctx.ob('C02.1', down, loop,
           'children' in N.txt(loop.ast.iter),
           'recomputation ranges over the children: %s' %
           N.txt(loop.ast.iter))
    # ... all of them: a child that is skipped (not up) must not end the
    # accumulation, or the aggregate under-states what a later child offers
    K.exhaustive_loop(ctx, 'C02.1', down, loop,
                      'recomputation over the children')
    mine = [f for f in facts[acc] if any(
        m == child or m.startswith(child + '.') for m in f.mentions)]
    okfacts = []
    extra = []
    for fact in mine:
        key = fact.key
        if key[0] == 'is' and key[3] and 'State.up' in key[1:3] and \
                '%s.state' % child in key[1:3]:
            okfacts.append(fact)
        elif key[0] == 'cmp' and key[1] == '==' and \
                sorted(t for t, _c in key[2]) == sorted(
                    ['State.up', '%s.state' % child]):
            okfacts.append(fact)
        else:
            extra.append(N.show(fact))
    ctx.ob('C02.1', down, acc, bool(okfacts) and not extra,
           'exactly the children whose state is up are counted' if okfacts
           and not extra else 'children skipped under: %s' % (
               extra or 'no state test'),
           construct='filter of the recomputation')
    # initial value of the accumulator is zero
    inits = [n for n in graph.nodes if n.kind == 'stmt' and
             isinstance(n.ast, ast.Assign) and
             N.txt(n.ast.targets[0]) == accname and n is not acc]
    ctx.ob('C02.1', down, inits[0] if inits else None,
           bool(inits) and all('zero_capacity' in N.txt(n.ast.value)
                               for n in inits),
           'accumulator starts from zero_capacity()',
           construct='%s = zero_capacity()' % accname)

    # triggers in Server
    put = K.one([f for f in server.live_methods() if any(
        isinstance(s, ast.AugAssign) and isinstance(s.op, ast.Sub)
        for s in _stores_attr(f, 'self.free_capacity'))],
        'Server routine lowering free_capacity')
    # the routine that gives capacity back: the other one that stores
    # free_capacity outside the constructor (found by role, so that a store
    # written differently is judged, not lost)
    rem = K.one([f for f in server.live_methods()
                 if f is not put and f.name != '__init__' and
                 _stores_attr(f, 'self.free_capacity')],
                'Server routine raising free_capacity')
    raising = [s for s in _stores_attr(rem, 'self.free_capacity')
               if isinstance(s, ast.AugAssign) and isinstance(s.op, ast.Add)]
    ctx.ob('C02.1', rem, None,
           len(raising) == len(_stores_attr(rem, 'self.free_capacity')) and
           bool(raising),
           '%s gives capacity back by adding the demand of the instance to '
           'free_capacity' % rem.qualname,
           construct='capacity given back additively')
    for func, meth in ((put, down.name), (rem, up.name)):
        graph = ctx.cfg(func)
        for node in graph.nodes:
            if node.kind == 'stmt' and isinstance(
                    node.ast, (ast.AugAssign, ast.Assign)) \
                    and N.txt(node.ast.target if isinstance(
                        node.ast, ast.AugAssign) else
                        node.ast.targets[0]) == 'self.free_capacity':
                _parent_call_after(ctx, func, graph, node, meth)
    # state changes
    setter = index.find_method(server, 'set_state')
    ctx.require(setter is not None and setter.cls is server,
                'Server.set_state')
    graph = ctx.cfg(setter)
    sfacts = N.must_facts(graph, nz)
    sup = K.nodes_calling(graph, lambda c: K.is_meth(c, 'set_state'))
    ctx.require(sup, 'base set_state call in Server.set_state', rule='C02.1')
    statevar = setter.params()[1]
    calls_up = K.nodes_calling(graph, lambda c: K.is_meth(c, up.name))
    calls_dn = K.nodes_calling(graph, lambda c: K.is_meth(c, down.name))
    for node, _c in calls_up:
        ok = any(f.key[0] in ('cmp', 'is') and 'State.up' in N.show(f) and
                 statevar in f.mentions and
                 (f.key[0] == 'cmp' and f.key[1] == '==' or
                  f.key[0] == 'is' and f.key[3])
                 for f in sfacts[node])
        ctx.ob('C02.1', setter, node, ok,
               'adjust-up is the reaction to becoming up')
    for node, _c in calls_dn:
        ok = any(f.key[0] == 'in' and f.key[3] and f.key[1] == statevar
                 and 'State.down' in f.key[2] and 'State.frozen' in f.key[2]
                 for f in sfacts[node]) or any(
                     'State.up' in N.show(f) and statevar in f.mentions and
                     (f.key[0] == 'cmp' and f.key[1] == '!=' or
                      f.key[0] == 'is' and not f.key[3])
                     for f in sfacts[node])
        ctx.ob('C02.1', setter, node, ok,
               'adjust-down is the reaction to leaving up')
    # every state change reaches one of them (or raises)
    for node, _c in sup:
        def reacts(cur):
            return cur.kind == 'raise_stmt' or any(
                K.is_meth(c, up.name, down.name)
                for c in C.node_calls(cur))
        nzp = N.Normaliser()
        path = K.find_path(
            node, [graph.exit], cut_node=reacts,
            cut_edge=lambda e: K.truth_edge(nzp, e, 'self.parent', False),
            follow_exc=False)
        ctx.ob('C02.1', setter, node, path is None,
               'every state change adjusts the parent aggregate',
               path=K.describe(path) if path else None,
               construct='state change => parent adjust')

    # trait sets / labels
    traitset = index.get_class(K.SCHED, 'TraitSet')
    # the routine that folds the children's traits into the aggregate: it
    # stores self.traits and walks children_traits (found by role; the fold
    # may run on the attribute or on a local that is stored afterwards)
    recalcs = [f for f in traitset.live_methods()
               if f.name != '__init__' and _stores_attr(f, 'self.traits')
               and any(isinstance(n, ast.Attribute) and
                       n.attr == 'children_traits'
                       for n in K.walk_no_nested(f.node)) and
               any(isinstance(n, (ast.For, ast.comprehension))
                   for n in K.walk_no_nested(f.node))]
    recalc = K.one(recalcs, 'TraitSet routine combining child traits')
    accs = {'self.traits'}
    for sub in _stores_attr(recalc, 'self.traits'):
        if isinstance(sub, ast.Assign) and isinstance(sub.value, ast.Name):
            accs.add(sub.value.id)
    folds = [sub for sub in K.walk_no_nested(recalc.node)
             if isinstance(sub, ast.AugAssign) and N.txt(sub.target) in accs]
    folds += [sub.value for sub in K.walk_no_nested(recalc.node)
              if isinstance(sub, ast.Assign) and
              N.txt(sub.targets[0]) in accs and
              isinstance(sub.value, ast.BinOp) and
              N.txt(sub.value.left) in accs]
    ctx.require(folds, 'the fold of the children traits in %s'
                % recalc.qualname, rule='C02.1', func=recalc)
    for sub in folds:
        ctx.ob('C02.1', recalc, sub, isinstance(sub.op, ast.BitOr),
               'child traits combined with bitwise OR')
    # every child is recorded: the routine that enters a child's traits
    # stores the entry and folds again on every path (an entry skipped
    # because "the aggregate has it already" is missed when the sibling that
    # contributed it leaves), the one that withdraws a child skips the
    # deletion only for a child that has no entry
    writers = 0
    for meth in traitset.live_methods():
        if meth.name == '__init__' or meth is recalc:
            continue
        mgraph = ctx.cfg(meth)
        stores = [n for n in mgraph.nodes if n.kind == 'stmt' and
                  isinstance(n.ast, ast.Assign) and any(
                      isinstance(t, ast.Subscript) and
                      N.txt(t.value) == 'self.children_traits'
                      for t in n.ast.targets)]
        dels = [n for n in mgraph.nodes if n.kind == 'stmt' and (
            (isinstance(n.ast, ast.Delete) and any(
                isinstance(t, ast.Subscript) and
                N.txt(t.value) == 'self.children_traits'
                for t in n.ast.targets)) or any(
                    K.is_meth(c, 'pop') and
                    K.recv_text(c) == 'self.children_traits'
                    for c in C.node_calls(n)))]
        if not stores and not dels:
            continue
        writers += 1
        folds_again = [n for n, _c in K.nodes_calling(
            mgraph, lambda c: K.is_meth(c, recalc.name) and
            K.recv_text(c) == 'self')]
        if stores:
            path = K.find_path(mgraph.entry, [mgraph.exit],
                               cut_node=lambda n: n in stores,
                               follow_exc=False)
            ctx.ob('C02.1', meth, stores[0], path is None,
                   "the child's traits are recorded on every path (never "
                   'skipped because the aggregate has them already)',
                   path=K.describe(path) if path else None,
                   construct='child entry stored in %s' % meth.name)
        if dels:
            nzt = N.Normaliser()

            def absent(edge):
                return any(a.key[0] == 'in' and not a.key[3] and
                           a.key[2] == 'self.children_traits'
                           for a in nzt.facts_of_edge(edge))
            path = K.find_path(mgraph.entry, [mgraph.exit],
                               cut_node=lambda n: n in dels,
                               cut_edge=absent, follow_exc=False)
            ctx.ob('C02.1', meth, dels[0], path is None,
                   "the child's entry is deleted unless it has none",
                   path=K.describe(path) if path else None,
                   construct='child entry deleted in %s' % meth.name)
        path = K.find_path(mgraph.entry, [mgraph.exit],
                           cut_node=lambda n: n in folds_again,
                           follow_exc=False)
        ctx.ob('C02.1', meth, folds_again[0] if folds_again else None,
               bool(folds_again) and path is None,
               'the aggregate is folded again on every path of %s' %
               meth.name, path=K.describe(path) if path else None,
               construct='fold after the entry changed in %s' % meth.name)
    ctx.require(writers >= 2, 'TraitSet routines entering / withdrawing a '
                'child (found %d)' % writers, rule='C02.1')
    has = traitset.methods.get('has')
    ctx.require(has is not None, 'TraitSet.has')
    param = has.params()[1]
    okhas = False
    for sub in K.walk_no_nested(has.node):
        if isinstance(sub, ast.Return) and isinstance(sub.value,
                                                      ast.Compare):
            cmpx = sub.value
            if len(cmpx.ops) == 1 and isinstance(cmpx.ops[0], ast.Eq):
                sides = [cmpx.left, cmpx.comparators[0]]
                for a, b in (sides, sides[::-1]):
                    if N.txt(b) == param and isinstance(a, ast.BinOp) and \
                            isinstance(a.op, ast.BitAnd) and sorted(
                                [N.txt(a.left), N.txt(a.right)]) == sorted(
                                    ['self.traits', param]):
                        okhas = True
    ctx.ob('C02.1', has, None, okhas,
           'trait test is the subset test (agg & t) == t',
           construct='TraitSet.has')
    # a node's own trait change refreshes its entry in the parent
    for tname, tmeth in (('add_child_traits', 'add'),
                         ('remove_child_traits', 'remove')):
        tfunc = index.find_method(node_cls, tname)
        ctx.require(tfunc is not None, 'Node.%s' % tname)
        tgraph = ctx.cfg(tfunc)
        hits = K.nodes_calling(tgraph, lambda c, m=tmeth: K.is_meth(c, m) and
                               K.recv_text(c) == 'self.traits')
        seen = K.cut_reach(tgraph, tgraph.entry,
                           cut_node=lambda n: any(n is h for h, _c in hits),
                           follow_exc=False)
        ctx.ob('C02.1', tfunc, hits[0][0] if hits else None,
               bool(hits) and tgraph.exit not in seen,
               '%s updates the per-child trait entry on every path' % tname,
               construct='self.traits.%s(...)' % tmeth)
        for hit, _c in hits[:1]:
            _parent_call_after(ctx, tfunc, tgraph, hit,
                               'add_child_traits', 'self')
    labels = index.find_method(node_cls, 'add_labels')
    ctx.require(labels is not None, 'Node.add_labels')
    lgraph = ctx.cfg(labels)
    lwalk = K.upward_walk(lgraph)
    lrecv = '%s.labels' % (lwalk[0] if lwalk else 'self')
    upd = K.nodes_calling(lgraph, lambda c: K.is_meth(c, 'update', 'add')
                          and K.recv_text(c) == lrecv)
    ctx.ob('C02.1', labels, upd[0][0] if upd else None, bool(upd),
           'labels are combined with set union (never narrowed)',
           construct='self.labels.update(labels)')
    if upd and lwalk:
        okw, why = K.walk_covers(
            lgraph, lwalk, lambda n: any(n is u for u, _c in upd))
        ctx.ob('C02.1', labels, lwalk[1], okw,
               'labels are added at every level from this node to the root '
               '(iterative walk): %s' % why,
               construct='%s => parent.%s' % (upd[0][0].text(70),
                                              labels.name))
    elif upd:
        _parent_call_after(ctx, labels, lgraph, upd[0][0], labels.name,
                           'self.labels')
    narrowing = []
    for cls in (node_cls, bucket, server):
        for func in cls.live_methods():
            if func.name == '__init__':
                continue
            for sub in K.walk_no_nested(func.node):
                if isinstance(sub, ast.Call) and K.is_meth(
                        sub, 'remove', 'discard', 'clear',
                        'difference_update', 'intersection_update', 'pop') \
                        and K.recv_text(sub) == 'self.labels':
                    narrowing.append((func, sub))
                if isinstance(sub, (ast.Assign, ast.AugAssign)) and \
                        'self.labels' in [N.txt(t) for t in (
                            sub.targets if isinstance(sub, ast.Assign)
                            else [sub.target])]:
                    narrowing.append((func, sub))
    for func, sub in narrowing:
        ctx.fail('C02.1', func, sub, 'label aggregate narrowed/re-assigned '
                                     'outside construction')

    # add_node / remove_node propagate and withdraw
    add = index.find_method(node_cls, 'add_node')
    rem_node = index.find_method(node_cls, 'remove_node')
    ctx.require(add is not None and rem_node is not None,
                'Node.add_node / remove_node', rule='C02.1')
    child = add.params()[1]
    want_add = {
        'add_child_traits': child,
        'increment_affinity': '%s.affinity_counters' % child,
        'add_labels': '%s.labels' % child,
        'adjust_valid_until': '%s.valid_until' % child,
    }
    _must_call_all(ctx, add, want_add, 'add_node propagates')
    child = rem_node.params()[1]
    want_rem = {
        'remove_child_traits': '%s.name' % child,
        'decrement_affinity': '%s.affinity_counters' % child,
        'adjust_valid_until': 'None',
    }
    _must_call_all(ctx, rem_node, want_rem, 'remove_node withdraws')
    badd = bucket.methods.get('add_node')
    brem = bucket.methods.get('remove_node')
    ctx.require(badd is not None and brem is not None,
                'Bucket.add_node / remove_node', rule='C02.1')
    _must_call_all(ctx, badd, {
        'add_node': badd.params()[1],
        up.name: '%s.free_capacity' % badd.params()[1]},
        'Bucket.add_node propagates capacity')
    _must_call_all(ctx, brem, {
        'remove_node': brem.params()[1], down.name: None},
        'Bucket.remove_node recomputes capacity')
    return up, down, nz


def _must_call_all(ctx, func, wanted, what):
    graph = ctx.cfg(func)
    for meth, arg in sorted(wanted.items()):
        def hit(node, meth=meth, arg=arg):
            for call in C.node_calls(node):
                recv = K.recv_text(call) or ''
                if K.is_meth(call, meth) and (
                        recv == 'self' or recv.startswith('super(')) and (
                        arg is None or (call.args and
                                        N.txt(call.args[0]) == arg)):
                    return True
            return False
        seen = K.cut_reach(graph, graph.entry, cut_node=hit,
                           follow_exc=False)
        ctx.ob('C02.1', func, None, graph.exit not in seen,
               '%s: every path calls %s(%s) on this node' % (
                   what, meth, arg or '...'),
               construct='%s -> %s(%s)' % (func.qualname, meth,
                                           arg or '...'))


def _shortcut(ctx, down, nz):
    """A 'shortcut' is an exit of the recomputation routine that neither
    recomputed the aggregate (passed the child loop) nor re-assigned it."""
    graph = ctx.cfg(down)
    prev = down.params()[1] if len(down.params()) > 1 else None
    ctx.require(prev, 'previous-capacity parameter of %s' % down.qualname,
        rule='C02.2')
    loops = [n for n in graph.nodes if n.kind == 'for']
    stores = [n for n in graph.nodes if any(
        N.txt(t) == 'self.free_capacity'
        for t, _v, _k in K.assigns_attr(n))]

    def sound(atom):
        return atom.kind == 'vec' and atom.key[1] == 'ALL' and \
            atom.key[2] == '<' and atom.key[3] == prev and \
            atom.key[4] == 'self.free_capacity'
    # nodes reachable from entry without recomputing / re-assigning
    early = K.cut_reach(graph, graph.entry,
                        cut_node=lambda n: n in loops or n in stores,
                        follow_exc=False)
    exits = [n for n in early if n.kind == 'return']
    if graph.exit in early:
        exits += [e.src for e in graph.exit.pred
                  if e.src in early and e.src.kind != 'return' and
                  e.kind != 'exc']
    ctx.require(exits, 'shortcut exit in %s' % down.qualname, rule='C02.2')
    for node in exits:
        ok = K.guarded_by_atoms(ctx, down, graph, node, sound, nz,
                                follow_exc=False)
        if not ok:
            # an exit may still be reached only after recomputation on
            # other paths; what matters is the early path
            path = K.find_path(
                graph.entry, [node],
                cut_node=lambda n: n in loops or n in stores,
                cut_edge=lambda e: K.edge_establishes(ctx, down, nz, e,
                                                      sound),
                follow_exc=False)
            ok = path is None
        ctx.ob('C02.2', down, node, ok,
               'the aggregate is left untouched without recomputation only '
               'under ALL(%s < self.free_capacity)' % prev,
               construct='shortcut exit [%s]' % K.controlling(node, graph))


def _memo(ctx, nz):
    tracker = ctx.index.get_class(K.SCHED, 'PlacementFeasibilityTracker')
    count = 0

    demands = set(['demand'])

    def is_demand(text):
        return text in demands or text.endswith('.demand')

    def dominated(atom):
        return atom.kind == 'vec' and atom.key[1] == 'ALL' and \
            atom.key[2] == '<=' and 'recorder' in atom.key[3] and \
            is_demand(atom.key[4])

    def smaller_or_new(atom):
        if atom.kind == 'vec' and atom.key[1] == 'ALL' and \
                atom.key[2] == '<=' and is_demand(atom.key[3]) and \
                'recorder' in atom.key[4]:
            return True
        return atom.key[0] == 'in' and not atom.key[3] and \
            'recorder' in atom.key[2]
    for func in tracker.live_methods():
        # the demand, whatever the local is called: second component of
        # the instance's shape
        for sub in K.walk_no_nested(func.node):
            if isinstance(sub, ast.Assign) and len(sub.targets) == 1 and \
                    isinstance(sub.targets[0], ast.Tuple) and \
                    len(sub.targets[0].elts) == 2 and \
                    isinstance(sub.value, ast.Call) and (
                        K.is_meth(sub.value, '_shape', 'shape') or (
                            # the key helper of the tracker, whatever it
                            # is called: (key, demand) = self.<helper>(app)
                            K.recv_text(sub.value) == 'self' and
                            tracker.methods.get(
                                sub.value.func.attr) is not None)):
                demands.add(N.txt(sub.targets[0].elts[1]))
        # ... also when the key helper was spliced in by the view: its
        # answer is a pair held in a local and unpacked afterwards
        pairs = {}
        for sub in K.walk_no_nested(func.node):
            if isinstance(sub, ast.Assign) and len(sub.targets) == 1 and \
                    isinstance(sub.targets[0], ast.Name) and \
                    isinstance(sub.value, ast.Tuple) and \
                    len(sub.value.elts) == 2:
                pairs[sub.targets[0].id] = sub.value.elts
        for sub in K.walk_no_nested(func.node):
            if isinstance(sub, ast.Assign) and len(sub.targets) == 1 and \
                    isinstance(sub.targets[0], ast.Tuple) and \
                    len(sub.targets[0].elts) == 2 and \
                    isinstance(sub.value, ast.Name) and \
                    sub.value.id in pairs:
                demands.add(N.txt(sub.targets[0].elts[1]))
                demands.add(N.txt(pairs[sub.value.id][1]))
        graph = ctx.cfg(func)
        env = K.func_env(func)
        nzf = N.Normaliser(nz.helpers, env=env)
        for node in graph.nodes:
            if node.kind == 'return':
                val = node.ast.value
                if isinstance(val, ast.Constant) and val.value is False:
                    count += 1
                    ctx.ob('C02.3', func, node, K.guarded_by_atoms(
                        ctx, func, graph, node, dominated, nzf),
                           "'not feasible' only under ALL(demand >= "
                           'recorded)')
                elif val is not None and not isinstance(val, ast.Constant):
                    # a named boolean returned (or its negation) is the
                    # condition it names
                    val = N.subst(val, dict(
                        (k, v) for k, v in env.items()
                        if isinstance(v, (ast.BoolOp, ast.Compare,
                                          ast.UnaryOp, ast.Call))))
                    atoms = K._outcome_atoms(nzf, val, False)
                    if not any(a.kind == 'vec' for a in atoms) and not \
                            any(a.kind == 'vec' for a in
                                K._outcome_atoms(nzf, val, True)):
                        continue
                    count += 1
                    ok = any(dominated(a) for a in atoms) or \
                        K.guarded_by_atoms(ctx, func, graph, node,
                                           dominated, nzf)
                    ctx.ob('C02.3', func, node, ok,
                           "a falsy answer ('not feasible') implies "
                           'ALL(demand >= recorded): %s' % [
                               N.show(a) for a in atoms])
            if node.kind == 'stmt' and isinstance(node.ast, ast.Assign) \
                    and isinstance(node.ast.targets[0], ast.Subscript) and \
                    'recorder' in N.txt(node.ast.targets[0].value):
                count += 1
                plain = is_demand(K.rtxt(func, node.ast.value)) or \
                    is_demand(N.txt(node.ast.value))
                ok = K.guarded_by_atoms(ctx, func, graph, node,
                                        smaller_or_new, nzf)
                ctx.ob('C02.3', func, node, plain and ok,
                       'record written for a new key, or replaced only '
                       'under ALL(demand <= recorded), by the demand '
                       'itself')
    ctx.require(count >= 2, 'memo decisions of the feasibility tracker',
        rule='C02.4')
    # the memo is valid for one walk over one partition's queue: the shapes
    # it records do not carry the partition (an allocation's constraints are
    # frozen before its label is set), so "a smaller instance of this shape
    # did not fit" says nothing about another partition's servers.  The
    # routine that consults it therefore creates its own, unconditionally.
    cell = ctx.index.get_class(K.SCHED, 'Cell')
    users = []
    for func in cell.live_methods():
        recvs = set(K.recv_text(c) for c in K.calls(func.node)
                    if K.is_meth(c, 'feasible') and
                    K.recv_text(c) and K.recv_text(c) != 'self')
        for recv in sorted(recvs):
            users.append(func)
            makers = [s for s in K.walk_no_nested(func.node)
                      if isinstance(s, ast.Assign) and
                      N.txt(s.targets[0]) == recv]
            graph = ctx.cfg(func)
            mnodes = [n for n in graph.nodes if n.kind == 'stmt' and
                      n.ast in makers]
            fresh = len(makers) == 1 and isinstance(
                makers[0].value, ast.Call) and \
                K.callee_text(makers[0].value).endswith(
                    'PlacementFeasibilityTracker') and \
                recv not in func.params() and bool(mnodes) and \
                K.find_path(graph.entry, [graph.exit],
                            cut_node=lambda n: n in mnodes,
                            follow_exc=False) is None
            ctx.ob('C02.4', func, makers[0] if makers else None, fresh,
                   'the feasibility memo consulted by %s is created by that '
                   'walk itself, on every path (one memo per partition '
                   'queue, never one handed in)' % func.name,
                   construct='memo scope in %s' % func.name)
    ctx.require(users, 'user of the feasibility memo in Cell', rule='C02.4')
    return tracker


# -- SHAPE-COMPLETE ----------------------------------------------------------

def _attr_classes(index):
    """attribute name -> class, from `x.attr = Class(...)` and
    `x.attr = self` (inside a class) in the scheduler module."""
    mod = index.module(K.SCHED)
    out = {}
    for cls in mod.classes.values():
        for func in cls.live_methods():
            for sub in K.walk_no_nested(func.node):
                if not isinstance(sub, ast.Assign):
                    continue
                for tgt in sub.targets:
                    if not isinstance(tgt, ast.Attribute):
                        continue
                    val = sub.value
                    if isinstance(val, ast.Call) and \
                            isinstance(val.func, ast.Name) and \
                            val.func.id in mod.classes:
                        out.setdefault(tgt.attr, mod.classes[val.func.id])
                    elif isinstance(val, ast.Name) and val.id == 'self' \
                            and not K.name_is(tgt.value, 'self'):
                        out.setdefault(tgt.attr, cls)
    return out


def _reads(index, func, param, attr_cls, cls_of_param, depth=0,
           seen=None):
    """Attribute chains (tuples) read on ``param`` inside ``func``,
    expanded through properties/methods of the parameter's class and
    through calls passing the parameter on."""
    seen = seen if seen is not None else set()
    key = (func.fq, param)
    if key in seen or depth > 4:
        return set()
    seen.add(key)
    out = set()
    for sub in K.walk_no_nested(func.node):
        if isinstance(sub, ast.Attribute):
            chain = []
            cur = sub
            while isinstance(cur, ast.Attribute):
                chain.append(cur.attr)
                cur = cur.value
            if isinstance(cur, ast.Name) and cur.id == param:
                chain = tuple(reversed(chain))
                out |= _expand(index, chain, attr_cls, cls_of_param,
                               depth, seen)
        if isinstance(sub, ast.Call):
            # parameter passed on to another routine
            for idx, arg in enumerate(sub.args):
                if K.name_is(arg, param):
                    callee = None
                    if isinstance(sub.func, ast.Attribute) and \
                            K.name_is(sub.func.value, 'self') and \
                            func.cls is not None:
                        callee = index.find_method(func.cls, sub.func.attr)
                        off = 1
                        if callee is not None and any(
                                dotted_text(d) == 'staticmethod'
                                for d in callee.decorators()):
                            off = 0
                    elif isinstance(sub.func, ast.Name) and \
                            sub.func.id in func.module.functions:
                        callee = func.module.functions[sub.func.id]
                        off = 0
                    if callee is not None:
                        params = callee.params()
                        if idx + off < len(params):
                            out |= _reads(index, callee, params[idx + off],
                                          attr_cls, cls_of_param,
                                          depth + 1, seen)
    return out


def _expand(index, chain, attr_cls, cls, depth, seen):
    """Expand a chain through properties / methods of ``cls``."""
    out = set()
    cur_cls = cls
    prefix = ()
    for i, attr in enumerate(chain):
        meth = index.find_method(cur_cls, attr) if cur_cls else None
        if meth is not None:
            # property or method of the class: its own reads on self
            sub = _reads(index, meth, 'self', attr_cls, cur_cls,
                         depth + 1, seen)
            out |= set(prefix + s for s in sub)
            return out
        prefix = prefix + (attr,)
        out.add(prefix)
        cur_cls = attr_cls.get(attr)
    return out


def _derived(index, attr_cls):
    """(class name, attr) -> set of attrs it is computed from in __init__
    (e.g. Affinity.constraints <- name, limits)."""
    mod = index.module(K.SCHED)
    out = {}
    for cls in mod.classes.values():
        init = cls.methods.get('__init__')
        if init is None:
            continue
        # locals of the constructor stand for what they were computed from
        ldefs = {}
        for sub in K.walk_no_nested(init.node):
            if isinstance(sub, ast.Assign) and len(sub.targets) == 1 and \
                    isinstance(sub.targets[0], ast.Name):
                ldefs.setdefault(sub.targets[0].id, []).append(sub.value)
        for sub in K.walk_no_nested(init.node):
            if isinstance(sub, ast.Assign) and len(sub.targets) == 1 and \
                    isinstance(sub.targets[0], ast.Attribute) and \
                    K.name_is(sub.targets[0].value, 'self'):
                srcs = set()
                todo, seen = [sub.value], set()
                while todo:
                    expr = todo.pop()
                    for leaf in ast.walk(expr):
                        if isinstance(leaf, ast.Attribute) and \
                                K.name_is(leaf.value, 'self'):
                            srcs.add(leaf.attr)
                        if isinstance(leaf, ast.Name) and \
                                leaf.id in ldefs and leaf.id not in seen:
                            seen.add(leaf.id)
                            todo.extend(ldefs[leaf.id])
                if srcs:
                    # a derived attribute stands for a source only while it
                    # is kept up to date: a source that another method of
                    # the class re-assigns without refreshing the derived
                    # attribute is frozen at its construction value there
                    dattr = sub.targets[0].attr
                    stale = set()
                    for meth in cls.methods.values():
                        if meth.name == '__init__':
                            continue
                        stored = set(
                            t.attr for st in K.walk_no_nested(meth.raw)
                            if isinstance(st, (ast.Assign, ast.AugAssign))
                            for t in (st.targets if isinstance(
                                st, ast.Assign) else [st.target])
                            if isinstance(t, ast.Attribute) and
                            K.name_is(t.value, 'self'))
                        if dattr not in stored:
                            stale |= stored & srcs
                    srcs -= stale
                if srcs:
                    out[(cls.name, sub.targets[0].attr)] = srcs
    return out


def _shape_complete(ctx, tracker):
    index = ctx.index
    app_cls = index.get_class(K.SCHED, 'Application')
    node_cls = index.get_class(K.SCHED, 'Node')
    server = index.get_class(K.SCHED, 'Server')
    attr_cls = _attr_classes(index)
    # admission predicates: the check_* routines the leaf placement calls
    put = index.find_method(server, 'put')
    ctx.require(put is not None, 'Server.put')
    preds = []
    for sub in K.walk_no_nested(put.node):
        if isinstance(sub, ast.Call) and K.recv_text(sub) == 'self' and \
                sub.func.attr.startswith('check_'):
            func = index.find_method(server, sub.func.attr)
            if func is not None:
                preds.append(func)
    ctx.require(len(preds) >= 1, 'admission predicates called by the leaf '
                                 'placement', rule='C02.4')
    required = set()
    for func in preds:
        required |= _reads(index, func, func.params()[1], attr_cls, app_cls)
    # ... and what the leaf placement itself tests of the instance (a
    # predicate spelled out in place or through an expression helper)
    papp = put.params()[1]
    pgraph = ctx.cfg(put)
    pstores = [n for n in pgraph.nodes if n.kind == 'stmt' and
               isinstance(n.ast, ast.Assign) and any(
                   isinstance(t, ast.Subscript) and
                   N.txt(t.value) == 'self.apps' for t in n.ast.targets)]
    for node in pgraph.nodes:
        if node.kind != 'test' or node.ast is None:
            continue
        # a test guards the placement when only one of its outcomes leads
        # to the store
        sides = [any(s_ in C.reach([e.dst], edge_ok=C.no_exc)
                     for s_ in pstores)
                 for e in node.succ if e.kind in ('true', 'false')]
        if len(sides) != 2 or sides[0] == sides[1]:
            continue
        if any(isinstance(e.dst.ast, ast.Assert) for e in node.succ):
            continue        # an assertion, not an admission decision
        for sub in ast.walk(node.ast):
            if isinstance(sub, ast.Attribute):
                chain = []
                cur = sub
                while isinstance(cur, ast.Attribute):
                    chain.append(cur.attr)
                    cur = cur.value
                if isinstance(cur, ast.Name) and cur.id == papp:
                    required |= _expand(index, tuple(reversed(chain)),
                                        attr_cls, app_cls, 0, set())
    # also the Node-level versions (Bucket walk)
    for name in set(f.name for f in preds):
        func = index.find_method(node_cls, name)
        if func is not None:
            required |= _reads(index, func, func.params()[1], attr_cls,
                               app_cls)
    # key: what feasible()/adjust() read from the instance
    keyreads = None
    for name in ('feasible', 'adjust'):
        func = tracker.methods.get(name)
        ctx.require(func is not None, 'tracker.%s' % name)
        got = _reads(index, func, func.params()[1], attr_cls, app_cls)
        keyreads = got if keyreads is None else (keyreads & got)
    derived = _derived(index, attr_cls)
    covered = set(keyreads)
    for chain in list(keyreads):
        if len(chain) >= 2:
            owner = attr_cls.get(chain[-2])
            if owner is not None and (owner.name, chain[-1]) in derived:
                for src in derived[(owner.name, chain[-1])]:
                    covered.add(chain[:-1] + (src,))
    leaves = set(c for c in required
                 if not any(o != c and o[:len(c)] == c for o in required))
    ctx.require(len(leaves) >= 6, 'attributes read by the admission '
                                  'predicates (found %s)' % sorted(leaves),
                                      rule='C02.4')
    for chain in sorted(leaves):
        ok = chain in covered
        ctx.ob('C02.4', tracker.methods['feasible'], None, ok,
               'instance attribute %s read by admission is %s the memo key '
               '/ demand (key reads: %s)' % (
                   '.'.join(chain), 'part of' if ok else 'MISSING from',
                   sorted('.'.join(c) for c in covered)),
               construct='admission reads app.%s' % '.'.join(chain))


def _key_keeps_levels(ctx, tracker):
    """C02.4: the memo key determines the admission verdict.  The affinity
    limits are a mapping level -> limit and the admission reads them by
    level; a key that carries only the *values* of the mapping ("1" for
    {'rack': 1} and for {'server': 1} alike) files two instances with
    different limits under one record, and the one that fits is skipped as
    infeasible because the other did not.  So wherever the key closure reads
    the limits, one of the reads keeps the levels: the items of the mapping,
    or a subscript per level."""
    index = ctx.index
    app_cls = index.get_class(K.SCHED, 'Application')
    aff = index.get_class(K.SCHED, 'Affinity')
    # (every method of the tracker, also a helper the view spliced into its
    # callers - the source of each is read)
    closure = list(tracker.methods.values()) + [
        app_cls.methods.get('shape'),
        aff.methods.get('__init__') if aff else None]
    closure = [f for f in closure if f is not None]
    reads = []
    for func in closure:
        for sub in K.walk_no_nested(func.raw):
            if isinstance(sub, ast.Attribute) and sub.attr == 'limits' and \
                    isinstance(sub.ctx, ast.Load):
                reads.append((func, sub))
    ctx.require(reads, 'reads of the affinity limits in the closure of the '
                'memo key', rule='C02.4')
    keeps = []
    for func in closure:
        for sub in K.walk_no_nested(func.raw):
            if isinstance(sub, ast.Call) and isinstance(
                    sub.func, ast.Attribute) and sub.func.attr == 'items' \
                    and N.txt(sub.func.value).endswith('limits'):
                keeps.append((func, sub))
            if isinstance(sub, ast.Call) and K.callee_text(sub) in (
                    'six.iteritems', 'six.viewitems', 'dict', 'sorted',
                    'tuple', 'frozenset') and len(sub.args) == 1 and (
                        K.callee_text(sub).startswith('six.') or
                        K.callee_text(sub) in ('dict', 'frozenset')) and \
                    N.txt(sub.args[0]).endswith('limits'):
                keeps.append((func, sub))
            if isinstance(sub, ast.Subscript) and N.txt(
                    sub.value).endswith('limits') and isinstance(
                        sub.ctx, ast.Load):
                keeps.append((func, sub))
    # the values-only read is what feeds the key today: name it
    values_only = [(f, c) for f in closure for c in K.calls(f.raw)
                   if isinstance(c.func, ast.Attribute) and
                   c.func.attr == 'values' and
                   N.txt(c.func.value).endswith('limits')]
    where = (values_only or reads)[0]
    ctx.ob('C02.4', where[0], where[1], bool(keeps),
           'the memo key keeps the level of every affinity limit (items of '
           'the mapping or one subscript per level)' if keeps else
           'the affinity limits enter the memo key by value only (%s): '
           "{'rack': 1} and {'server': 1} share a record, and an instance "
           'that fits is skipped because another one did not' %
           N.txt(where[1])[:50],
           construct='memo key keeps limit levels')


def _suggested(put):
    """Locals of Bucket.put holding the strategy's first suggestion."""
    out = set()
    for sub in K.walk_no_nested(put.node):
        if isinstance(sub, ast.Assign) and isinstance(sub.value, ast.Call) \
                and K.is_meth(sub.value, 'suggested_node'):
            out |= set(t.id for t in sub.targets if isinstance(t, ast.Name))
    return out


def _strategy_cursor(ctx):
    """C02.5: the walk over the children of a bucket offers every child: in
    each placement strategy the sequence the cursor indexes is the one whose
    length bounds the number of attempts and wraps the cursor (the child list
    keeps a hole for every removed child, so a node added later sits at a
    position that a shorter bound never reaches)."""
    mod = ctx.index.module(K.SCHED)
    seen = 0
    for cls in sorted(mod.classes.values(), key=lambda c: c.name):
        if not cls.name.endswith('Strategy'):
            continue
        for func in cls.live_methods():
            cursors = [sub for sub in K.walk_no_nested(func.node)
                       if isinstance(sub, ast.Subscript) and
                       isinstance(sub.ctx, ast.Load) and
                       N.txt(sub.slice).startswith('self.') and
                       'idx' in N.txt(sub.slice)]
            if not cursors:
                continue
            seen += 1
            seqs = set(N.txt(c.value) for c in cursors)
            lens = set(N.txt(c.args[0]) for c in K.calls(func.node)
                       if K.callee_text(c) == 'len' and len(c.args) == 1)
            ctx.ob('C02.5', func, cursors[0],
                   len(seqs) == 1 and lens == seqs,
                   'the cursor of %s indexes %s and is bounded / wrapped by '
                   'the length of the same sequence (lengths taken of: %s)'
                   % (cls.name, sorted(seqs), sorted(lens)),
                   construct='%s cursor bound' % cls.name)
    ctx.require(seen >= 2, 'cursor walks of the placement strategies '
                '(found %d)' % seen, rule='C02.5')


def _walk(ctx):
    _strategy_cursor(ctx)
    bucket = ctx.index.get_class(K.SCHED, 'Bucket')
    put = bucket.methods.get('put')
    ctx.require(put is not None, 'Bucket.put')
    graph = ctx.cfg(put)
    nz = N.Normaliser()
    heads = [n for n in graph.nodes if n.kind == 'loop_head']
    head = K.one(heads, 'walk loop of Bucket.put')
    body = K.loop_body_nodes(head)
    adv = [n for n, _c in K.nodes_calling(
        graph, lambda c: K.is_meth(c, 'next_node')) if n in body]
    ctx.require(adv, 'strategy.next_node() in the walk', rule='C02.5')
    exits = set(e.dst for e in K.loop_exit_edges(head))
    count = 0
    for node in body:
        if node.kind != 'test':
            continue
        atom = nz.atom(node.ast)
        if 'State.up' not in N.show(atom):
            continue
        for edge in node.succ:
            facts = nz.facts_of_edge(edge)
            notup = any((f.key[0] == 'is' and not f.key[3]) or
                        (f.key[0] == 'cmp' and f.key[1] == '!=')
                        for f in facts)
            if not notup:
                continue
            count += 1
            path = None
            if edge.dst in exits:
                path = [edge]
            else:
                sub = K.find_path(edge.dst, exits,
                                  cut_node=lambda n: n in adv,
                                  follow_exc=False)
                if edge.dst in adv:
                    sub = None
                path = ([edge] + sub) if sub else None
            ctx.ob('C02.5', put, node, path is None,
                   'a child that is not up is skipped by advancing to the '
                   'next child, not by leaving the walk',
                   path=K.describe(path) if path else None)
    ctx.require(count >= 1, 'not-up branch in the walk of Bucket.put',
        rule='C02.5')
    # before the walk the bucket gives up only on the admission predicate
    # (whose inputs are the maintained aggregates) or with no child at all
    def prewalk_ok(atom):
        key = atom.key
        if key[0] == 'truth' and not key[2] and \
                key[1].startswith('self.check_app_constraints('):
            return True
        if key[0] == 'truth' and key[2] and '.put(' in key[1] and \
                not key[1].startswith('self.'):
            return True         # placed on the first child tried
        return key[0] == 'is' and key[2] == 'None' and key[3] and \
            key[1] in _suggested(put)
    path = K.find_path(
        graph.entry, [graph.exit], cut_node=lambda n: n is head,
        cut_edge=lambda e: K.edge_establishes(ctx, put, nz, e, prewalk_ok),
        follow_exc=False)
    ctx.ob('C02.5', put, path[-1].src if path else head, path is None,
           'before walking its children the bucket rejects only on the '
           'admission predicate (verified aggregates) or when it has no '
           'child' if path is None else
           'the bucket gives up before walking its children on a test that '
           'is not the admission predicate: a server below may fit',
           path=K.describe(path) if path else None,
           construct='pre-walk exit')
    # the loop is left only by placing or by wrapping around
    facts = N.must_facts(graph, nz)

    def wrapped(atom):
        return atom.key[0] == 'cmp' and atom.key[1] == '==' and any(
            '.name' in t for t, _c in atom.key[2])
    for edge in K.loop_exit_edges(head):
        if edge.kind == 'exc':
            continue
        src = edge.src
        success = src.kind == 'return' and isinstance(
            src.ast.value, ast.Constant) and src.ast.value.value is True
        if not success and src.kind == 'stmt' and isinstance(
                src.ast, ast.Pass):
            # the jump out of a spliced-in helper that answered True: the
            # walk is left because a child took the instance
            success = K.guarded_by(graph, src, lambda e: any(
                a.key[0] == 'truth' and a.key[2] and '.put(' in a.key[1]
                for a in nz.facts_of_edge(e)), start=head) and any(
                    p.src.kind == 'stmt' and isinstance(
                        p.src.ast, ast.Assign) and isinstance(
                            p.src.ast.value, ast.Constant) and
                    p.src.ast.value.value is True for p in src.pred)
        if success:
            ok = K.guarded_by(graph, src, lambda e: any(
                a.key[0] == 'truth' and a.key[2] and '.put(' in a.key[1]
                for a in nz.facts_of_edge(e)), start=head)
            why = 'return after a successful child placement'
        else:
            ok = any(wrapped(f) for f in facts[src]) or any(
                wrapped(a) for a in nz.facts_of_edge(edge))
            if not ok and src.kind == 'test' and src.ast is not None:
                # the test reads a named boolean: every value it can hold
                # on this outcome is the wrap comparison
                flag, want = src.ast, edge.kind == 'true'
                while isinstance(flag, ast.UnaryOp) and isinstance(
                        flag.op, ast.Not):
                    flag, want = flag.operand, not want
                if isinstance(flag, ast.Name):
                    rdefs = K.reaching_defs(graph)
                    vals = K.def_values(graph, rdefs, src, flag.id)
                    live = [v for v in vals if not (
                        isinstance(v, ast.Constant) and
                        bool(v.value) != want)]
                    ok = bool(live) and want and all(
                        v is not None and not isinstance(v, ast.Constant)
                        and wrapped(nz.atom(v)) for v in live)
            why = 'left without placing only when the strategy wrapped to ' \
                  'the first child'
        ctx.ob('C02.5', put, src, ok, why,
               construct='walk exit: %s [%s]' % (
                   src.text(50), K.controlling(src, graph)))


def _exact_fit(ctx, nz):
    index = ctx.index
    node_cls = index.get_class(K.SCHED, 'Node')
    pred = index.find_method(node_cls, 'check_app_constraints')
    ctx.require(pred is not None, 'Node.check_app_constraints')
    graph = ctx.cfg(pred)
    facts = N.must_facts(graph, nz)
    n_true = 0
    for node in graph.nodes:
        if node.kind != 'return':
            continue
        val = node.ast.value
        if isinstance(val, ast.Constant) and not val.value:
            continue
        n_true += 1
        have = set(facts[node])
        if val is not None and not isinstance(val, ast.Constant):
            form = nz.formula(val)
            parts = [form] if form[0] == 'atom' else form[1]
            have |= set(p[1] for p in parts if p[0] == 'atom')
        strict = [f for f in have if f.kind == 'vec' and f.key[1] == 'ALL'
                  and f.key[2] == '<' and f.key[3].endswith('.demand')]
        nonstrict = [f for f in have if f.kind == 'vec' and
                     f.key[1] == 'ALL' and f.key[2] == '<=' and
                     f.key[3].endswith('.demand')]
        ctx.ob('C02.7', pred, node, bool(nonstrict) and not strict,
               'a demand equal to the free capacity is admitted'
               if nonstrict and not strict else
               'exact fit is rejected or capacity not compared: %s' %
               sorted(N.show(f) for f in have if f.kind == 'vec'))
    ctx.require(n_true >= 1, 'accepting return of the admission predicate',
        rule='C02.7')
    # the bucket-level predicate rejects only on the verified aggregates
    app = pred.params()[1]

    def reject_ok(atom):
        key = atom.key
        if key[0] == 'in' and not key[3]:
            return key[1] == '%s.allocation.label' % app and \
                key[2] == 'self.labels'
        if key[0] == 'truth' and not key[2]:
            return key[1] in ('self.traits.has(%s.traits)' % app,
                              'self.check_app_affinity_limit(%s)' % app)
        if key[0] == 'vec' and key[1] == 'ANY' and key[2] == '<':
            return key[3] == 'self.free_capacity' and \
                key[4] == '%s.demand' % app
        return False
    for node in graph.nodes:
        if node.kind != 'return':
            continue
        val = node.ast.value
        if not (val is None or isinstance(val, ast.Constant) and
                not val.value):
            continue
        ok = K.guarded_by_atoms(ctx, pred, graph, node, reject_ok, nz,
                                follow_exc=False)
        ctx.ob('C02.7', pred, node, ok,
               'a node is pruned only on label / traits / affinity limit / '
               'ANY(free capacity < demand) - the aggregates maintained as '
               'upper bounds',
               construct='reject [%s]' % K.controlling(node, graph))
    lim = index.find_method(node_cls, 'check_app_affinity_limit')
    ctx.require(lim is not None, 'Node.check_app_affinity_limit')
    lapp = lim.params()[1]
    want = N.cmp_atom(
        ast.parse('self.affinity_counters[%s.affinity.name]' % lapp,
                  mode='eval').body, '<',
        ast.parse('%s.affinity.limits[self.level]' % lapp,
                  mode='eval').body)
    lgraph0 = ctx.cfg(lim)
    lenv = K.func_env(lim)
    nzl = N.Normaliser(nz.helpers, env=lenv)
    for node in lgraph0.nodes:
        if node.kind != 'return' or node.ast.value is None:
            continue
        sub = node.ast
        if isinstance(sub.value, ast.Constant) and \
                isinstance(sub.value.value, bool):
            # the answer spelled out: True only under count < limit, False
            # only under its negation
            goal = want if sub.value.value else N.negate(want)
            ok = K.guarded_by_atoms(
                ctx, lim, lgraph0, node,
                lambda a, g=goal: a.key == g.key, nzl, follow_exc=False)
            ctx.ob('C02.7', lim, sub, ok,
                   'affinity head-room test is count < limit: %s only '
                   'under %s' % (sub.value.value, N.show(goal)))
            continue
        atom = nz.atom(N.subst(K.rexpr(lim, sub.value), lenv))
        ctx.ob('C02.7', lim, sub, atom == want,
               'affinity head-room test is count < limit: %s' %
               N.show(atom))



def _strategy_index(ctx):
    """C02.5: the child a placement strategy suggests exists.  A strategy
    keeps its position between calls (an attribute of the object), while the
    list it indexes belongs to the bucket and can be rebound to a shorter one
    by another routine (the reload of the cell re-initialises the children):
    the wrap-around test must therefore cover *every* index at or beyond the
    end (>=, or a modulo), not just the one equal to the length - otherwise
    the next walk raises instead of offering the instance to the children
    that fit."""
    mod = ctx.index.module(K.SCHED)
    node_cls = ctx.index.get_class(K.SCHED, 'Node')
    rebinds = []
    for cls in mod.classes.values():
        for func in cls.methods.values():
            if func.name == '__init__':
                continue
            for sub in K.walk_no_nested(func.raw):
                if isinstance(sub, ast.Assign) and any(
                        N.txt(t) == 'self.children' for t in sub.targets):
                    rebinds.append(func.qualname)
    judged = 0
    for cls in mod.classes.values():
        for func in cls.methods.values():
            sites = [sub for sub in K.walk_no_nested(func.raw)
                     if isinstance(sub, ast.Subscript) and
                     N.txt(sub.value).endswith('.children') and
                     N.txt(sub.slice).startswith('self.') and
                     isinstance(sub.ctx, ast.Load)]
            if not sites:
                continue
            idx = N.txt(sites[0].slice)
            lst = N.txt(sites[0].value)
            tests = [sub for sub in K.walk_no_nested(func.raw)
                     if isinstance(sub, ast.Compare) and len(sub.ops) == 1
                     and {N.txt(sub.left), N.txt(sub.comparators[0])} ==
                     {idx, 'len(%s)' % lst}]
            modulo = any(isinstance(sub, ast.BinOp) and
                         isinstance(sub.op, ast.Mod) and
                         N.txt(sub.right) == 'len(%s)' % lst
                         for sub in K.walk_no_nested(func.raw))
            if not tests and not modulo:
                continue
            judged += 1
            exact = [t for t in tests
                     if isinstance(t.ops[0], (ast.Eq, ast.Is))]
            ok = modulo or not exact or not rebinds
            ctx.ob('C02.5', func, exact[0] if exact else sites[0], ok,
                   'the kept index %s wraps around for every value at or '
                   'beyond the end of %s' % (idx, lst) if ok else
                   'the kept index %s wraps around only when it *equals* '
                   'len(%s); %s rebinds the children to a list that can be '
                   'shorter, the index is then beyond the end and the walk '
                   'raises IndexError instead of offering the instance to '
                   'the children that fit' % (idx, lst, ', '.join(
                       sorted(set(rebinds)))),
                   construct='strategy index stays inside the children')
    ctx.require(judged >= 1, 'wrap-around test of a placement strategy',
                rule='C02.5')


def _identity_release(ctx):
    loop = PlacementLoop(ctx)
    reached = loop.reached
    # an instance that is skipped (no identity, not feasible, over the cap)
    # does not end the walk: the instances behind it still get their turn
    K.exhaustive_loop(ctx, 'C02.6', loop.func, loop.head,
                      'placement walk over the queue')
    for edge in K.loop_back_edges(loop.head):
        bad = None
        states = set()
        for (node, state) in reached:
            if node is not edge.src:
                continue
            for new in loop.step(edge, state):
                states.add(new)
                if not (new[0] == 'Y' or new[1] == 'clean'):
                    bad = (node, state)
        construct = 'end of iteration [%s] %s' % (
            K.controlling(edge.src, loop.graph), edge.src.text(60))
        ctx.ob('C02.6', loop.func, edge.src, bad is None,
               'no unplaced instance keeps an identity another fitting '
               'instance needs',
               path=K.describe(C.witness(reached, bad)) if bad else None,
               construct=construct, evals=max(1, len(states)))


def check(ctx):
    _strategy_index(ctx)
    _up, down, nz = _aggregates(ctx)
    _shortcut(ctx, down, nz)
    tracker = _memo(ctx, nz)
    _shape_complete(ctx, tracker)
    _key_keeps_levels(ctx, tracker)
    _walk(ctx)
    _identity_release(ctx)
    _exact_fit(ctx, nz)
    # shared with C04.1: the affinity head-room test reads counters that
    # move with placements and topology by whole multisets - an over-count
    # rejects a server that fits
    from . import c04
    with ctx.shared({'C04': 'C02.7'}):
        c04._counters(ctx)
        # the affinity an instance is counted under at placement is the one
        # withdrawn at removal: it is set by the constructor only (a name
        # changed in between leaves the old one counted for ever, and an
        # instance that fits is refused on a limit nobody reaches)
        c04._affinity_fixed(ctx)
    # shared with C05.2: an instance that is deleted hands its identity back
    # whether it is placed or not (else the pool shrinks for good and a
    # fitting member of the group stays pending)
    from . import c05
    with ctx.shared({'C05': 'C02.6'}):
        c05._model_removal(ctx)
        # an identity that is given back is free for the probe: identity 0
        # counts as an identity in every presence test
        c05.identity_presence_tests(ctx)


_S = 'lib/python/treadmill/scheduler/__init__.py'

MUTANTS = [
    ('revert-F30-strategy-index-wraps-on-equality-only', [(_S, """    def suggested_node(self):
        \"\"\"Suggest next node from the cycle.
        \"\"\"
        for _ in six.moves.xrange(0, len(self.node.children)):
            if self.current_idx >= len(self.node.children):
""", """    def suggested_node(self):
        \"\"\"Suggest next node from the cycle.
        \"\"\"
        for _ in six.moves.xrange(0, len(self.node.children)):
            if self.current_idx == len(self.node.children):
""")], 'C02.5'),
    ('revert-F19-memo-key-drops-limit-levels', [(_S, """        limits = tuple(sorted(
            (level, limit)
            for level, limit in six.iteritems(app.affinity.limits)
            if limit != float('inf')
        ))
        return constraints + (app.traits, limits), demand
""", """        return constraints + (app.traits,), demand
""")], 'C02.4'),
    ('memo-key-limit-values-only', [(_S, """            (level, limit)
            for level, limit in six.iteritems(app.affinity.limits)
""", """            limit
            for limit in six.itervalues(app.affinity.limits)
""")], 'C02.4'),
    ('adjust-up-minimum', [(_S, """        self.free_capacity = np.maximum(self.free_capacity, new_capacity)
""", """        self.free_capacity = np.minimum(self.free_capacity, new_capacity)
""")], 'C02.1'),
    ('adjust-up-no-propagation', [(_S, """        self.free_capacity = np.maximum(self.free_capacity, new_capacity)
        if self.parent:
            self.parent.adjust_capacity_up(self.free_capacity)
""", """        self.free_capacity = np.maximum(self.free_capacity, new_capacity)
""")], 'C02.1'),
    ('recompute-skips-frozen-wrongly', [(_S, """                if child_node.state is not State.up:
                    continue

                free_capacity = np.maximum(""", """                if child_node.state is not State.up or child_node.empty():
                    continue

                free_capacity = np.maximum(""")], 'C02.1'),
    ('recompute-minimum', [(_S, """                free_capacity = np.maximum(free_capacity,
                                           child_node.free_capacity)
""", """                free_capacity = np.minimum(free_capacity,
                                           child_node.free_capacity)
""")], 'C02.1'),
    ('remove-conditional-adjust-up', [(_S, """        if self.parent:
            self.parent.adjust_capacity_up(self.free_capacity)

    def remove_all(self):""", """        if self.parent and _all_gt(self.free_capacity,
                                   self.parent.free_capacity):
            self.parent.adjust_capacity_up(self.free_capacity)

    def remove_all(self):""")], 'C02.1'),
    ('state-up-no-adjust', [(_S, """        if state == State.up:
            if self.parent:
                self.parent.adjust_capacity_up(self.free_capacity)
        elif state in (State.down, State.frozen):""", """        if state == State.up:
            pass
        elif state in (State.down, State.frozen):""")], 'C02.1'),
    ('traits-and-instead-of-or', [(_S, """            self.traits |= trait
""", """            self.traits &= trait
""")], 'C02.1'),
    ('traits-has-any', [(_S, """        return (self.traits & traits) == traits
""", """        return (self.traits & traits) != 0
""")], 'C02.1'),
    ('add-node-no-labels', [(_S, """        self.increment_affinity(node.affinity_counters)
        self.add_labels(node.labels)
""", """        self.increment_affinity(node.affinity_counters)
""")], 'C02.1'),
    ('labels-not-propagated', [(_S, """        self.labels.update(labels)
        if self.parent:
            self.parent.add_labels(self.labels)
""", """        self.labels.update(labels)
""")], 'C02.1'),
    ('bucket-add-node-no-capacity', [(_S, """        super(Bucket, self).add_node(node)
        self.adjust_capacity_up(node.free_capacity)
""", """        super(Bucket, self).add_node(node)
""")], 'C02.1'),
    ('shortcut-any', [(_S, """            if prev_capacity is not None and _all_lt(prev_capacity,
                                                     self.free_capacity):
                return
""", """            if prev_capacity is not None and _any_lt(prev_capacity,
                                                     self.free_capacity):
                return
""")], 'C02.2'),
    ('shortcut-le', [(_S, """            if prev_capacity is not None and _all_lt(prev_capacity,
                                                     self.free_capacity):
                return
""", """            if prev_capacity is not None and _all_le(prev_capacity,
                                                     self.free_capacity):
                return
""")], 'C02.2'),
    ('memo-any-ge', [(_S, """            if _all_ge(demand, self.recorder[constraints]):
                return False
""", """            if _any_ge(demand, self.recorder[constraints]):
                return False
""")], 'C02.3'),
    ('memo-record-minimum', [(_S, """            if _all_le(demand, self.recorder[constraints]):
                self.recorder[constraints] = demand
""", """            self.recorder[constraints] = np.minimum(
                self.recorder[constraints], demand)
""")], 'C02.3'),
    ('memo-replace-any', [(_S, """            if _all_le(demand, self.recorder[constraints]):
                self.recorder[constraints] = demand
""", """            if _any_le(demand, self.recorder[constraints]):
                self.recorder[constraints] = demand
""")], 'C02.3'),
    ('memo-key-without-traits', [(_S, """        return constraints + (app.traits, limits), demand
""", """        return constraints + (limits,), demand
""")], 'C02.4'),
    ('shape-without-lease', [(_S, """        constraints = (self.affinity.constraints + (self.lease,))
""", """        constraints = self.affinity.constraints
""")], 'C02.4'),
    ('walk-breaks-on-not-up', [(_S, """                _LOGGER.debug('Node not up: %s, %s', node.name, node.state)
            else:""", """                _LOGGER.debug('Node not up: %s, %s', node.name, node.state)
                break
            else:""")], 'C02.5'),
    ('walk-returns-on-first-failure', [(_S, """                if node.put(app):
                    return True

            node = strategy.next_node()
""", """                return node.put(app)

            node = strategy.next_node()
""")], 'C02.5'),
    ('exact-fit-rejected', [(_S, """        if _any_gt(app.demand, self.free_capacity):
            _LOGGER.info('Not enough free""", """        if _any_ge(app.demand, self.free_capacity):
            _LOGGER.info('Not enough free""")], 'C02.7'),
    ('limit-off-by-one', [(_S, """        return count < limit
""", """        return count + 1 < limit
""")], 'C02.7'),
    ('release-dropped-infeasible', [(_S, """                    'Placement not feasible: %s %r', app.name, app.shape()
                )
                app.release_identity()
""", """                    'Placement not feasible: %s %r', app.name, app.shape()
                )
""")], 'C02.6'),
]

REFACTORS = [
    ('recompute-eq-up', [(_S, """                if child_node.state is not State.up:
                    continue

                free_capacity = np.maximum(""", """                if child_node.state != State.up:
                    continue

                free_capacity = np.maximum(""")]),
    ('recompute-nested-if', [(_S, """                if child_node.state is not State.up:
                    continue

                free_capacity = np.maximum(free_capacity,
                                           child_node.free_capacity)
""", """                if child_node.state is State.up:
                    free_capacity = np.maximum(free_capacity,
                                               child_node.free_capacity)
""")]),
    ('maximum-operands-swapped', [(_S, """        self.free_capacity = np.maximum(self.free_capacity, new_capacity)
""", """        self.free_capacity = np.maximum(new_capacity, self.free_capacity)
""")]),
    ('shortcut-as-not-any-ge', [(_S, """            if prev_capacity is not None and _all_lt(prev_capacity,
                                                     self.free_capacity):
                return
""", """            if prev_capacity is not None and not _any_ge(
                    prev_capacity, self.free_capacity):
                return
""")]),
    ('memo-swapped-le', [(_S, """            if _all_ge(demand, self.recorder[constraints]):
                return False
""", """            if _all_le(self.recorder[constraints], demand):
                return False
""")]),
    ('parent-is-not-none', [(_S, """        if self.parent:
            self.parent.adjust_capacity_up(self.free_capacity)

    def remove_all(self):""", """        if self.parent is not None:
            self.parent.adjust_capacity_up(self.free_capacity)

    def remove_all(self):""")]),
    ('limit-swapped', [(_S, """        return count < limit
""", """        return limit > count
""")]),
    ('walk-continue-style', [(_S, """            if node.state is not State.up:
                _LOGGER.debug('Node not up: %s, %s', node.name, node.state)
            else:
                if node.put(app):
                    return True

            node = strategy.next_node()
""", """            if node.state is State.up and node.put(app):
                return True

            node = strategy.next_node()
""")]),
]
