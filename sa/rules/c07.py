"""C07 - a running instance is displaced only for an instance ahead of it."""

import ast

from .. import cfg as C
from .. import norm as N
from . import common as K
from .sched_model import PlacementLoop

EXPLANATION = """
All rules are on the placement loop (Cell._find_placements).
C07.1 victims are taken from the reverse of the same queue the loop walks.
C07.2 the victim scan is entered only after the general placement of the
current instance failed; a victim is removed only on the false edge of
`victim == current`, whose true edge leaves the scan, and only if it is placed
on an up server.  C07.3 a victim is recorded (server, expiry) in the restore
map before it is removed; an instance found in the map is restored to the
recorded server before the general placement is tried; and no exit of an
iteration can precede that restore attempt except the documented ones
(blacklisted, beyond the utilisation cap, still placed, no identity).
C07.4 the current instance itself is removed only when it is beyond the cap
or its lease renewal failed; a placed instance whose renewal succeeded leaves
the iteration untouched.  C07.5 the per-allocation sort key puts running
before pending (shared with C06.1).  C07.6 the inactive-server pre-pass
collects instances only from servers that are down (expired retention) or
frozen (unschedule flag) - never from an up server (shared with C08.1).
Added by the seeding rounds - C07.3 the restore map is created before the walk
and never re-initialised inside it, and no iteration ends before the restore
attempt except the documented exits; C07.4 (shared with C03.5) the current
instance is moved for a renewal only when the renewal really failed; C07.6
(shared with C08.1) the inactive-server pre-pass takes nothing off an up
server. Fourth round: C07.4 the verbatim restore neutralises the lease
completely (shared with C01.6).
Fifth round: C07.1 a victim scan by position starts at position 0 of the reversed queue; C07.5 the merge of the sub-queues compares whole entries (shared with C06.5).
Sixth round: C07.3 what Server.remove gives back is exactly what Server.put took (shared with C01.2).
Seventh round: C07.2 an instance is listed by one allocation only - Cell.add_app takes it out of the allocation it belonged to before it joins another (a stale second entry makes the backward scan displace an instance that is ahead; shared with C06.5); C07.3 the affinity counters of a node follow what is attached below it, so the limit test of Server.restore cannot refuse a victim displaced for nothing (shared with C04.1).
Eighth round: C07.5 the pending flag of a queue entry is `0 if app.server else 1` for every instance, whatever its priority (entry layout shared with C06.4).
Does NOT decide the relation between queue order and the before/after
placements of a whole cycle (a property of the run).
"""

ASSUMPTIONS = [
    'queue[::-1] / reversed(queue) enumerate the queue backwards',
]

MIN_OBLIGATIONS = 10
MIN_PER_RULE = {'C07.1': 2, 'C07.2': 3, 'C07.3': 3, 'C07.4': 2, 'C07.5': 1,
                'C07.6': 6}


def check(ctx):
    # C07.6: the pre-pass of a cycle takes nothing off a server that is up
    # (same rule instances as C08.1)
    from . import c08
    c08._inactive(ctx, rule='C07.6')
    loop = PlacementLoop(ctx)
    func, graph, head, var = loop.func, loop.graph, loop.head, loop.var
    nz = loop.nz
    # shared with C03.5: an instance in place is moved for a lease renewal
    # only when the renewal really failed - Server.renew decides through the
    # admission lifetime test (no lease: always renewable) and the fallback
    # restores the recorded server and expiry
    from . import c03
    with ctx.shared({'C03': 'C07.4'}):
        c03._renewal(ctx, nz, ctx.index.get_class(K.SCHED, 'Server'), loop)
    # shared with C01.6: a victim goes back to its server with its recorded
    # expiry whatever its lease - the restore neutralises the lease
    # completely, so a displaced instance is not lost to the lifetime test
    from . import c01
    srv_cls = ctx.index.get_class(K.SCHED, 'Server')
    _nz1, _srv1, _ncls1, put1, _rm1, _pred1 = c01._roles(ctx)
    c01._restore(ctx, srv_cls, put1, rule='C07.4')
    # shared with C01.2: what Server.remove gives back is exactly what
    # Server.put took (the same additions in reverse) - a victim that was
    # displaced for nothing must fit back where it was
    with ctx.shared({'C01': 'C07.3'}):
        c01._pair(ctx, put1, _rm1)
    body = loop.body()
    queue = N.txt(head.ast.iter)
    # ---- C07.1 -----------------------------------------------------------
    def victim_of(loop_node):
        """(victim local, domain expression, index range or None) of a
        loop that takes instances off their servers: the loop target
        itself, or a local read from <domain>[<loop target>] when the walk
        goes by position."""
        tgt = sorted(N.for_targets(loop_node))[0]
        cands = [(tgt, loop_node.ast.iter, None)]
        for m in K.loop_body_nodes(loop_node):
            if m.kind == 'stmt' and isinstance(m.ast, ast.Assign) and \
                    isinstance(m.ast.targets[0], ast.Name) and \
                    isinstance(m.ast.value, ast.Subscript) and \
                    N.txt(m.ast.value.slice) == tgt:
                cands.append((m.ast.targets[0].id, m.ast.value.value,
                              loop_node.ast.iter))
        for name, dom, rng in cands:
            if any(K.is_meth(c, 'remove') and c.args and
                   N.txt(c.args[0]) == '%s.name' % name
                   for m in K.loop_body_nodes(loop_node)
                   for c in C.node_calls(m)):
                return name, dom, rng
        return None
    inner = [n for n in body if n.kind == 'for' and victim_of(n)]
    scan = K.one(inner, 'victim scan loop inside the placement loop')
    victim, dom_expr, by_index = victim_of(scan)
    if by_index is not None:
        # a walk by position covers the list only from its first position
        whole = isinstance(by_index, ast.Call) and \
            N.txt(by_index.func) == 'range' and (
                (len(by_index.args) == 1 and
                 N.txt(by_index.args[0]) == 'len(%s)' % N.txt(dom_expr)) or
                (len(by_index.args) == 2 and
                 N.txt(by_index.args[0]) == '0' and
                 N.txt(by_index.args[1]) == 'len(%s)' % N.txt(dom_expr)))
        ctx.ob('C07.1', func, scan, whole,
               'a scan by position starts at the far end of the queue and '
               'covers it up to the current instance (%s)' %
               N.txt(by_index), construct='victim scan positions')
    src = dom_expr
    if isinstance(dom_expr, ast.Name):
        defs = [s for s in K.walk_no_nested(func.node)
                if isinstance(s, ast.Assign) and
                N.txt(s.targets[0]) == dom_expr.id]
        ctx.ob('C07.1', func, scan, len(defs) == 1,
               'the victim list is bound once', construct='victim list '
                                                          'binding')
        if defs:
            src = defs[0].value
    else:
        ctx.ob('C07.1', func, scan, True,
               'the victim list is computed where it is walked',
               construct='victim list binding')
    stxt = N.txt(src)
    ok = stxt in ('%s[::-1]' % queue, 'reversed(%s)' % queue,
                  'list(reversed(%s))' % queue)
    ctx.ob('C07.1', func, scan, ok,
           'victims come from the reverse of the queue being walked: %s' %
           stxt, construct='victim scan domain')
    # ---- C07.2 -----------------------------------------------------------
    sbody = K.loop_body_nodes(scan)
    removes = [n for n in sbody if any(
        K.is_meth(c, 'remove') and c.args and
        N.txt(c.args[0]) == '%s.name' % victim for c in C.node_calls(n))]
    ctx.require(removes, 'victim removal in the scan', rule='C07.2')

    def general_failed(edge):
        for atom in nz.facts_of_edge(edge):
            if atom.key[0] == 'truth' and not atom.key[2] and \
                    atom.key[1] == 'self.put(%s)' % var:
                return True
        return False
    ctx.ob('C07.2', func, scan,
           K.guarded_by(graph, scan, general_failed, start=head),
           'the victim scan starts only after self.put(%s) failed' % var,
           construct='scan entered after failed placement')
    stop_tests = [n for n in sbody if n.kind == 'test' and
                  nz.atom(n.ast).key[0] == 'cmp' and
                  nz.atom(n.ast).key[1] == '==' and sorted(
                      t for t, _c in nz.atom(n.ast).key[2]) ==
                  sorted([var, victim])]
    ctx.ob('C07.2', func, stop_tests[0] if stop_tests else scan,
           len(stop_tests) == 1,
           'the scan compares the victim with the current instance',
           construct='%s == %s' % (victim, var))
    for test in stop_tests:
        for edge in test.succ:
            if edge.kind != 'true':
                continue
            region = K.cut_reach(graph, edge.dst,
                                 cut_node=lambda n: n is scan,
                                 follow_exc=False)
            back = edge.dst is scan or any(
                e.dst is scan for n in region if n in sbody
                for e in n.succ)
            rem_after = [n for n in region if n in removes]
            ctx.ob('C07.2', func, test, not back and not rem_after,
                   'reaching the current instance ends the scan and '
                   'nothing is removed afterwards',
                   construct='scan stops at the current instance')
        for rnode in removes:
            ok = K.guarded_by(graph, rnode,
                              lambda e, t=test: e.src is t and
                              e.kind == 'false', start=scan)
            ctx.ob('C07.2', func, rnode, ok,
                   'a victim is removed only behind the current instance '
                   '(false edge of %s == %s)' % (victim, var))
    for rnode in removes:
        ok = K.guarded_by(graph, rnode, lambda e: K.truth_edge(
            nz, e, '%s.server' % victim, True), start=scan)
        ctx.ob('C07.2', func, rnode, ok,
               'only a placed instance is taken as victim',
               construct='victim is placed')
    # ---- C07.3 -----------------------------------------------------------
    maps = {}
    for node in sbody:
        if node.kind == 'stmt' and isinstance(node.ast, ast.Assign) and \
                isinstance(node.ast.targets[0], ast.Subscript) and \
                N.txt(node.ast.targets[0].slice) == victim:
            maps[N.txt(node.ast.targets[0].value)] = node
    ctx.require(maps, 'restore map keyed by the victim', rule='C07.3')
    mname, mnode = sorted(maps.items())[0]
    for rnode in removes:
        ok = K.guarded_by(graph, rnode, lambda e: e.src is mnode,
                          start=scan)
        ctx.ob('C07.3', func, rnode, ok,
               'the victim is recorded in %s before it is removed' % mname,
               construct='record before removal')
    # the map lives for the whole walk: the victims of one scan are still
    # known when the walk reaches them
    resets = [n for n in body if n.kind == 'stmt' and (
        isinstance(n.ast, (ast.Assign, ast.AugAssign, ast.AnnAssign)) and
        any(N.txt(t) == mname for t in (
            n.ast.targets if isinstance(n.ast, ast.Assign)
            else [n.ast.target])) or any(
                K.is_meth(c, 'clear') and K.recv_text(c) == mname
                for c in C.node_calls(n)))]
    inits = [n for n in graph.nodes if n not in body and n.kind == 'stmt'
             and isinstance(n.ast, ast.Assign) and
             any(N.txt(t) == mname for t in n.ast.targets)]
    ctx.ob('C07.3', func, resets[0] if resets else
           (inits[0] if inits else head),
           not resets and bool(inits),
           '%s is created before the walk and never re-initialised inside '
           'it' % mname if not resets else
           '%s is re-initialised inside the walk: victims of an earlier '
           'scan are forgotten and never restored' % mname,
           construct='restore map lifetime')
    val = mnode.ast.value
    vtxt = K.rtxt(func, val)
    # the victim under its own name or as what that name stands for
    vres = K.rtxt(func, ast.Name(id=victim, ctx=ast.Load()))
    ctx.ob('C07.3', func, mnode,
           ('%s.placement_expiry' % victim in vtxt or
            '%s.placement_expiry' % vres in vtxt) and 'server' in vtxt,
           'the record holds the victim server and expiry: %s' % vtxt,
           construct='record content')
    mtests = [n for n in body if n.kind == 'test' and
              nz.atom(n.ast).key[0] == 'in' and
              nz.atom(n.ast).key[1] == var and
              nz.atom(n.ast).key[2] == mname]
    ctx.ob('C07.3', func, mtests[0] if mtests else head, len(mtests) == 1,
           'the loop looks the current instance up in %s' % mname,
           construct='%s in %s' % (var, mname))
    general = [n for n in body if any(
        K.is_meth(c, 'put') and K.recv_text(c) == 'self' and c.args and
        N.txt(c.args[0]) == var for c in C.node_calls(n))]
    ctx.require(general, 'general placement self.put(%s)' % var, rule='C07.3')
    for mtest in mtests:
        def restores(node):
            return any(K.is_meth(c, 'restore') and c.args and
                       N.txt(c.args[0]) == var for c in C.node_calls(node))
        for gnode in general:
            path = K.find_path(
                head, [gnode], cut_node=restores,
                cut_edge=lambda e, t=mtest: (e.src is t and any(
                    a.key[0] == 'in' and a.key[1] == var and
                    a.key[2] == mname and not a.key[3]
                    for a in nz.facts_of_edge(e))) or
                e.kind == 'done', follow_exc=False)
            # paths through the false edge are fine (not a victim); the
            # path found must therefore avoid the map test entirely or
            # take its true edge without restoring
            ctx.ob('C07.3', func, gnode, path is None,
                   'an instance found in %s is restored to its recorded '
                   'server before the general placement' % mname,
                   path=K.describe(path) if path else None,
                   construct='restore before general placement')
        # exits that precede the restore attempt
        allowed = []
        early = K.cut_reach(graph, [e.dst for e in head.succ
                                    if e.kind == 'iter'][0],
                            cut_node=lambda n, t=mtest: n is t or n is head,
                            follow_exc=False)
        for edge in K.loop_back_edges(head):
            if edge.src not in early or edge.src is mtest:
                continue

            def documented(e):
                for atom in nz.facts_of_edge(e):
                    key = atom.key
                    if key[0] == 'truth' and key[2] and \
                            key[1] == '%s.blacklisted' % var:
                        return True
                    if key[0] == 'cmp' and key[1] == '==' and \
                            '%s.final_rank' % var in [t for t, _c in
                                                      key[2]]:
                        return True
                    if key[0] == 'truth' and key[2] and \
                            key[1] == '%s.server' % var:
                        return True
                    if key[0] == 'truth' and not key[2] and \
                            'acquire_identity' in key[1]:
                        return True
                return False
            ok = K.guarded_by(graph, edge.src, documented, start=head) or \
                (edge.src.kind == 'test' and documented(edge))
            allowed.append(ok)
            ctx.ob('C07.3', func, edge.src, ok,
                   'an iteration ends before the restore attempt only for '
                   'a blacklisted / over-cap / still-placed / identity-less '
                   'instance' if ok else
                   'an evicted instance can leave the iteration before its '
                   'restore is attempted (it would stay displaced for '
                   'nobody)',
                   construct='early end of iteration [%s]' %
                   K.controlling(edge.src, graph))
    # ---- C07.4 -----------------------------------------------------------
    own = [n for n in body if any(loop.removes(c)
                                  for c in C.node_calls(n))]
    ctx.require(own, 'removals of the current instance', rule='C07.4')
    for rnode in own:
        def justified(e):
            for atom in nz.facts_of_edge(e):
                key = atom.key
                if key[0] == 'cmp' and key[1] == '==' and \
                        '%s.final_rank' % var in [t for t, _c in key[2]]:
                    return True
                if key[0] == 'truth' and not key[2] and \
                        '.renew(' in key[1]:
                    return True
            return False
        ctx.ob('C07.4', func, rnode,
               K.guarded_by(graph, rnode, justified, start=head),
               'the current instance is removed only beyond the cap or '
               'after a failed lease renewal')
    # renewal attempted only when requested
    rtests = [n for n in body if n.kind == 'test' and
              '.renew(' in K.test_text(func, n)]
    for rtest in rtests:
        ok = K.guarded_by(graph, rtest, lambda e: K.truth_edge(
            nz, e, '%s.renew' % var, True), start=head)
        ctx.ob('C07.4', func, rtest, ok,
               'a lease renewal is attempted only when the instance asked '
               'for it', construct='renew only when app.renew')
    # ---- C07.5 -----------------------------------------------------------
    alloc = ctx.index.get_class(K.SCHED, 'Allocation')
    ok = False
    where = None
    for f in alloc.live_methods():
        for sub in K.walk_no_nested(f.node):
            if isinstance(sub, ast.Call) and \
                    K.callee_text(sub) == 'sorted':
                kf, param, tup = K.sort_key_tuple(ctx.index, f, sub)
                where = kf or f
                if isinstance(tup, ast.Tuple) and len(tup.elts) > 1:
                    ok = K.placed_first(ctx.index, kf or f, tup.elts[1],
                                        param)
    ctx.ob('C07.5', where or func, None, ok,
           'instances of equal priority: running before pending in the sort '
           'key', construct='sort key running-before-pending')
    # shared with C06.5: the order between allocations is decided by whole
    # queue entries (rank, utilisation, pending flag, arrival) - the merge of
    # the sub-queues compares all of it and drops nothing
    from . import c06
    with ctx.shared({'C06': 'C07.5'}):
        _alloc6, priv6, merged6 = c06._generators(ctx)
        c06._exactly_once(ctx, priv6, merged6)
        # ... and the pending flag of an entry is `0 if app.server else 1`
        # for every instance, whatever its priority: between allocations of
        # equal rank and utilisation it is what puts a running instance
        # ahead of a pending one
        c06._layout(ctx, priv6, merged6)
    # shared with C06.5 / C03.4: an instance is listed by one allocation only
    # (Cell.add_app takes it out of the allocation it belonged to before it
    # joins the new one) - an instance listed twice has a stale second entry
    # behind the real one, the backward scan of an instance between the two
    # meets the stale entry first and displaces an instance that is ahead
    with ctx.shared({'C06': 'C07.2'}):
        c06._single_membership(ctx)
    # shared with C04.1: the affinity counters of a node follow what is
    # attached below it - a counter inflated by a detached server makes the
    # limit test of Server.restore refuse a victim that was displaced for
    # nothing, and it stays off its server although nobody gained a place
    from . import c04
    with ctx.shared({'C04': 'C07.3'}):
        c04._counters(ctx)


_S = 'lib/python/treadmill/scheduler/__init__.py'

MUTANTS = [
    ('victims-from-front', [(_S, """        reversed_queue = queue[::-1]
""", """        reversed_queue = queue[:]
""")], 'C07.1'),
    ('scan-without-stop', [(_S, """                    # We reached the app we can't place
                    if evicted_app == app:
                        break

""", "")], 'C07.2'),
    ('scan-stop-continues', [(_S, """                    if evicted_app == app:
                        break
""", """                    if evicted_app == app:
                        continue
""")], 'C07.2'),
    ('scan-before-general-placement', [(_S, """            if not self.put(app):
                # There is not enough capacity, from the end of the queue,
                # evict apps, freeing capacity.
                for evicted_app in reversed_queue:""", """            if app.priority > 50 or not self.put(app):
                # There is not enough capacity, from the end of the queue,
                # evict apps, freeing capacity.
                for evicted_app in reversed_queue:""")], 'C07.2'),
    ('victim-not-recorded', [(_S, """                    evicted[evicted_app] = (evicted_app_server,
                                            evicted_app.placement_expiry)
                    evicted_app_server.remove(evicted_app.name)
""", """                    evicted_app_server.remove(evicted_app.name)
                    evicted[evicted_app] = (evicted_app_server,
                                            evicted_app.placement_expiry)
""")], 'C07.3'),
    ('restore-after-general', [(_S, """            # If app was evicted before, try to restore to the same node.
            if app in evicted:
                assert app.has_identity()

                evicted_from, app_expiry = evicted[app]
                del evicted[app]
                if evicted_from.restore(app, app_expiry):
                    app.evicted = False
                    continue

            assert app.server is None

            if app.schedule_once and app.evicted:""", """            assert app.server is None

            if app.schedule_once and app.evicted:""")], 'C07.3'),
    ('feasibility-before-restore', [(_S, """            if not app.acquire_identity():
                _LOGGER.info('Unable to acquire identity: %s, %s', app.name,
                             app.identity_group)
                continue
""", """            if not placement_tracker.feasible(app):
                app.release_identity()
                continue

            if not app.acquire_identity():
                _LOGGER.info('Unable to acquire identity: %s, %s', app.name,
                             app.identity_group)
                continue
""")], 'C07.3'),
    ('low-priority-dropped', [(_S, """            restore = {}
            if app.renew:""", """            if app.priority == 0 and app.server and len(evicted) > 3:
                servers[app.server].remove(app.name)
                app.release_identity()
                continue

            restore = {}
            if app.renew:""")], 'C07.4'),
    ('renew-always', [(_S, """            restore = {}
            if app.renew:
                assert app.server""", """            restore = {}
            if app.renew or app.lease:
                assert app.server""")], 'C07.4'),
    ('pending-before-running', [(_S, """            return (-app.priority, 0 if app.server else 1,
""", """            return (-app.priority, 1 if app.server else 0,
""")], 'C07.5'),
]

MUTANTS += [
    ('prepass-takes-from-up-server', [(_S, """            elif state == State.frozen:
                _LOGGER.debug('Server state is frozen: %s', server.name)
""", """            else:
                _LOGGER.debug('Server state is frozen: %s', server.name)
""")], 'C07.6'),
]

REFACTORS = [
    ('victims-reversed-builtin', [(_S, """        reversed_queue = queue[::-1]
""", """        reversed_queue = list(reversed(queue))
""")]),
    ('scan-stop-swapped', [(_S, """                    if evicted_app == app:
                        break
""", """                    if app == evicted_app:
                        break
""")]),
    ('record-split', [(_S, """                    evicted[evicted_app] = (evicted_app_server,
                                            evicted_app.placement_expiry)
""", """                    expiry = evicted_app.placement_expiry
                    evicted[evicted_app] = (evicted_app_server,
                                            evicted_app.placement_expiry)
""")]),
]

REFACTORS += [
    ('victim-scan-by-position', [(_S, """                for evicted_app in reversed_queue:
                    # We reached the app we can't place
""", """                for idx in range(len(reversed_queue)):
                    evicted_app = reversed_queue[idx]
                    # We reached the app we can't place
""")]),
]

MUTANTS += [
    ('victim-scan-from-cursor', [(_S, """                for evicted_app in reversed_queue:
                    # We reached the app we can't place
""", """                for idx in range(1, len(reversed_queue)):
                    evicted_app = reversed_queue[idx]
                    # We reached the app we can't place
""")], 'C07.1'),
]
