"""C03 - placements honour partition, traits, server state and lease."""

import ast

from .. import cfg as C
from .. import norm as N
from ..index import dotted_text
from . import common as K
from .sched_model import PlacementLoop

EXPLANATION = """
C03.1 every placement passes admission: the leaf placement stores only after
check_app_lifetime and check_app_constraints returned true; the constraint
predicate accepts only when (no allocation or label in labels) and
(no traits or traits.has(required)); C03.1b the lifetime test admits a leased
instance only under now + lease < valid_until.  C03.2 the lease bypass is
confined: only the restore routine neutralises the lease, its callers are
the placement loop and Loader.restore_placement, the latter only under
'presence exists and presence ctime <= placement ctime'.  C03.3 children and
eviction victims' servers receive an instance only when their state is up.
C03.4 kept placements are re-validated each cycle: the validation pass keeps
a placement on an existing server only if the allocation's label is among the
server's labels and the server has the required traits, and Cell.schedule
runs it before any partition is scheduled.  C03.5 renewal extends the expiry
only when the lifetime test passes; a failed renewal records server and
expiry before removing and restores exactly those.  C03.6 unknown required
traits are unsatisfiable (use_invalid=True for instance and allocation
encoders, never for the server encoder; INVALID bit reserved).
Added by the seeding rounds - C03.1 a granted expiry is now + lease (computed
grants only) and placement happens only after the lifetime test passed (judged
by what the test establishes, through helpers and compound locals); C03.2 the
lease is re-instated on every exit of restore (shared with C01.6); C03.5 a
renewal is refused only for an instance that has a lease and the fallback
restores exactly the recorded server and expiry; C03.6 every new trait gets a
fresh code bit and unknown traits are unsatisfiable. Fourth round: C03.4 every
call of Cell.add_app queues the instance with the allocation given (shared
with C06.5).
Fifth round: C03.3 a requested state is stored on every path of Node.set_state and the override of Server forwards every request unless the server already is in that state (shared with C08.6); C03.4 the re-validation pass is found through helpers spliced in at a condition.
Sixth round: C03.3 every server that came up goes through reload_server and adjust_server_state (shared with C08.5).
Seventh round: C03.3 the partition of a server is the recorded one (the default only when the record names none; shared with C11.1), and a server whose record was read again keeps its old object only when the fresh one is the same under the same parent (shared with C01.5).
Eighth round: C03.4 the allocation object a record configures, and its assignments point to, is resolved from the partition the record names at every load (root allocation of self.cell.partitions[..] and get_sub_alloc steps only - no object remembered by name).
Ninth round: C03.6 the reserved key of the trait table is not a trait - a name from the input is looked up or registered in the table only when it is not the reserved name (F22: a server listing a trait literally called 'invalid' carried the unknown-trait bit; repaired in /repo). Also C03.1 a server is put up for reboot only once its valid_until has passed on the clock (no look-ahead); C03.4 assignments are filed and looked up under the same key (shared with C06.7).
Does NOT decide that a granted expiry never exceeds the reboot time over
clock advances.
"""

ASSUMPTIONS = [
    'State members are compared by identity/equality only (enum)',
]

MIN_OBLIGATIONS = 22
MIN_PER_RULE = {'C03.1': 5, 'C03.2': 3, 'C03.3': 2, 'C03.4': 3, 'C03.5': 3,
                'C03.6': 4}


def _is_up_edge(nz, edge, recv_txt):
    """edge establishes <recv>.state is/== State.up; ``recv_txt`` is the
    receiver's text or a collection of texts that denote it (the name and
    what the name stands for)."""
    names = [recv_txt] if isinstance(recv_txt, str) else list(recv_txt)
    for atom in nz.facts_of_edge(edge):
        key = atom.key
        for name in names:
            if key[0] == 'is' and key[3] and \
                    sorted(key[1:3]) == sorted(['State.up',
                                                '%s.state' % name]):
                return True
            if key[0] == 'cmp' and key[1] == '==' and sorted(
                    t for t, _c in key[2]) == sorted(
                        ['State.up', '%s.state' % name]):
                return True
    return False


def _lifetime_ok(app):
    """Atom predicate: what a passed lifetime test establishes."""
    want = N.cmp_atom(
        ast.parse('time.time() + %s.lease' % app, mode='eval').body, '<',
        ast.parse('self.valid_until', mode='eval').body)

    def pred(atom):
        key = atom.key
        if key[0] == 'truth' and not key[2] and key[1] == '%s.lease' % app:
            return True
        if key[0] == 'cmp' and key[1] == '==' and \
                [t for t, _c in key[2]] == ['%s.lease' % app] and \
                not dict(key[2]).get('', 0):
            return True
        if key[0] == 'cmp':
            try:
                return N.same_direction(atom, want)
            except Exception:             # pylint: disable=broad-except
                return False
        return False
    return pred


def _implies(form, pred):
    """The formula, when it holds, establishes an atom accepted by pred
    (and: some conjunct does; or: every disjunct does)."""
    if form[0] == 'atom':
        return pred(form[1])
    if form[0] == 'and':
        return any(_implies(part, pred) for part in form[1])
    return bool(form[1]) and all(_implies(part, pred) for part in form[1])


def _admission(ctx):
    index = ctx.index
    nz = N.Normaliser(N.VecHelpers(index.module(K.SCHED)))
    server = index.get_class(K.SCHED, 'Server')
    node_cls = index.get_class(K.SCHED, 'Node')
    put = K.one([f for f in server.live_methods() if any(
        isinstance(s, ast.Assign) and any(
            isinstance(t, ast.Subscript) and N.txt(t.value) == 'self.apps'
            for t in s.targets) for s in K.walk_no_nested(f.node))],
        'Server method storing into self.apps')
    graph = ctx.cfg(put)
    stores = [n for n in graph.nodes if n.kind == 'stmt' and
              isinstance(n.ast, ast.Assign) and any(
                  isinstance(t, ast.Subscript) and
                  N.txt(t.value) == 'self.apps' for t in n.ast.targets)]
    papp = put.params()[1]
    for node in stores:
        ok = K.guarded_by(graph, node, lambda e: any(
            a.key[0] == 'truth' and a.key[2] and
            a.key[1].startswith('self.check_app_constraints(')
            for a in nz.facts_of_edge(e)))
        ctx.ob('C03.1', put, node, ok,
               'placement only after self.check_app_constraints(...) '
               'returned true',
               construct='%s <= check_app_constraints' % node.text(50))
        # the lifetime test, by what it establishes (through the method, a
        # helper or spelled out): no lease, or now + lease < valid_until
        ok = K.guarded_by_atoms(ctx, put, graph, node,
                                _lifetime_ok(papp), nz)
        ctx.ob('C03.1', put, node, ok,
               'placement only after the lifetime test passed (no lease, '
               'or now + lease < valid_until)',
               construct='%s <= check_app_lifetime' % node.text(50))
    pred = index.find_method(node_cls, 'check_app_constraints')
    ctx.require(pred is not None, 'Node.check_app_constraints')
    pgraph = ctx.cfg(pred)
    app = pred.params()[1]
    accepts = [n for n in pgraph.nodes if n.kind == 'return' and not (
        n.ast.value is None or (isinstance(n.ast.value, ast.Constant) and
                                not n.ast.value.value))]
    ctx.require(accepts, 'accepting return of check_app_constraints',
        rule='C03.1')

    def label_atom(atom):
        key = atom.key
        if key[0] == 'in' and key[3] and \
                key[1] == '%s.allocation.label' % app and \
                key[2] == 'self.labels':
            return True
        if key[0] == 'is' and key[3] and \
                key[1] == '%s.allocation' % app and key[2] == 'None':
            return True
        if key[0] == 'truth' and not key[2] and \
                key[1] == '%s.allocation' % app:
            return True
        return False

    def traits_atom(atom):
        key = atom.key
        if key[0] == 'truth' and key[2] and \
                key[1] == 'self.traits.has(%s.traits)' % app:
            return True
        if key[0] == 'cmp' and key[1] == '==' and \
                [t for t, _c in key[2]] == ['%s.traits' % app]:
            return True
        if key[0] == 'truth' and not key[2] and \
                key[1] == '%s.traits' % app:
            return True
        return False
    for node in accepts:
        ctx.ob('C03.1', pred, node,
               K.guarded_by_atoms(ctx, pred, pgraph, node, label_atom, nz),
               'accept only when the allocation label is among the node '
               'labels (or there is no allocation)',
               construct='accept => partition label')
        ctx.ob('C03.1', pred, node,
               K.guarded_by_atoms(ctx, pred, pgraph, node, traits_atom, nz),
               'accept only when the node has every required trait (or '
               'none is required)', construct='accept => traits')
    # lifetime
    life = index.find_method(server, 'check_app_lifetime')
    ctx.require(life is not None, 'Server.check_app_lifetime')
    lgraph = ctx.cfg(life)
    app = life.params()[1]
    want = N.cmp_atom(
        ast.parse('time.time() + %s.lease' % app, mode='eval').body, '<',
        ast.parse('self.valid_until', mode='eval').body)
    for node in lgraph.nodes:
        if node.kind != 'return':
            continue
        val = node.ast.value
        if isinstance(val, ast.Constant):
            if val.value:
                ok = K.guarded_by(lgraph, node, lambda e: K.truth_edge(
                    nz, e, '%s.lease' % app, False) or any(
                        a.key[0] == 'cmp' and a.key[1] == '==' and
                        [t for t, _c in a.key[2]] == ['%s.lease' % app]
                        for a in nz.facts_of_edge(e)))
                ctx.ob('C03.1', life, node, ok,
                       'unconditional accept only for lease 0')
            continue
        ok = False
        shown = None
        if val is not None:
            resolved = K.rexpr(life, val)
            form = nz.formula(resolved)
            shown = N.txt(resolved)
            ok = _implies(form, _lifetime_ok(app)) or \
                K.guarded_by_atoms(ctx, life, lgraph, node,
                                   _lifetime_ok(app), nz)
        ctx.ob('C03.1', life, node, ok,
               'leased instance admitted only under %s (found %s)' % (
                   N.show(want), shown))
    # the expiry that is granted is the instant that was checked: every
    # Server routine that computes a new placement_expiry assigns exactly
    # time.time() + lease (restoring a saved value is a copy, not a grant)
    granted = N.linear(ast.parse('time.time() + x.lease', mode='eval').body)
    grants = 0
    for func in server.live_methods():
        if func.name == '__init__':
            continue
        params = func.params()
        appv = params[1] if len(params) > 1 else None
        fgraph = None
        for sub in K.walk_no_nested(func.node):
            if not (isinstance(sub, ast.Assign) and any(
                    N.txt(t) == '%s.placement_expiry' % appv
                    for t in sub.targets)):
                continue
            val = sub.value
            if isinstance(val, ast.Constant) and val.value is None:
                continue
            fgraph = fgraph or ctx.cfg(func)
            site = [n for n in fgraph.nodes if n.ast is sub]
            if not site:
                continue
            resolved = K.value_at(func, fgraph, site[0], val)
            rtext = N.txt(resolved)
            if not (isinstance(resolved, ast.BinOp) or 'time.' in rtext or
                    '.lease' in rtext or isinstance(resolved, ast.Call)):
                continue            # a saved / recorded value put back
            grants += 1
            try:
                lin = N.linear(resolved)
            except Exception:             # pylint: disable=broad-except
                lin = None
            want_lin = dict((k.replace('x.lease', '%s.lease' % appv), v)
                            for k, v in granted.items())
            ctx.ob('C03.1', func, sub, lin == want_lin,
                   'the expiry granted is now + lease, the instant the '
                   'lifetime test compared with valid_until: %s' %
                   N.txt(resolved), construct='granted expiry in %s' %
                   func.name)
    ctx.require(grants >= 2, 'expiry grants in Server (found %d)' % grants,
        rule='C03.1')
    return nz, server, put


def _bypass(ctx, nz, server):
    index = ctx.index
    restores = [f for f in server.live_methods() if any(
        isinstance(s, ast.Assign) and any(
            N.txt(t).endswith('.lease') for t in s.targets)
        for s in K.walk_no_nested(f.node))]
    restore = K.one(restores, 'Server routine neutralising the lease')
    # nobody else writes a lease (outside constructors / loader updates)
    mods = [index.module(K.SCHED), index.module(K.LOADER),
            index.module(K.MASTER)]
    writers = []
    callers = []
    for mod in mods:
        for func in mod.live_functions():
            for sub in K.walk_no_nested(func.node):
                if isinstance(sub, (ast.Assign, ast.AugAssign)):
                    tgts = sub.targets if isinstance(sub, ast.Assign) \
                        else [sub.target]
                    for tgt in tgts:
                        if isinstance(tgt, ast.Attribute) and \
                                tgt.attr == 'lease' and \
                                func.name != '__init__':
                            writers.append((func, sub))
                if isinstance(sub, ast.Call) and K.is_meth(sub, restore.name)\
                        and len(sub.args) >= 1 and \
                        K.recv_text(sub) not in ('self.backend', 'backend'):
                    callers.append((func, sub))
    for func, sub in writers:
        ctx.ob('C03.2', func, sub, func is restore,
               'the lease is neutralised / re-instated only by %s' %
               restore.qualname)
    allowed = {'Cell._find_placements', 'Loader.restore_placement'}
    ctx.require(len(callers) >= 3, 'callers of Server.%s' % restore.name,
        rule='C03.2')
    for func, sub in callers:
        ok = func.qualname in allowed
        detail = 'lease-bypassing restore called from %s' % func.qualname
        if ok and func.qualname == 'Loader.restore_placement':
            graph = ctx.cfg(func)
            site = [n for n, c in K.nodes_calling(graph,
                                                  lambda c: c is sub)][0]
            facts = N.must_facts(graph, nz)
            from . import master_model as M
            pname, tname = M.stamp_names(func, facts[site])
            have_le = any(f.key[0] == 'cmp' and f.key[1] in ('<=', '<') and
                          sorted(t for t, _c in f.key[2]) == sorted(
                              [pname, tname]) and
                          dict(f.key[2])[pname] > 0
                          for f in facts[site])
            have_tr = any(f.key[0] == 'truth' and f.key[2] and
                          f.key[1] == pname or
                          f.key[0] == 'is' and not f.key[3] and
                          f.key[1] == pname
                          for f in facts[site])
            extra = [N.show(f) for f in N.raw_only(facts[site])
                     if pname not in f.mentions and
                     any(m.startswith('server') for m in f.mentions)]
            ok = have_le and have_tr
            detail = 'verbatim restore only under presence exists and ' \
                     'presence ctime <= placement ctime: facts %s' % sorted(
                         N.show(f) for f in facts[site])
        ctx.ob('C03.2', func, sub, ok, detail)
    return restore


def _not_up(ctx, nz):
    bucket = ctx.index.get_class(K.SCHED, 'Bucket')
    bput = bucket.methods.get('put')
    ctx.require(bput is not None, 'Bucket.put')
    graph = ctx.cfg(bput)
    sites = K.nodes_calling(graph, lambda c: K.is_meth(c, 'put') and
                            K.recv_text(c) not in ('self',))
    ctx.require(sites, 'child.put(app) in Bucket.put', rule='C03.3')
    for node, call in sites:
        rcv = K.recv_text(call)
        head = None
        for cand in graph.nodes:
            if cand.kind == 'loop_head' and node in K.loop_body_nodes(cand):
                head = cand
        ok = K.guarded_by(graph, node,
                          lambda e, r=rcv: _is_up_edge(nz, e, r),
                          start=head)
        ctx.ob('C03.3', bput, node, ok,
               'a child receives the instance only when %s.state is up' %
               rcv)
    loop = PlacementLoop(ctx)
    graph = loop.graph
    body = loop.body()
    sites = [(n, c) for n, c in K.nodes_calling(
        graph, lambda c: K.is_meth(c, 'put') and c.args and
        N.txt(c.args[0]) == loop.var and K.recv_text(c) != 'self')
        if n in body]
    ctx.require(sites, 'direct put on a victim server in the placement loop',
        rule='C03.3')
    for node, call in sites:
        rcv = {K.recv_text(call), K.rtxt(loop.func, K.recv(call))}
        inner = K.enclosing_for(graph, node)
        ok = K.guarded_by(graph, node,
                          lambda e, r=rcv: _is_up_edge(nz, e, r),
                          start=inner)
        ctx.ob('C03.3', loop.func, node, ok,
               'eviction places only on a server whose state is up')
    return loop


def _revalidation(ctx, nz):
    cell = ctx.index.get_class(K.SCHED, 'Cell')
    sched = cell.methods.get('schedule')
    ctx.require(sched is not None, 'Cell.schedule')
    # validators: Cell methods called from schedule() that compare labels
    cands = []
    for sub in K.walk_no_nested(sched.node):
        if isinstance(sub, ast.Call) and K.recv_text(sub) == 'self':
            func = ctx.index.find_method(cell, sub.func.attr)
            if func is None:
                continue
            # over the whole routine, helpers spliced in at a condition
            # included (their bodies hang off the call they replace)
            attrs = set(n.attr for n in K.walk_no_nested(func.node)
                        if isinstance(n, ast.Attribute))
            if {'labels', 'traits', 'remove'} <= attrs:
                cands.append((func, sub))
    if not cands:
        ctx.fail('C03.4', sched, None,
                 'no pass of Cell.schedule re-validates a kept placement '
                 'against the partition label and traits of its server',
                 construct='re-validation pass')
        return
    func, call = cands[0]
    graph = ctx.cfg(func)
    loops = [n for n in graph.nodes if n.kind == 'for']
    ctx.require(loops, 'loop of %s' % func.qualname, rule='C03.4')
    head = loops[0]
    var = sorted(N.for_targets(head))[0]

    def unplaces(node):
        for callx in C.node_calls(node):
            if K.is_meth(callx, 'remove') and callx.args and \
                    N.txt(callx.args[0]) == '%s.name' % var:
                return True
        for tgt, val, _k in K.assigns_attr(node):
            if N.txt(tgt) == '%s.server' % var and \
                    isinstance(val, ast.Constant) and val.value is None:
                return True
        return False

    def not_placed(atom):
        return atom.key[0] == 'truth' and not atom.key[2] and \
            atom.key[1] == '%s.server' % var

    def label_ok(atom):
        key = atom.key
        if key[0] == 'in' and key[3] and \
                key[1] == '%s.allocation.label' % var and \
                key[2].endswith('.labels'):
            return True
        if key[0] == 'is' and key[3] and \
                key[1] == '%s.allocation' % var and key[2] == 'None':
            return True
        return not_placed(atom)

    def traits_ok(atom):
        key = atom.key
        if key[0] == 'truth' and key[2] and \
                key[1].endswith('.traits.has(%s.traits)' % var):
            return True
        return not_placed(atom)
    for name, okatom in (('partition label', label_ok),
                         ('required traits', traits_ok)):
        path = K.find_path_cp(
            graph, head, [head], cut_node=unplaces,
            cut_edge=lambda e, f=okatom: e.kind == 'done' or
            K.edge_establishes(ctx, func, nz, e, f), follow_exc=False)
        ctx.ob('C03.4', func, head, path is None,
               'a placement is kept only if the server still satisfies the '
               '%s of the instance' % name,
               path=K.describe(path) if path else None,
               construct='kept placement => %s' % name)
    # ordering in schedule(): validation before any schedule_alloc
    sgraph = ctx.cfg(sched)
    vnodes = [n for n, c in K.nodes_calling(sgraph, lambda c: c is call)]
    anodes = [n for n, c in K.nodes_calling(
        sgraph, lambda c: K.is_meth(c, 'schedule_alloc'))]
    ctx.require(vnodes and anodes, 'validation and schedule_alloc calls in '
                                   'Cell.schedule', rule='C03.4')
    for node in anodes:
        ok = K.guarded_by(sgraph, node, lambda e: e.src in vnodes)
        ctx.ob('C03.4', sched, node, ok,
               'the re-validation pass runs before any partition is '
               'scheduled')
    # and it ranges over all instances
    arg = call.args[0] if call.args else None
    src = N.txt(arg) if arg is not None else ''
    if isinstance(arg, ast.Name):
        defs = [s for s in K.walk_no_nested(sched.node)
                if isinstance(s, ast.Assign) and
                N.txt(s.targets[0]) == arg.id]
        if len(defs) == 1:
            src = N.txt(defs[0].value)
    ctx.ob('C03.4', sched, call, 'self.apps' in src,
           're-validation ranges over all instances of the cell: %s' % src)


def _renewal(ctx, nz, server, loop):
    renew = ctx.index.find_method(server, 'renew')
    ctx.require(renew is not None, 'Server.renew')
    graph = ctx.cfg(renew)
    app = renew.params()[1]
    aliases = {}
    for sub in K.walk_no_nested(renew.node):
        if isinstance(sub, ast.Assign) and len(sub.targets) == 1 and \
                isinstance(sub.targets[0], ast.Name) and \
                isinstance(sub.value, ast.Call):
            aliases[sub.targets[0].id] = N.txt(sub.value)
    stores = [n for n in graph.nodes if any(
        N.txt(t) == '%s.placement_expiry' % app
        for t, _v, _k in K.assigns_attr(n))]
    ctx.require(stores, 'expiry store in Server.renew', rule='C03.5')

    for node in stores:
        ctx.ob('C03.5', renew, node,
               K.guarded_by_atoms(ctx, renew, graph, node,
                                  _lifetime_ok(app), nz),
               'expiry extended only when the lifetime test passes')

    # ... and the renewal is refused only when that test fails: an instance
    # without a lease is always renewable (it is never moved for its lease)
    def has_lease(atom):
        key = atom.key
        return key[0] == 'truth' and key[2] and key[1] == '%s.lease' % app \
            or (key[0] == 'cmp' and key[1] in ('!=', '<', '>') and
                [t for t, _c in key[2]] == ['%s.lease' % app])
    for node in graph.nodes:
        if node.kind != 'return':
            continue
        val = node.ast.value
        if isinstance(val, ast.Constant) and val.value:
            continue
        if val is None or isinstance(val, ast.Constant):
            ok = K.guarded_by_atoms(ctx, renew, graph, node, has_lease, nz)
        else:
            test = C.Node(-1, 'test', val, cfg=graph)
            fake = C.Edge(test, test, 'false')
            ok = K.edge_establishes(ctx, renew, nz, fake, has_lease) or \
                K.guarded_by_atoms(ctx, renew, graph, node, has_lease, nz)
        ctx.ob('C03.5', renew, node, ok,
               'a renewal is refused only for an instance that has a lease '
               '(no lease: always renewable)',
               construct='renew refused [%s]' % node.text(40))
    # failed renewal in the loop
    graph = loop.graph
    var = loop.var
    fails = [n for n in graph.nodes if n.kind == 'test' and any(
        K.is_meth(c, 'renew') for c in K.test_calls(loop.func, n))]
    ctx.require(fails, 'renewal test in the placement loop', rule='C03.5')
    for test in fails:
        false_edges = [e for e in test.succ if e.kind == 'false']
        for edge in false_edges:
            region = C.reach([edge.dst], edge_ok=C.no_exc)
            removes = [n for n in region if any(
                loop.removes(c) for c in C.node_calls(n))]
            removes = [n for n in removes if K.guarded_by(
                graph, n, lambda e, ed=edge: e is ed, start=loop.head)]
            ctx.require(removes, 'removal after a failed renewal',
                rule='C03.5')
            for rnode in removes:
                # what the removal is performed on (the renewing server)
                rcall = [c for c in C.node_calls(rnode)
                         if loop.removes(c)][0]
                srv_txt = K.recv_text(rcall)
                # records made between the failed test and the removal
                rec_server, rec_expiry = set(), set()
                for node in graph.nodes:
                    if node.kind != 'stmt' or not isinstance(node.ast,
                                                             ast.Assign):
                        continue
                    if len(node.ast.targets) != 1:
                        continue
                    tgt = node.ast.targets[0]
                    if not isinstance(tgt, (ast.Name, ast.Subscript)):
                        continue
                    if not K.guarded_by(graph, rnode,
                                        lambda e, n=node: e.src is n,
                                        start=test):
                        continue
                    for path, item in K.record_stores(ctx.index, loop.func,
                                                      node.ast):
                        val = N.txt(item)
                        if val == srv_txt:
                            rec_server.add(path)
                        elif val == '%s.placement_expiry' % var:
                            rec_expiry.add(path)
                ctx.ob('C03.5', loop.func, rnode,
                       bool(rec_server) and bool(rec_expiry),
                       'server and expiry are recorded before the removal '
                       '(server -> %s, expiry -> %s)' % (
                           sorted(rec_server), sorted(rec_expiry)))
                calls = [c for n in graph.nodes
                         for c in C.node_calls(n)
                         if K.is_meth(c, 'restore') and rec_server and
                         K.rtxt(loop.func, K.recv(c)) in rec_server]
                ok = bool(calls) and all(
                    len(c.args) == 2 and N.txt(c.args[0]) == var and
                    K.rtxt(loop.func, c.args[1]) in rec_expiry
                    for c in calls)
                ctx.ob('C03.5', loop.func, calls[0] if calls else None, ok,
                       'the fallback restores exactly the recorded server '
                       'and expiry',
                       construct='<recorded server>.restore(%s, <recorded '
                                 'expiry>)' % var)


def _unknown_traits(ctx):
    index = ctx.index
    loader = index.module(K.LOADER)
    sites = []
    for func in loader.live_functions():
        for sub in K.walk_no_nested(func.node):
            if isinstance(sub, ast.Call) and \
                    dotted_text(sub.func) == 'traits.encode':
                sites.append((func, sub))
    ctx.require(len(sites) >= 3, 'traits.encode call sites in the loader',
        rule='C03.6')
    for func, call in sites:
        use_inv = K.kwarg(call, 'use_invalid')
        add_new = K.kwarg(call, 'add_new')
        offered = 'Server(' in ast.unparse(func.node)
        inv = isinstance(use_inv, ast.Constant) and use_inv.value is True
        new = isinstance(add_new, ast.Constant) and add_new.value is True
        if offered:
            ctx.ob('C03.6', func, call, new and not inv,
                   'offered (server) traits: add_new=True, never '
                   'use_invalid')
        else:
            ctx.ob('C03.6', func, call, inv and not new,
                   'required traits: an unknown trait maps to the INVALID '
                   'bit (use_invalid=True), never add_new')
    tr = index.module('treadmill.traits')
    enc = tr.functions.get('encode')
    cc = tr.functions.get('create_code')
    ctx.require(enc is not None and cc is not None, 'traits.encode/'
                                                    'create_code',
                                                        rule='C03.6')
    nz = N.Normaliser()
    graph = ctx.cfg(enc)
    ors = [n for n in graph.nodes if n.kind == 'stmt' and
           isinstance(n.ast, ast.AugAssign) and
           'INVALID' in N.txt(n.ast.value)]
    efacts = N.must_facts(graph, nz)
    extra = []
    for node in ors:
        for fact in N.raw_only(efacts[node]):
            key = fact.key
            if key[0] == 'truth' and key[1] == 'use_invalid' and key[2]:
                continue
            if key[0] == 'truth' and key[1] == 'add_new' and not key[2]:
                continue
            if key[0] == 'in' and not key[3]:
                continue
            extra.append(N.show(fact))
    ctx.ob('C03.6', enc, ors[0] if ors else None,
           bool(ors) and not extra and all(
               isinstance(n.ast.op, ast.BitOr) and K.guarded_by(
                   graph, n, lambda e: K.truth_edge(nz, e, 'use_invalid',
                                                    True))
               for n in ors),
           'unknown trait ORs the INVALID bit under use_invalid (and '
           'nothing else%s)' % (': also %s' % extra if extra else ''),
           construct='result |= code[INVALID]')
    # the reserved key of the table is not a trait: a name taken from the
    # input is looked up in the table, or registered in it, only when it is
    # not the reserved name (a server that lists a trait literally called
    # 'invalid' would otherwise carry the INVALID bit and satisfy every
    # unknown requirement - or, registering it, move the reserved bit)
    loops = [n for n in graph.nodes if n.kind == 'for']
    tvars = set(v for lp in loops for v in N.for_targets(lp))
    generic = [n for n in graph.nodes if n.kind == 'stmt' and (
        (isinstance(n.ast, ast.AugAssign) and isinstance(
            n.ast.value, ast.Subscript) and
         N.txt(n.ast.value.slice) in tvars) or
        (isinstance(n.ast, ast.Assign) and isinstance(
            n.ast.targets[0], ast.Subscript) and
         N.txt(n.ast.targets[0].slice) in tvars))]
    ctx.require(generic, 'table lookup / registration by the trait name in '
                'traits.encode', rule='C03.6', func=enc)
    for node in generic:
        var = N.txt(node.ast.value.slice if isinstance(
            node.ast, ast.AugAssign) else node.ast.targets[0].slice)
        ok = any(f.key[0] == 'cmp' and f.key[1] == '!=' and sorted(
            t for t, _c in f.key[2]) == sorted([var, 'INVALID'])
                 for f in efacts[node])
        ctx.ob('C03.6', enc, node, ok,
               'a trait name is looked up or registered in the code table '
               'only when it is not the reserved name (%s != INVALID)' % var,
               construct='reserved name is not a trait: %s' % node.text(40))
    # a new trait gets a fresh bit: in every iteration that registers one
    # the code is advanced before it is stored (two new traits of one call
    # must not share a bit)
    egraph = ctx.cfg(enc)
    for node in egraph.nodes:
        if node.kind == 'stmt' and isinstance(node.ast, ast.Assign) and \
                isinstance(node.ast.targets[0], ast.Subscript) and \
                N.txt(node.ast.targets[0].value) == enc.params()[0] and \
                N.txt(node.ast.targets[0].slice) != 'INVALID':
            loop = K.enclosing_for(egraph, node)
            stored = set(n.id for n in ast.walk(node.ast.value)
                         if isinstance(n, ast.Name))

            def advances(edge, stored=stored):
                stmt = edge.src.ast
                if edge.src.kind != 'stmt' or not isinstance(
                        stmt, (ast.Assign, ast.AugAssign)):
                    return False
                tgts = stmt.targets if isinstance(stmt, ast.Assign) else \
                    [stmt.target]
                return any(isinstance(t, ast.Name) and t.id in stored
                           for t in tgts) and (
                               '<<' in N.txt(stmt) or
                               'max(' in N.txt(stmt) or '* 2' in N.txt(stmt))
            ok = loop is not None and K.guarded_by(egraph, node, advances,
                                                   start=loop)
            ctx.ob('C03.6', enc, node, ok,
                   'every newly registered trait gets a code advanced in '
                   'that same iteration (distinct bits for distinct traits)',
                   construct='fresh code per new trait')
    # create_code reserves INVALID first, every other trait gets a shifted
    # code
    src = ast.unparse(cc.node)
    graph = ctx.cfg(cc)
    shift_first = True
    for node in graph.nodes:
        if node.kind == 'stmt' and isinstance(node.ast, ast.Assign) and \
                isinstance(node.ast.targets[0], ast.Subscript) and \
                N.txt(node.ast.targets[0].slice) != 'INVALID':
            ok = K.guarded_by(
                graph, node, lambda e: e.src.kind == 'stmt' and isinstance(
                    e.src.ast, (ast.Assign, ast.AugAssign)) and
                '<<' in N.txt(e.src.ast),
                start=K.enclosing_for(graph, node))
            shift_first = shift_first and ok
    # {INVALID: <the first code>}: a dict display keyed by INVALID whose
    # value resolves to the constant 1
    def starts_at_one(expr):
        if isinstance(expr, ast.Constant):
            return expr.value == 1
        if not isinstance(expr, ast.Name):
            return False
        top = [st.value for st in cc.node.body
               if isinstance(st, ast.Assign) and len(st.targets) == 1 and
               N.txt(st.targets[0]) == expr.id]
        return len(top) == 1 and isinstance(top[0], ast.Constant) and \
            top[0].value == 1
    first = any(
        isinstance(sub, ast.Dict) and len(sub.keys) == 1 and
        N.txt(sub.keys[0]) == 'INVALID' and starts_at_one(sub.values[0])
        for sub in K.walk_no_nested(cc.node))
    ctx.ob('C03.6', cc, None,
           first and shift_first,
           'INVALID owns the first bit; every trait code is shifted before '
           'it is assigned', construct='create_code reserves INVALID')


def _allocation_resolved(ctx):
    """C03.4: the allocation object an allocation record configures - and
    its assignments point instances to - is found in the tree of the
    partition the record names, at every load: every definition of the local
    that reaches the update / the assignment entries is the root allocation
    of ``self.cell.partitions[<partition of the record>]`` or a step down
    from it (get_sub_alloc).  An object remembered by name from an earlier
    load belongs to the partition the allocation had then."""
    loader = ctx.index.get_class(K.LOADER, 'Loader')
    func = loader.methods.get('load_allocations')
    ctx.require(func is not None, 'Loader.load_allocations', rule='C03.4')
    graph = ctx.cfg(func)
    rdefs = K.reaching_defs(graph)
    uses = []
    for node, call in K.nodes_calling(
            graph, lambda c: K.is_meth(c, 'update', 'set_traits') and
            isinstance(K.recv(c), ast.Name)):
        uses.append((node, K.recv(call).id))
    for node, call in K.nodes_calling(
            graph, lambda c: K.is_meth(c, 'append') and
            'assignments' in (K.recv_text(c) or '')):
        for arg in call.args:
            val = K.rexpr(func, arg)
            if isinstance(val, ast.Tuple) and val.elts and \
                    isinstance(val.elts[-1], ast.Name):
                uses.append((node, val.elts[-1].id))
    ctx.require(uses, 'uses of the allocation object in load_allocations',
                rule='C03.4', func=func)
    for node, name in uses:
        seen, todo, bad = set(), [(node, name)], []
        rooted = False
        while todo:
            at, var = todo.pop()
            for dnode in sorted(rdefs.get(at, {}).get(var, ()),
                                key=lambda n: n.id):
                if dnode in seen:
                    continue
                seen.add(dnode)
                stmt = dnode.ast
                val = stmt.value if dnode.kind == 'stmt' and isinstance(
                    stmt, ast.Assign) and len(stmt.targets) == 1 else None
                if val is None:
                    bad.append(dnode)
                elif isinstance(val, ast.Attribute) and \
                        val.attr == 'allocation' and \
                        isinstance(val.value, ast.Subscript) and \
                        N.txt(val.value.value) == 'self.cell.partitions':
                    rooted = True
                elif isinstance(val, ast.Call) and \
                        K.is_meth(val, 'get_sub_alloc') and \
                        isinstance(K.recv(val), ast.Name):
                    todo.append((dnode, K.recv(val).id))
                elif isinstance(val, ast.Name):
                    todo.append((dnode, val.id))
                else:
                    bad.append(dnode)
        ctx.ob('C03.4', func, node, rooted and not bad,
               'the allocation object is resolved from the partition the '
               'record names at every load (root allocation of '
               'self.cell.partitions[..] and get_sub_alloc steps only)%s' % (
                   '' if not bad else ' - also bound by: %s' %
                   bad[0].text(60)),
               construct='allocation resolved for %s' % node.text(40))


def _reboot_after_lifetime(ctx):
    """C03.1b: leases are granted up to the server's valid_until
    (now + lease < valid_until), so a server is put up for reboot only once
    that time has passed: the scheduling of a reboot is guarded by
    ``now > valid_until`` on the clock itself - a look-ahead (now + margin)
    reboots a server under an instance whose granted lease has not ended."""
    master = ctx.index.get_class(K.MASTER, 'Master')
    func = master.methods.get('check_reboot')
    ctx.require(func is not None, 'Master.check_reboot', rule='C03.1')
    graph = ctx.cfg(func)
    nz = N.Normaliser()
    facts = N.must_facts(graph, nz)
    sites = [n for n, _c in K.nodes_calling(
        graph, lambda c: K.is_meth(c, '_schedule_reboot'))]
    ctx.require(sites, 'reboot request in check_reboot', rule='C03.1',
                func=func)
    clocks = set(name for name, vals in M_local_defs(func).items()
                 if len(vals) == 1 and N.txt(vals[0]) == 'time.time()')
    for node in sites:
        ok = False
        seen = []
        for fact in facts[node]:
            key = fact.key
            if key[0] != 'cmp' or key[1] not in ('<', '<='):
                continue
            terms = dict(key[2])
            names = sorted(terms)
            if len(names) == 2 and any(n.endswith('.valid_until')
                                       for n in names):
                seen.append(N.show(fact))
                other = [n for n in names
                         if not n.endswith('.valid_until')][0]
                vu = [n for n in names if n.endswith('.valid_until')][0]
                # valid_until < now  (no constant offset in the normal form)
                if (other in clocks or other == 'time.time()') and \
                        terms[vu] > 0 and not (len(key) > 3 and key[3]):
                    ok = True
        ctx.ob('C03.1', func, node, ok,
               'a server is put up for reboot only once its valid_until has '
               'passed on the clock (valid_until < now, no look-ahead) - '
               'leases are granted right up to valid_until (found: %s)' %
               (seen or 'no comparison with valid_until'),
               construct='reboot only after valid_until')


def M_local_defs(func):
    defs = {}
    for sub in K.walk_no_nested(func.node):
        if isinstance(sub, ast.Assign) and len(sub.targets) == 1 and \
                isinstance(sub.targets[0], ast.Name):
            defs.setdefault(sub.targets[0].id, []).append(sub.value)
    return defs


def check(ctx):
    nz, server, put = _admission(ctx)
    _allocation_resolved(ctx)
    _reboot_after_lifetime(ctx)
    # shared with C06.7: an instance finds the allocation (hence the
    # partition and required traits) it is assigned to - the table is filed
    # and searched under the same key
    from . import c06 as _c06
    with ctx.shared({'C06': 'C03.4'}):
        _c06._assignment_key(ctx)
    # shared with C01.6: the lease that the lifetime test reads is only
    # neutralised for the duration of a verbatim restore
    from . import c01
    c01._restore(ctx, server, put, rule='C03.2')
    _bypass(ctx, nz, server)
    loop = _not_up(ctx, nz)
    _revalidation(ctx, nz)
    _renewal(ctx, nz, server, loop)
    _unknown_traits(ctx)
    # shared with C06.5: an instance is queued by the allocation (hence the
    # partition) it was loaded for, on every path of Cell.add_app
    from . import c06
    with ctx.shared({'C06': 'C03.4'}):
        c06._single_membership(ctx)
    # shared with C08.6: the state the placement guards read is the state
    # that was last requested (no request is dropped on the way)
    from . import c08
    c08.state_stored(ctx, rule='C03.3')
    # shared with C08.5: a server that comes back is read again (partition,
    # traits, capacity) before it is marked up, whatever it still holds
    with ctx.shared({'C08': 'C03.3'}):
        c08._presence(ctx)
    # shared with C01.5 / C11.1: the partition and traits the guards read are
    # the declared ones - a server record that is read again replaces the
    # server unless nothing changed (labels, capacity, traits, parent), and
    # a server carries the partition its record names
    from . import c11
    with ctx.shared({'C01': 'C03.3', 'C11': 'C03.3'}):
        c01._declared_capacity(ctx)
        c11._recorded_topology(ctx, ctx.index.get_class(K.LOADER, 'Loader'))


_S = 'lib/python/treadmill/scheduler/__init__.py'
_L = 'lib/python/treadmill/scheduler/loader.py'
_T = 'lib/python/treadmill/traits.py'

MUTANTS = [
    ('revert-F22-reserved-name-is-a-trait', [(_T, """        if trait != INVALID and trait in code:
""", """        if trait in code:
""")], 'C03.6'),
    ('reserved-name-registered', [(_T, """        elif trait != INVALID and add_new:
""", """        elif add_new:
""")], 'C03.6'),
    ('put-skips-lifetime', [(_S, """        if not self.check_app_lifetime(app):
            return False

        if not self.check_app_constraints(app):""", """        if not self.check_app_constraints(app):""")], 'C03.1'),
    ('label-check-dropped', [(_S, """        if app.allocation is not None:
            if app.allocation.label not in self.labels:
                _LOGGER.info('Missing label: %s on %s', app.allocation.label,
                             self.name)
                return False

""", "")], 'C03.1'),
    ('label-check-inverted', [(_S, """            if app.allocation.label not in self.labels:
                _LOGGER.info('Missing label""", """            if app.allocation.label in self.labels:
                _LOGGER.info('Missing label""")], 'C03.1'),
    ('traits-check-only-when-zero', [(_S, """        if app.traits != 0 and not self.traits.has(app.traits):
""", """        if app.traits == 0 and not self.traits.has(app.traits):
""")], 'C03.1'),
    ('lifetime-inverted', [(_S, """        return time.time() + app.lease < self.valid_until
""", """        return time.time() + app.lease > self.valid_until
""")], 'C03.1'),
    ('lifetime-ignores-lease', [(_S, """        return time.time() + app.lease < self.valid_until
""", """        return time.time() < self.valid_until
""")], 'C03.1'),
    ('loader-restore-unconditional', [(_L, """            if presence_time and presence_time <= placement_time:
                restored = server.restore(app, expires)
""", """            if presence_time:
                restored = server.restore(app, expires)
""")], 'C03.2'),
    ('loader-restore-reversed', [(_L, """            if presence_time and presence_time <= placement_time:
""", """            if presence_time and presence_time >= placement_time:
""")], 'C03.2'),
    ('new-bypass-caller', [(_L, """                if has_apps:
                    # Restore placement after reload to ensure integrity.
                    self.restore_placement(servername, restore_identity=False)
""", """                if has_apps:
                    # Restore placement after reload to ensure integrity.
                    for app in list(current_server.apps.values()):
                        self.servers[servername].restore(app, None)
""")], 'C03.2'),
    ('bucket-put-ignores-state', [(_S, """            if node.state is not State.up:
                _LOGGER.debug('Node not up: %s, %s', node.name, node.state)
            else:
                if node.put(app):
                    return True
""", """            if node.put(app):
                return True
""")], 'C03.3'),
    ('eviction-only-skips-down', [(_S, """                    if evicted_app_server.state is not State.up:
                        continue
""", """                    if evicted_app_server.state is State.down:
                        continue
""")], 'C03.3'),
    ('revalidation-skips-inactive', [(_S, """                server = servers[app.server]
                if ((app.allocation is not None and""", """                server = servers[app.server]
                if server.state is not State.up:
                    continue

                if ((app.allocation is not None and""")], 'C03.4'),
    ('revalidation-label-only', [(_S, """                if ((app.allocation is not None and
                     app.allocation.label not in server.labels) or
                        not server.traits.has(app.traits)):
""", """                if (app.allocation is not None and
                        app.allocation.label not in server.labels):
""")], 'C03.4'),
    ('revalidation-after-scheduling', [(_S, """        self._fix_invalid_placements(queue, servers)
        self._handle_inactive_servers(servers)
""", """        self._handle_inactive_servers(servers)
"""), (_S, """        after = [(app.server, app.placement_expiry)
                 for app in all_apps]
""", """        self._fix_invalid_placements(queue, servers)
        after = [(app.server, app.placement_expiry)
                 for app in all_apps]
""")], 'C03.4'),
    ('renew-unconditional', [(_S, """        can_renew = self.check_app_lifetime(app)
        if can_renew:
            app.placement_expiry = time.time() + app.lease
""", """        can_renew = self.check_app_lifetime(app)
        app.placement_expiry = time.time() + app.lease
""")], 'C03.5'),
    ('failed-renewal-forgets-expiry', [(_S, """                    restore['server'] = server
                    restore['placement_expiry'] = app.placement_expiry
                    server.remove(app.name)
""", """                    restore['server'] = server
                    server.remove(app.name)
                    restore['placement_expiry'] = app.placement_expiry
""")], 'C03.5'),
    ('app-traits-not-invalid', [(_L, """            traitz, _ = traits.encode(
                self.trait_codes, trait_list, use_invalid=True
            )
            app = scheduler.Application(""", """            traitz, _ = traits.encode(
                self.trait_codes, trait_list
            )
            app = scheduler.Application(""")], 'C03.6'),
    ('alloc-traits-not-invalid', [(_L, """            traitz, _ = traits.encode(
                self.trait_codes, trait_list, use_invalid=True
            )
            alloc.set_traits(traitz)
""", """            traitz, _ = traits.encode(self.trait_codes, trait_list)
            alloc.set_traits(traitz)
""")], 'C03.6'),
    ('server-traits-use-invalid', [(_L, """            self.trait_codes, trait_list, add_new=True
""", """            self.trait_codes, trait_list, use_invalid=True
""")], 'C03.6'),
    ('encode-invalid-unconditional-skip', [(_T, """            if use_invalid:
                result |= code[INVALID]
""", """            if use_invalid and add_new:
                result |= code[INVALID]
""")], 'C03.6'),
]

REFACTORS = [
    ('eviction-state-neq', [(_S, """                    if evicted_app_server.state is not State.up:
                        continue
""", """                    if evicted_app_server.state != State.up:
                        continue
""")]),
    ('bucket-put-positive-test', [(_S, """            if node.state is not State.up:
                _LOGGER.debug('Node not up: %s, %s', node.name, node.state)
            else:
                if node.put(app):
                    return True
""", """            if node.state is State.up:
                if node.put(app):
                    return True
            else:
                _LOGGER.debug('Node not up: %s, %s', node.name, node.state)
""")]),
    ('lifetime-rearranged', [(_S, """        return time.time() + app.lease < self.valid_until
""", """        return app.lease < self.valid_until - time.time()
""")]),
    ('constraints-split-ifs', [(_S, """        if app.traits != 0 and not self.traits.has(app.traits):
            _LOGGER.info('Missing traits: %s on %s', app.traits, self.name)
            return False
""", """        if app.traits != 0:
            if not self.traits.has(app.traits):
                _LOGGER.info('Missing traits: %s on %s', app.traits,
                             self.name)
                return False
""")]),
    ('revalidation-split', [(_S, """                if ((app.allocation is not None and
                     app.allocation.label not in server.labels) or
                        not server.traits.has(app.traits)):
                    _LOGGER.info('Invalid placement: %s on %s',
                                 app.name, server.name)
                    server.remove(app.name)
                    app.release_identity()
""", """                valid = True
                if (app.allocation is not None and
                        app.allocation.label not in server.labels):
                    valid = False
                elif not server.traits.has(app.traits):
                    valid = False
                if not valid:
                    _LOGGER.info('Invalid placement: %s on %s',
                                 app.name, server.name)
                    server.remove(app.name)
                    app.release_identity()
""")]),
    ('loader-presence-swapped', [(_L, """            if presence_time and presence_time <= placement_time:
""", """            if presence_time and placement_time >= presence_time:
""")]),
    ('renew-direct-test', [(_S, """        can_renew = self.check_app_lifetime(app)
        if can_renew:
            app.placement_expiry = time.time() + app.lease

        return can_renew
""", """        if self.check_app_lifetime(app):
            app.placement_expiry = time.time() + app.lease
            return True

        return False
""")]),
]
