"""C19 - accepted reservations never exceed partition capacity or trait
limits (structural clauses)."""

import ast
import json
import os

from .. import cfg as C
from .. import norm as N
from ..index import dotted_text
from . import common as K

API = 'treadmill.api.allocation'

EXPLANATION = """
C19.1 dimension agreement over _calc_free, _calc_free_traits and
_check_limit: for each dimension key k the parser applied when the free value
is initialised, when a reservation is subtracted and when the request is
compared is the same function, and the source key subscripted is k itself.
C19.2 rejection exactly when request_k > free_k (strict) for some k, with the
input-error class.  C19.3 in create and update the capacity check dominates
the admin write unconditionally; the excluded reservation id is
'<allocation>/<cell>' built from the same rsrc_id split.  C19.4 key
guarantee: every key subscripted on the request inside the check is required
by the verb schema the handler is decorated with, or defaulted in the handler
before the call.  C19.5 trait limits: the limits consulted are exactly those
whose trait is among the request's traits; the per-trait subtraction visits
every trait of every other reservation (no early exit) and subtracts under
`trait in free` only.
Added by the seeding rounds - C19.1 both spellings of a unit letter use one
base (shared with C01.7) and memory / disk / cpu are compared against their
own limits; C19.3 the excluded id is '<allocation>/<cell>' from the same
rsrc_id split (data flow, not names) and update re-checks capacity
unconditionally; C19.5 the per-trait loop has no early exit and consults
exactly the limits whose trait is requested. Fourth round: C19.3 the
accounting lists exactly {'cell', 'partition'} of the request,
unconditionally, and every accepted request passed the per-trait accounting.
Sweep: C19.3 the listing query is exactly cell and partition, the per-trait accounting is always reached, the overall check is called with the computed totals, accounting loops are never cut short.
Fifth round: C19.3 the partition record is read from the admin store at every request (nothing kept between requests).
Sixth round: C19.3 the id the listing decodes from a DN is built like the id of the request (tenant order, separators; shared with C15.5).
Seventh round: C19.2 Admin.get lets 'no such object' escape (the API turns exactly that into a zero-capacity partition); C19.3 the reservation being replaced is excluded in both accountings, overall and per trait.
Eighth round: C19.3 the assignment operations write only the `assignments` attribute of the shared cell-allocation record.
Ninth round: C19.1 CellAllocation.from_entry gives cpu, memory and disk each its default under the test that that key is missing; C19.5 cpu_units tests the percent suffix on the stripped value. C19.3 the record handed to _check_capacity is the record handed to the admin write of the same operation (F23: the update checked the bare request and wrote the merge; repaired in /repo).
Tenth round: C19.3 the listing both accountings walk is a collection (not a one-shot iterator), and the exclusion of the replaced reservation may be made once by the caller on that listing; C19.5 the row of a trait may be looked up once and the applicable limits selected by a loop that appends.
Does NOT decide the sums over arbitrary reservation sets (arithmetic).
"""

ASSUMPTIONS = [
    'the json-schema decorator rejects a request that lacks a required key '
    'before the handler body runs',
]

MIN_OBLIGATIONS = 25
MIN_PER_RULE = {'C19.1': 12, 'C19.2': 3, 'C19.3': 4, 'C19.4': 6, 'C19.5': 3}


def _parser_of(expr):
    """(parser name, source container, key) for utils.p(src['k'])."""
    if isinstance(expr, ast.Call) and len(expr.args) == 1 and \
            isinstance(expr.args[0], ast.Subscript) and \
            isinstance(expr.args[0].slice, ast.Constant):
        return (dotted_text(expr.func), N.txt(expr.args[0].value),
                expr.args[0].slice.value)
    return None


def _dimensions(ctx, mod):
    table = {}     # (func, stage) -> {key: (parser, srckey)}
    for fname in ('_calc_free', '_calc_free_traits'):
        func = mod.functions.get(fname)
        ctx.require(func is not None, 'allocation.%s' % fname)
        init = {}
        sub_ = {}
        for node in K.walk_no_nested(func.node):
            if isinstance(node, ast.Dict) and node.keys and all(
                    isinstance(k, ast.Constant) for k in node.keys):
                for key, val in zip(node.keys, node.values):
                    par = _parser_of(val)
                    if par:
                        init[key.value] = (par[0], par[2], node)
            # T[k] -= E   or   T[k] = T[k] - E
            tgt, amount = None, None
            if isinstance(node, ast.AugAssign) and isinstance(
                    node.op, ast.Sub):
                tgt, amount = node.target, node.value
            elif isinstance(node, ast.Assign) and len(node.targets) == 1 and \
                    isinstance(node.value, ast.BinOp) and isinstance(
                        node.value.op, ast.Sub) and \
                    N.txt(node.value.left) == N.txt(node.targets[0]):
                tgt, amount = node.targets[0], node.value.right
            if isinstance(tgt, ast.Subscript) and \
                    isinstance(tgt.slice, ast.Constant):
                par = _parser_of(K.rexpr(func, amount))
                if par:
                    sub_[tgt.slice.value] = (par[0], par[2], node)
                else:
                    sub_[tgt.slice.value] = (None, None, node)
        table[(fname, 'init')] = init
        table[(fname, 'subtract')] = sub_
    chk = mod.functions.get('_check_limit')
    ctx.require(chk is not None, 'allocation._check_limit')
    cmp_ = {}
    for node in K.walk_no_nested(chk.node):
        if isinstance(node, ast.Compare) and len(node.ops) == 1:
            sides = [K.rexpr(chk, node.left),
                     K.rexpr(chk, node.comparators[0])]
            for req, lim in (sides, sides[::-1]):
                par = _parser_of(req)
                if par and isinstance(lim, ast.Subscript) and \
                        isinstance(lim.slice, ast.Constant):
                    cmp_[lim.slice.value] = (par[0], par[2], node)
    table[('_check_limit', 'compare')] = cmp_
    dims = sorted(table[('_calc_free', 'init')])
    ctx.require(len(dims) == 3, 'three dimensions in _calc_free (found %s)'
                % dims, rule='C19.1')
    ref = table[('_calc_free', 'init')]
    for (fname, stage), rows in sorted(table.items()):
        func = mod.functions[fname]
        for dim in dims:
            row = rows.get(dim)
            want = ref[dim][0]
            ok = row is not None and row[0] == want and row[1] == dim
            ctx.ob('C19.1', func, row[2] if row else None, ok,
                   '%s %s of %r uses %s on key %r (expected %s on %r)' % (
                       fname, stage, dim, row[0] if row else None,
                       row[1] if row else None, want, dim),
                   construct='%s %s[%s]' % (fname, stage, dim))
    mem, dsk, cpu = ref.get('memory'), ref.get('disk'), ref.get('cpu')
    ctx.ob('C19.1', mod.functions['_calc_free'], None,
           mem and dsk and cpu and mem[0] == dsk[0] and
           mem[0].endswith('size_to_bytes') and
           cpu[0].endswith('cpu_units'),
           'memory and disk share the byte parser, cpu uses cpu_units',
           construct='parsers per dimension')
    return chk, dims


def _rejection(ctx, chk, dims):
    nz = N.Normaliser()
    graph = ctx.cfg(chk)
    raises = [n for n in graph.nodes if n.kind == 'raise_stmt' and
              isinstance(n.ast, ast.Raise)]
    ctx.require(len(raises) >= 3, 'rejections in _check_limit', rule='C19.2')
    seen = set()
    for node in raises:
        raised = node.ast.exc
        if isinstance(raised, ast.Call):
            # raise _helper(...) where the helper builds the exception
            built = K.inline_expr_call(ctx.index, chk, raised)
            if isinstance(built, ast.Call):
                raised = built
        exc_name = N.txt(raised.func) if isinstance(
            raised, ast.Call) else N.txt(raised)
        hit = None
        for edge in node.pred:
            if edge.src.kind == 'test' and isinstance(edge.src.ast,
                                                      ast.Compare):
                cmpx = edge.src.ast
                left = K.rexpr(chk, cmpx.left)
                right = K.rexpr(chk, cmpx.comparators[0])
                opn = cmpx.ops[0]
                if edge.kind == 'false':
                    opn = {ast.LtE: ast.Gt(), ast.GtE: ast.Lt()}.get(
                        type(opn), None)
                if isinstance(opn, ast.Gt) and _parser_of(left) and \
                        isinstance(right, ast.Subscript):
                    hit = right.slice.value
                elif isinstance(opn, ast.Lt) and _parser_of(right) and \
                        isinstance(left, ast.Subscript):
                    hit = left.slice.value
        if hit:
            seen.add(hit)
        ctx.ob('C19.2', chk, node,
               hit is not None and exc_name.endswith('InvalidInputError'),
               'rejects exactly when request[%s] > free[%s], as an input '
               'error (%s)' % (hit, hit, exc_name))
    ctx.ob('C19.2', chk, None, seen == set(dims),
           'every dimension can reject: %s' % sorted(seen),
           construct='rejecting dimensions')


def _handlers(mod):
    """Handlers create/update of the reservation API (functions nested in
    a class defined inside API.__init__)."""
    from ..index import FuncInfo
    out = {}
    for node in ast.walk(mod.tree):
        if isinstance(node, ast.FunctionDef) and \
                node.name in ('create', 'update') and any(
                    isinstance(s, ast.Call) and isinstance(s.func, ast.Name)
                    and s.func.id == '_check_capacity'
                    for s in ast.walk(node)):
            info = FuncInfo(mod, None, node)
            info.qualname = 'reservation.%s' % node.name
            out[node.name] = info
    if len(out) < 2:
        # the check may have been removed from a handler: fall back on the
        # handlers that write reservations
        for node in ast.walk(mod.tree):
            if isinstance(node, ast.FunctionDef) and \
                    node.name in ('create', 'update') and \
                    node.name not in out and \
                    'rsrc_id.rsplit' in ast.unparse(node) and \
                    any(a in ast.unparse(node)
                        for a in _cell_alloc_accessors(mod)) and \
                    'Reservation' in ast.unparse(node).split('\n')[1]:
                info = FuncInfo(mod, None, node)
                info.qualname = 'reservation.%s' % node.name
                out[node.name] = info
    return out


def _cell_alloc_accessors(mod):
    """Spellings of 'the admin object of cell allocations': the admin
    method itself and every module function that returns it (by role, not
    by name - the accessor may be renamed)."""
    out = {'cell_allocation'}
    for func in mod.functions.values():
        rets = [r for r in ast.walk(func.raw) if isinstance(r, ast.Return)
                and r.value is not None]
        if len(rets) == 1 and N.txt(rets[0].value).endswith(
                '.cell_allocation()'):
            out.add(func.name)
    return out


def _is_cell_alloc_admin(func, recv, accessors):
    """The receiver is the admin object of cell allocations: an accessor
    call, or a local bound (only) to one."""
    if recv is None:
        return False
    if any(a in N.txt(recv) for a in accessors):
        return True
    if isinstance(recv, ast.Name):
        binds = [sub.value for sub in ast.walk(func.node)
                 if isinstance(sub, ast.Assign) and any(
                     N.txt(t) == recv.id for t in sub.targets)]
        return bool(binds) and all(
            any(a in N.txt(v) for a in accessors) for v in binds)
    return False


def _check_before_write(ctx, mod):
    handlers = _handlers(mod)
    ctx.require(set(handlers) == {'create', 'update'},
                'reservation create/update handlers (found %s)' %
                sorted(handlers), rule='C19.3')
    cap = mod.functions.get('_check_capacity')
    ctx.require(cap is not None, 'allocation._check_capacity')
    for name, func in sorted(handlers.items()):
        graph = ctx.cfg(func)
        checks = [n for n, c in K.nodes_calling(
            graph, lambda c: isinstance(c.func, ast.Name) and
            c.func.id == '_check_capacity')]
        accessors = _cell_alloc_accessors(mod)
        writes = [n for n, c in K.nodes_calling(
            graph, lambda c: K.is_meth(c, 'create', 'update') and
            _is_cell_alloc_admin(func, K.recv(c), accessors) and
            len(c.args) == 2)]
        ctx.require(writes, 'admin write in reservation %s' % name,
            rule='C19.3')
        for node in writes:
            ok = bool(checks) and K.guarded_by(
                graph, node, lambda e: e.src in checks and e.kind != 'exc')
            ctx.ob('C19.3', func, node, ok,
                   'the admin write of reservation %s is reached only '
                   'through the capacity check' % name)
        for node in checks:
            call = [c for c in C.node_calls(node)
                    if isinstance(c.func, ast.Name) and
                    c.func.id == '_check_capacity'][0]
            # whatever the locals are called: (second, first) piece of the
            # rsrc_id split and the request itself
            pid, preq = func.params()[:2]
            third = call.args[2] if len(call.args) > 2 else None
            merged = False
            if isinstance(third, ast.Name) and third.id != preq:
                # the stored record the request was merged into, on every
                # path to the check
                merges = [n for n, c in K.nodes_calling(
                    graph, lambda c, t=third.id: K.is_meth(c, 'update') and
                    K.recv_text(c) == t and len(c.args) == 1 and
                    N.txt(c.args[0]) == preq)]
                merged = bool(merges) and K.guarded_by(
                    graph, node, lambda e: e.src in merges and
                    e.kind != 'exc')
            ok = [K.rtxt(func, a) for a in call.args[:2]] == [
                "%s.rsplit('/', 1)[1]" % pid,
                "%s.rsplit('/', 1)[0]" % pid] and third is not None and (
                    K.rtxt(func, third) == preq or merged)
            split = True
            ctx.ob('C19.3', func, node, ok and split,
                   'checked with (cell, allocation) from the rsrc_id split '
                   'and the request - or the stored record the request was '
                   'merged into', construct='_check_capacity arguments '
                                              'in %s' % name)
    cparams = cap.params()
    ctx.require(len(cparams) >= 3, 'parameters of _check_capacity',
        rule='C19.3')

    def excluded_ok(expr):
        expr = K.rexpr(cap, expr)
        want = [cparams[1], cparams[0]]           # allocation, cell
        if isinstance(expr, ast.Call) and K.is_meth(expr, 'format') and \
                isinstance(K.recv(expr), ast.Constant) and \
                K.recv(expr).value in ('{0}/{1}', '{}/{}'):
            return [N.txt(a) for a in expr.args] == want
        if isinstance(expr, ast.BinOp) and isinstance(expr.op, ast.Mod) \
                and isinstance(expr.left, ast.Constant) and \
                expr.left.value == '%s/%s' and \
                isinstance(expr.right, ast.Tuple):
            return [N.txt(a) for a in expr.right.elts] == want
        return False
    accountings = {}
    excluded = {}
    listing = set()
    cap_graph = ctx.cfg(cap)
    for call in K.calls(cap.node):
        if isinstance(call.func, ast.Name) and call.func.id in (
                '_calc_free', '_calc_free_traits') and len(call.args) == 3:
            accountings[call.func.id] = call
            excluded[call.func.id] = excluded_ok(call.args[2])
            listing.add(K.rtxt(cap, call.args[1]))
        elif isinstance(call.func, ast.Name) and call.func.id in (
                '_calc_free', '_calc_free_traits') and len(call.args) == 2:
            # the exclusion made once by the caller, on the listing itself
            accountings[call.func.id] = call
            okc, _shown, source = _caller_excludes(
                ctx, cap, cap_graph, call.func.id, excluded_ok)
            excluded[call.func.id] = okc
            listing.add(source)
    ctx.ob('C19.3', cap, None,
           set(accountings) == {'_calc_free', '_calc_free_traits'} and
           all(excluded.values()) and
           len(listing) == 1 and '.list(' in (list(listing)[0] or ''),
           "the reservation being replaced ('<allocation>/<cell>') is "
           'excluded in both accountings', construct='excluded id')
    # the reservations accounted are those of the request's own cell AND
    # partition: the listing query is the display {'cell': <cell>,
    # 'partition': <partition of the request>} - not a query assembled
    # conditionally, not one with a key left out
    lists = [c for c in K.calls(cap.node)
             if K.is_meth(c, 'list') and c.args and
             _is_cell_alloc_admin(cap, K.recv(c),
                                  _cell_alloc_accessors(mod))]
    pcell = cap.params()[0]
    prq = cap.params()[2]
    okq = len(lists) == 1
    shown = None
    if okq:
        query = lists[0].args[0]
        held = K.func_env(cap).get(query.id) if isinstance(
            query, ast.Name) else query
        shown = N.txt(held) if held is not None else N.txt(query)
        okq = isinstance(held, ast.Dict) and sorted(
            getattr(k, 'value', None) for k in held.keys) == [
                'cell', 'partition']
        if okq:
            vals = dict((k.value, K.rtxt(cap, v))
                        for k, v in zip(held.keys, held.values))
            okq = vals['cell'] == pcell and \
                vals['partition'] == "%s['partition']" % prq
    ctx.ob('C19.3', cap, lists[0] if lists else None, okq,
           "the accounting lists the reservations of the request's cell "
           'and partition, unconditionally: %s' % shown,
           construct='listing query')
    # ... and every request goes through both accountings: no exit between
    # the listing and the per-trait check
    cgraph = ctx.cfg(cap)
    tsites = [n for n in cgraph.nodes if any(
        isinstance(c.func, ast.Name) and c.func.id == '_calc_free_traits'
        for c in C.node_calls(n))]
    skip = K.find_path(cgraph.entry, [cgraph.exit],
                       cut_node=lambda n: n in tsites, follow_exc=False)
    ctx.ob('C19.3', cap, None, bool(tsites) and skip is None,
           'every accepted request passed the per-trait accounting (no '
           'return before it)', path=K.describe(skip) if skip else None,
           construct='per-trait accounting always reached')
    # the overall check: the request is compared (as second argument) with
    # the free capacity computed by _calc_free over the partition object of
    # (partition, cell), before anything else can accept it
    overall = [c for c in K.calls(cap.node)
               if isinstance(c.func, ast.Name) and c.func.id == '_check_limit'
               and len(c.args) >= 2 and
               '_calc_free(' in K.rtxt(cap, c.args[0])]
    okov = len(overall) == 1 and N.txt(overall[0].args[1]) == prq
    pget = [c for c in K.calls(cap.node)
            if isinstance(c.func, ast.Name) and c.func.id == '_partition_get']
    pgdef = mod.functions.get('_partition_get')
    okpg = bool(pget) and pgdef is not None and all(
        [K.rtxt(cap, a) for a in c.args] == [
            "%s['partition']" % prq if p == 'partition' else pcell
            for p in pgdef.params()[:2]] for c in pget)
    osites = [n for n in cgraph.nodes if any(
        c in overall for c in C.node_calls(n))]
    skipo = K.find_path(cgraph.entry, [cgraph.exit],
                        cut_node=lambda n: n in osites, follow_exc=False)
    ctx.ob('C19.3', cap, overall[0] if overall else None,
           okov and okpg and skipo is None,
           "every request is checked against the partition's overall free "
           'capacity (_check_limit(_calc_free(<partition of the request in '
           'that cell>, ..), request)) on every path',
           construct='overall capacity check')
    # the limits a request is checked against are the current ones: the
    # partition record is read from the admin store at every request (a
    # record kept from an earlier request misses a later change of the
    # partition's capacity or trait limits)
    if pgdef is not None:
        params = set(pgdef.params())
        rets = [r for r in K.walk_no_nested(pgdef.raw)
                if isinstance(r, ast.Return)]
        fresh = bool(rets)
        ldefs = {}
        for sub in K.walk_no_nested(pgdef.raw):
            if isinstance(sub, ast.Assign) and len(sub.targets) == 1 and \
                    isinstance(sub.targets[0], ast.Name):
                ldefs.setdefault(sub.targets[0].id, []).append(sub.value)

        def current(val):
            if isinstance(val, ast.Dict):
                return True         # the zero-capacity stand-in
            if isinstance(val, ast.Call) and K.is_meth(val, 'get') and \
                    isinstance(K.recv(val), ast.Call):
                return True         # <admin partition>().get([...])
            if isinstance(val, ast.Call):
                # a tiny helper that builds the stand-in anew at every call
                inner = K.inline_expr_call(ctx.index, pgdef, val)
                return isinstance(inner, ast.Dict)
            return False
        for ret in rets:
            val = ret.value
            if isinstance(val, ast.Name) and val.id in ldefs:
                # a result local: everything it may hold was read or built
                # in this call
                fresh = fresh and all(current(v) for v in ldefs[val.id])
            else:
                fresh = fresh and current(val)
        kept = [sub for sub in K.walk_no_nested(pgdef.raw)
                if isinstance(sub, (ast.Assign, ast.AugAssign)) and any(
                    isinstance(t, ast.Subscript) and
                    isinstance(t.value, ast.Name) and
                    t.value.id not in params and
                    t.value.id in mod.consts
                    for t in (sub.targets if isinstance(sub, ast.Assign)
                              else [sub.target]))]
        ctx.ob('C19.3', pgdef, kept[0] if kept else None,
               fresh and not kept,
               'the partition record is read from the admin store at every '
               'request (nothing is kept between requests)',
               construct='partition record read afresh')
    _listing_is_collection(ctx, cap, cgraph)
    for fname in ('_calc_free', '_calc_free_traits'):
        func = mod.functions[fname]
        nz = N.Normaliser()
        graph = ctx.cfg(func)
        # every reservation of the listing is accounted: the excluded one
        # is skipped, the walk goes on
        for lp in [n for n in graph.nodes if n.kind == 'for' and
                   not K.enclosing_for(graph, n)]:
            if N.txt(lp.ast.iter) == func.params()[1]:
                K.exhaustive_loop(ctx, 'C19.3', func, lp,
                                  '%s accounting over the listing' % fname)
        facts = N.must_facts(graph, nz)
        subs = [n for n in graph.nodes if n.kind == 'stmt' and (
            isinstance(n.ast, ast.AugAssign) or (
                isinstance(n.ast, ast.Assign) and
                len(n.ast.targets) == 1 and
                isinstance(n.ast.targets[0], ast.Subscript) and
                isinstance(n.ast.value, ast.BinOp) and
                isinstance(n.ast.value.op, ast.Sub) and
                N.txt(n.ast.value.left) == N.txt(n.ast.targets[0])))]
        # <loop variable>['_id'] != <third parameter>
        if len(func.params()) < 3:
            # the exclusion may be made once, by the caller, on the listing
            # it hands to the accounting
            okc, shownc, _src = _caller_excludes(ctx, cap, cgraph, fname)
            ctx.ob('C19.3', func, subs[0] if subs else None,
                   bool(subs) and okc,
                   '%s is handed a listing without the reservation whose '
                   '_id is old_id (%s)' % (fname, shownc),
                   construct='%s excludes old_id' % fname)
            continue
        oldp = func.params()[2]
        ok = bool(subs)
        for n in subs:
            loop = K.enclosing_for(graph, n)
            lvars = N.for_targets(loop) if loop is not None else set()
            # the reservation loop is the outermost one
            outer = loop
            while outer is not None:
                nxt = K.enclosing_for(graph, outer)
                if nxt is None:
                    break
                outer = nxt
                lvars = lvars | N.for_targets(outer)
            ok = ok and any(
                f.key[0] == 'cmp' and f.key[1] == '!=' and
                len(f.key[2]) == 2 and oldp in [t for t, _c in f.key[2]] and
                any(t == "%s['_id']" % v for t, _c in f.key[2]
                    for v in lvars)
                for f in facts[n])
        ctx.ob('C19.3', func, subs[0] if subs else None, ok,
               "%s skips the reservation whose _id is old_id" % fname,
               construct='%s excludes old_id' % fname)
    return handlers, cap


_ONE_SHOT = ('filter', 'map', 'iter', 'zip', 'reversed', 'enumerate')


def _one_shot(val):
    """A value that can be walked once: a generator expression or the
    result of a lazy builtin / itertools function."""
    if isinstance(val, ast.GeneratorExp):
        return True
    if isinstance(val, ast.Call):
        name = N.txt(val.func)
        if name in _ONE_SHOT or name.startswith('itertools.') or \
                name.startswith('six.moves.filter') or \
                name.startswith('six.moves.map'):
            return True
    return False


def _listing_assigns(cap, name):
    return [sub for sub in K.walk_no_nested(cap.node)
            if isinstance(sub, ast.Assign) and len(sub.targets) == 1 and
            isinstance(sub.targets[0], ast.Name) and
            sub.targets[0].id == name]


def _accounting_calls(cap):
    return [c for c in K.calls(cap.node) if isinstance(c.func, ast.Name) and
            c.func.id in ('_calc_free', '_calc_free_traits') and
            len(c.args) >= 2]


def _listing_is_collection(ctx, cap, cgraph):
    """C19.3: the overall accounting and the per-trait accounting walk the
    same listing one after the other, so what they are handed is a
    collection - a filter object or a generator is empty for the second
    walk, and the per-trait limits would be checked against nobody."""
    calls = _accounting_calls(cap)
    names = set(c.args[1].id for c in calls
                if isinstance(c.args[1], ast.Name))
    for call in calls:
        arg = call.args[1]
        vals = [arg]
        if isinstance(arg, ast.Name):
            vals = [a.value for a in _listing_assigns(cap, arg.id)]
        lazy = [v for v in vals if _one_shot(v)]
        shared = not isinstance(arg, ast.Name) or sum(
            1 for c in calls if isinstance(c.args[1], ast.Name) and
            c.args[1].id == arg.id) > 1
        ctx.ob('C19.3', cap, call, not (lazy and shared),
               'the listing handed to %s is a collection (it is walked by '
               'both accountings)' % call.func.id if not (lazy and shared)
               else 'the listing handed to %s can be walked once only (%s) '
               'and both accountings walk it: the second one sees no other '
               'reservation' % (call.func.id, N.txt(lazy[0])[:70]),
               construct='%s listing is a collection' % call.func.id)
    return names


def _caller_excludes(ctx, cap, cgraph, fname, id_ok=None):
    """The listing passed to ``fname`` was filtered on
    <element>['_id'] != <old id> by an assignment that dominates the call.
    Returns (ok, shown, text of the unfiltered source)."""
    for call in _accounting_calls(cap):
        if call.func.id != fname:
            continue
        arg = call.args[1]
        if not isinstance(arg, ast.Name):
            return False, N.txt(arg)[:60], None
        site = [n for n in cgraph.nodes if call in C.node_calls(n)]
        good = None
        source = None
        assigns = _listing_assigns(cap, arg.id)
        for asg in assigns:
            val = asg.value
            while isinstance(val, ast.Call) and N.txt(val.func) in (
                    'list', 'tuple', 'sorted') and val.args:
                val = val.args[0]
            conds = []
            src = None
            if isinstance(val, (ast.ListComp, ast.GeneratorExp)) and \
                    len(val.generators) == 1:
                conds = val.generators[0].ifs
                src = val.generators[0].iter
            elif isinstance(val, ast.Call) and N.txt(val.func) == 'filter' \
                    and len(val.args) == 2 and \
                    isinstance(val.args[0], ast.Lambda):
                conds = [val.args[0].body]
                src = val.args[1]
            if len(conds) != 1:
                continue
            cond = conds[0]
            if not (isinstance(cond, ast.Compare) and len(cond.ops) == 1 and
                    isinstance(cond.ops[0], ast.NotEq)):
                continue
            sides = [cond.left, cond.comparators[0]]
            ids = [e for e in sides if not N.txt(e).endswith("['_id']")]
            if len(ids) != 1:
                continue
            if id_ok is not None:
                idok = id_ok(ids[0])
            else:
                txt = K.rtxt(cap, ids[0])
                idok = '.format(' in txt or '%' in txt
            if not idok:
                continue
            node = [n for n in cgraph.nodes if n.ast is asg]
            if node and site and K.find_path(
                    cgraph.entry, site, cut_node=lambda n: n in node,
                    follow_exc=False) is None:
                good = asg
                if isinstance(src, ast.Name) and src.id == arg.id:
                    # the name is re-bound: its other binding is the source
                    others = [a for a in assigns if a is not asg]
                    source = N.txt(others[0].value) if len(
                        others) == 1 else None
                else:
                    source = K.rtxt(cap, src)
        if good is None:
            return False, 'no filtering assignment of %s dominates the ' \
                'call' % arg.id, None
        return True, N.txt(good.value)[:70], source
    return False, 'no call', None


def _schema_required(ctx, func):
    """Required keys of the verb schema(s) the handler is decorated with."""
    req = set()
    refs = []
    for deco in func.decorators():
        for sub in ast.walk(deco):
            if isinstance(sub, ast.Constant) and isinstance(sub.value, str) \
                    and '#/verbs/' in sub.value:
                refs.append(sub.value)
    base = os.path.join(ctx.index.root, 'lib/python/treadmill/etc/schema')
    for ref in refs:
        fname, _, pointer = ref.partition('#')
        path = os.path.join(base, fname)
        rel = 'lib/python/treadmill/etc/schema/' + fname
        try:
            if rel in getattr(ctx.index, 'overlay', {}):
                data = json.loads(ctx.index.overlay[rel])   # self-test
            else:
                with open(path) as fh:
                    data = json.load(fh)
        except (IOError, ValueError):
            continue
        node = data
        for part in pointer.strip('/').split('/'):
            node = node.get(part, {}) if isinstance(node, dict) else {}
        req |= set(node.get('required', []))
    return req, refs


def _key_guarantee(ctx, mod, handlers, cap, chk):
    # keys subscripted on the request inside the check
    used = set()
    for func, var in ((cap, cap.params()[2]), (chk, chk.params()[1])):
        for sub in K.walk_no_nested(func.node):
            if isinstance(sub, ast.Subscript) and \
                    N.txt(sub.value) == var and \
                    isinstance(sub.slice, ast.Constant) and \
                    isinstance(sub.ctx, ast.Load):
                used.add(sub.slice.value)
    ctx.require(len(used) >= 4, 'request keys used by the check (found %s)'
                % sorted(used), rule='C19.4')
    for name, func in sorted(handlers.items()):
        req, refs = _schema_required(ctx, func)
        graph = ctx.cfg(func)
        checks = [n for n, c in K.nodes_calling(
            graph, lambda c: isinstance(c.func, ast.Name) and
            c.func.id == '_check_capacity')]
        rvar = func.params()[1]
        for key in sorted(used):
            defaulted = False
            for node in graph.nodes:
                # rsrc.setdefault('<key>', <default>) before the check
                if any(K.is_meth(c, 'setdefault') and
                       K.recv_text(c) == rvar and len(c.args) == 2 and
                       isinstance(c.args[0], ast.Constant) and
                       c.args[0].value == key
                       for c in C.node_calls(node)):
                    defaulted = defaulted or all(K.guarded_by(
                        graph, chk_, lambda e, n=node: e.src is n and
                        e.kind != 'exc') for chk_ in checks)
                if node.kind == 'stmt' and isinstance(node.ast,
                                                      ast.Assign) and \
                        N.txt(node.ast.targets[0]) == "%s['%s']" % (rvar,
                                                                    key):
                    defaulted = defaulted or all(K.guarded_by(
                        graph, chk_, lambda e, n=node, k=key:
                        e.src is n or any(
                            a.key[0] == 'in' and a.key[3] and
                            a.key[1] == "'%s'" % k and a.key[2] == rvar
                            for a in N.Normaliser().facts_of_edge(e)))
                        for chk_ in checks)
            ok = key in req or defaulted
            ctx.ob('C19.4', func, None, ok,
                   'reservation %s: key %r used by the capacity check is %s'
                   % (name, key,
                      'required by %s' % refs if key in req else
                      'defaulted before the check' if defaulted else
                      'neither required by %s nor defaulted: a request '
                      'without it fails with KeyError' % refs),
                   construct='reservation %s key %s' % (name, key))


def _trait_limits(ctx, mod, cap):
    rsrc = cap.params()[2]
    tcalls = [c for c in K.calls(cap.node)
              if isinstance(c.func, ast.Name) and
              c.func.id == '_calc_free_traits' and c.args]
    ctx.require(len(tcalls) == 1 and isinstance(tcalls[0].args[0],
                                                ast.Name),
                'per-trait accounting call in _check_capacity', rule='C19.5')
    lname = tcalls[0].args[0].id
    comp = None
    for sub in K.walk_no_nested(cap.node):
        if isinstance(sub, ast.Assign) and N.txt(sub.targets[0]) == \
                lname and isinstance(sub.value, ast.ListComp):
            comp = sub.value
    if comp is None:
        # the same selection spelled as a loop that appends (with a nested
        # if or an early continue): read from how the list is built
        parts = K.list_contributions(cap, lname)
        if len(parts) == 1 and 'other' not in parts[0] and \
                len(parts[0]['domains']) == 1 and all(
                    t is not None for t, _o in parts[0]['conds']):
            part = parts[0]
            tgt, dom = part['domains'][0]
            ifs = [t if o else ast.UnaryOp(op=ast.Not(), operand=t)
                   for t, o in part['conds']]
            ifs = [i.operand.operand if isinstance(i, ast.UnaryOp) and
                   isinstance(i.op, ast.Not) and
                   isinstance(i.operand, ast.UnaryOp) and
                   isinstance(i.operand.op, ast.Not) else i for i in ifs]
            ifs = [ast.Compare(left=i.operand.left, ops=[ast.In()],
                               comparators=i.operand.comparators)
                   if isinstance(i, ast.UnaryOp) and
                   isinstance(i.op, ast.Not) and
                   isinstance(i.operand, ast.Compare) and
                   len(i.operand.ops) == 1 and
                   isinstance(i.operand.ops[0], ast.NotIn) else i
                   for i in ifs]
            comp = ast.ListComp(
                elt=part['elt'] if part['elt'] is not None else tgt,
                generators=[ast.comprehension(target=tgt, iter=dom,
                                              ifs=ifs, is_async=0)])
            ast.fix_missing_locations(comp)
    ctx.require(comp is not None, 'selection of applicable limits',
        rule='C19.5')
    gen = comp.generators[0]
    var = N.txt(gen.target)
    conds = [K.rtxt(cap, i) for i in gen.ifs]
    src = K.rexpr(cap, gen.iter)
    ok = isinstance(src, ast.Subscript) and \
        N.txt(src.slice) == "'limits'" and \
        ('_partition_get(' in N.txt(src.value) or
         isinstance(src.value, ast.Name) and any(
             n.endswith(':_partition_get') for n in cap.inlined_callees)) \
        and conds == [
            "%s['trait'] in %s.get('traits', [])" % (var, rsrc)] and \
        N.txt(comp.elt) == var and len(comp.generators) == 1
    ctx.ob('C19.5', cap, comp, ok,
           "limits consulted: exactly those whose trait is in the request's "
           'traits: %s' % conds, construct='applicable limits')
    # every applicable limit is checked
    loops = [s for s in K.walk_no_nested(cap.node)
             if isinstance(s, ast.For) and N.txt(s.iter) == lname]

    def per_trait(call, lvar):
        if not (isinstance(call, ast.Call) and
                isinstance(call.func, ast.Name) and
                call.func.id == '_check_limit' and len(call.args) >= 2 and
                N.txt(call.args[1]) == rsrc):
            return False
        free = K.rexpr(cap, call.args[0])
        return isinstance(free, ast.Subscript) and \
            isinstance(free.value, ast.Call) and \
            N.txt(free.value.func) == '_calc_free_traits' and \
            K.rtxt(cap, free.slice) == "%s['trait']" % lvar
    ok = len(loops) == 1 and any(
        per_trait(s, N.txt(loops[0].target))
        for s in ast.walk(loops[0])) and not any(
            isinstance(s, (ast.Break, ast.Continue, ast.Return))
            for s in ast.walk(loops[0]))
    ctx.ob('C19.5', cap, loops[0] if loops else None, ok,
           'each applicable limit is checked against the request',
           construct='per-trait check loop')
    func = mod.functions['_calc_free_traits']
    graph = ctx.cfg(func)
    nz = N.Normaliser()
    inner = [n for n in graph.nodes if n.kind == 'for' and
             "['traits']" in N.txt(n.ast.iter)]
    ctx.require(inner, 'loop over the traits of a reservation', rule='C19.5')
    for loop in inner:
        body = K.loop_body_nodes(loop)
        exits = [e for e in K.loop_exit_edges(loop)
                 if e.kind != 'exc' and e.kind != 'done']
        ctx.ob('C19.5', func, loop, not exits,
               'every trait of a reservation is visited (no early exit of '
               'the trait loop): a reservation counts against each limited '
               'trait it carries', construct='trait loop exits')
        var = sorted(N.for_targets(loop))[0]
        facts = N.must_facts(graph, nz)
        subs = [n for n in body if n.kind == 'stmt' and
                isinstance(n.ast, ast.AugAssign)]
        for node in subs:
            mine = [f for f in N.raw_only(facts[node])
                    if var in f.mentions]
            # the table tested is the table subtracted from
            # (an alias of the trait's row is read through)
            ttxt = N.txt(node.ast.target)
            root = node.ast.target
            while isinstance(root, (ast.Subscript, ast.Attribute)):
                root = root.value
            if isinstance(root, ast.Name):
                held = K.func_env(func).get(root.id)
                if isinstance(held, ast.Subscript) and \
                        isinstance(held.value, ast.Name):
                    ttxt = N.txt(N.subst(node.ast.target,
                                         {root.id: held}))
            table = ttxt.split('[')[0]
            ok = len(mine) == 1 and mine[0].key[0] == 'in' and \
                mine[0].key[3] and mine[0].key[1] == var and \
                mine[0].key[2] == table
            if isinstance(root, ast.Name) and not mine:
                # row = <table>.get(<trait>) ; if row is None: continue -
                # the rows are dictionaries, so 'no row' is 'not in table'
                binds = [sub.value for sub in K.walk_no_nested(func.node)
                         if isinstance(sub, ast.Assign) and any(
                             N.txt(t) == root.id for t in sub.targets)]
                held = binds[0] if len(binds) == 1 else None
                if isinstance(held, ast.Call) and K.is_meth(held, 'get') \
                        and len(held.args) == 1 and not held.keywords and \
                        N.txt(held.args[0]) == var and \
                        isinstance(K.recv(held), ast.Name):
                    table = K.recv(held).id
                    ttxt = N.txt(node.ast.target).replace(
                        root.id, '%s[%s]' % (table, var), 1)
                    # (the stores into the row end the dataflow facts
                    # about the local: decided by cut instead - the row is
                    # bound once, so the test still speaks about it)
                    want = ('is', root.id, 'None', False)
                    ok = K.guarded_by(
                        graph, node, lambda e: K.edge_has_atom(
                            nz, e, lambda a: a.key == want), start=loop)
                    others = [f for f in N.raw_only(facts[node])
                              if f.key != want and (
                                  root.id in f.mentions or
                                  var in f.mentions)]
                    ok = ok and not others
            ctx.ob('C19.5', func, node, ok and
                   ttxt.startswith('%s[%s]' % (table, var)),
                   'subtracted from that trait, under `trait in free` only')


def _assignment_write_scope(ctx):
    """C19.3: a reservation counts with what the last accepted request left
    in the store.  The assignment operations share the record of the
    reservation (cell allocation) and write only their own attribute back:
    the object they hand to the admin update is a display with the key
    ``assignments`` alone.  Writing back the whole record they read replaces
    cpu / memory / disk by the values read before a concurrently accepted
    resize - the accepted reservation is lost while the requests checked
    against it stand."""
    mod = ctx.index.module(API)
    sites = 0

    def visit(node, owner):
        nonlocal sites
        for child in ast.iter_child_nodes(node):
            inner = child if isinstance(
                child, (ast.FunctionDef, ast.AsyncFunctionDef)) else owner
            if isinstance(child, ast.Call) and isinstance(
                    child.func, ast.Attribute) and \
                    child.func.attr == 'update' and len(child.args) == 2 \
                    and 'cell_alloc' in N.txt(child.func.value) and \
                    owner is not None and \
                    'assignments' in ast.unparse(owner) and \
                    'pattern' in ast.unparse(owner):
                sites += 1
                val = child.args[1]
                ok = isinstance(val, ast.Dict) and val.keys and all(
                    isinstance(k, ast.Constant) and k.value == 'assignments'
                    for k in val.keys)
                ctx.ob('C19.3', mod.name, child, ok,
                       'an assignment operation writes only the assignments '
                       'attribute of the shared record (found %s)' %
                       N.txt(val)[:50],
                       construct='assignment write scope in %s' % owner.name,
                       file=mod.rel)
            visit(child, inner)
    visit(mod.tree, None)
    ctx.require(sites >= 2, 'admin updates of the assignment operations '
                '(found %d)' % sites, rule='C19.3')


def _checked_is_written(ctx):
    """C19.3: the reservation that is checked is the reservation that is
    stored.  An update merges the request into the stored record and writes
    the merge; what the request leaves out - the traits of the reservation,
    which the command line never sends for an existing one - stays in force,
    so the limits have to be checked on the merge, not on the request: the
    object handed to _check_capacity is the object handed to the admin
    write in the same operation (F23: the update checked the bare request,
    and a reservation with a limited trait could be raised past the limit of
    that trait)."""
    mod = ctx.index.module(API)
    sites = 0

    def visit(node):
        nonlocal sites
        for child in ast.iter_child_nodes(node):
            if isinstance(child, (ast.FunctionDef, ast.AsyncFunctionDef)):
                own = [c for c in ast.walk(child) if isinstance(c, ast.Call)]
                # calls of this function only (not of functions nested in it)
                inner = set(id(c) for f in ast.walk(child)
                            if f is not child and isinstance(
                                f, (ast.FunctionDef, ast.AsyncFunctionDef))
                            for c in ast.walk(f) if isinstance(c, ast.Call))
                own = [c for c in own if id(c) not in inner]
                checks = [c for c in own if isinstance(c.func, ast.Name) and
                          c.func.id == '_check_capacity' and len(c.args) == 3]
                writes = [c for c in own if isinstance(
                    c.func, ast.Attribute) and c.func.attr in (
                        'update', 'create') and len(c.args) == 2 and
                          'cell_alloc' in N.txt(c.func.value)]
                if checks and writes:
                    for chk in checks:
                        sites += 1
                        same = all(N.txt(w.args[1]) == N.txt(chk.args[2])
                                   for w in writes)
                        ctx.ob('C19.3', mod.name, chk, same,
                               'the record checked (%s) is the record '
                               'written (%s)' % (
                                   N.txt(chk.args[2]),
                                   sorted(set(N.txt(w.args[1])
                                              for w in writes))),
                               construct='checked record is the written '
                                         'record in %s' % child.name,
                               file=mod.rel)
            visit(child)
    visit(mod.tree)
    ctx.require(sites >= 2, 'reservation operations that check and write '
                '(found %d)' % sites, rule='C19.3')


def _record_defaults(ctx):
    """C19.1: a reservation record that lacks one of the sizes counts as
    zero in that dimension only: CellAllocation.from_entry gives each of
    cpu / memory / disk its default under the test that *that* key is
    missing.  One test for all three zeroes a stored memory because cpu is
    absent (the record then reads 0G and the partition is over-committed),
    or leaves disk missing because cpu is present (every check raises)."""
    mod = ctx.index.module('treadmill.admin._ldap')
    cls = mod.classes.get('CellAllocation')
    func = cls.methods.get('from_entry') if cls else None
    ctx.require(func is not None, 'CellAllocation.from_entry', rule='C19.1')
    graph = ctx.cfg(func)
    nz = N.Normaliser()
    facts = N.must_facts(graph, nz)
    seen = {}
    for node in graph.nodes:
        if node.kind != 'stmt':
            continue
        keys = []
        stmt = node.ast
        if isinstance(stmt, ast.Assign) and isinstance(
                stmt.targets[0], ast.Subscript) and isinstance(
                    stmt.targets[0].slice, ast.Constant) and \
                isinstance(stmt.value, ast.Constant):
            keys = [(N.txt(stmt.targets[0].value),
                     stmt.targets[0].slice.value)]
        for call in C.node_calls(node):
            if K.is_meth(call, 'update', 'setdefault') and call.args and \
                    isinstance(call.args[0], ast.Dict):
                keys += [(K.recv_text(call), k.value)
                         for k in call.args[0].keys
                         if isinstance(k, ast.Constant)]
        for recv, key in keys:
            if key not in ('cpu', 'memory', 'disk'):
                continue
            ok = any(f.key[0] == 'in' and not f.key[3] and
                     f.key[1] == repr(key) and f.key[2] == recv
                     for f in facts[node])
            seen[key] = seen.get(key, True) and ok
            ctx.ob('C19.1', func, node, ok,
                   "the default of %r is given under %r not in %s" % (
                       key, key, recv),
                   construct='default of %s under its own test' % key)
    ctx.require(set(seen) == {'cpu', 'memory', 'disk'},
                'defaults of cpu / memory / disk in from_entry (found %s)' %
                sorted(seen), rule='C19.1', func=func)


def _cpu_spelling(ctx):
    """C19.5: a cpu value is normalised before its suffix is looked at:
    cpu_units strips surrounding white space first ('200% ' from a stored
    record, '200%\\n' from a request) - int() tolerates the white space
    only once the percent sign is gone, so the other order raises
    ValueError in every check that meets such a value."""
    utils = ctx.index.module('treadmill.utils')
    func = utils.functions.get('cpu_units')
    ctx.require(func is not None, 'utils.cpu_units', rule='C19.5')
    tests = [c for c in K.calls(func.node)
             if K.is_meth(c, 'endswith') and c.args and
             N.txt(c.args[0]) in ("'%'", '"%"')]
    ctx.require(tests, "test of the '%' suffix in cpu_units", rule='C19.5',
                func=func)
    graph = ctx.cfg(func)
    rdefs = K.reaching_defs(graph)
    for call in tests:
        src = K.rtxt(func, K.recv(call))
        recv = K.recv(call)
        if isinstance(recv, ast.Name):
            # the definitions of the local that reach the test
            at = [n for n in graph.nodes if any(
                c is call for c in C.node_calls(n)) or (
                    n.kind == 'test' and n.ast is not None and any(
                        sub is call for sub in ast.walk(n.ast)))]
            vals = [v for n in at for _d, v in K.def_sites(
                graph, rdefs, n, recv.id)]
            if vals:
                src = ' | '.join(N.txt(v) for v in vals)
                if not all('.strip()' in N.txt(v) for v in vals):
                    src = src.replace('.strip()', '.strip ()')
        ctx.ob('C19.5', func, call, '.strip()' in src,
               'the percent suffix is tested on the stripped value (%s)' %
               src[:50], construct='cpu value stripped before the suffix '
                                   'test')


def check(ctx):
    _checked_is_written(ctx)
    _record_defaults(ctx)
    _cpu_spelling(ctx)
    _assignment_write_scope(ctx)
    mod = ctx.index.module(API)
    chk, dims = _dimensions(ctx, mod)
    _rejection(ctx, chk, dims)
    handlers, cap = _check_before_write(ctx, mod)
    _key_guarantee(ctx, mod, handlers, cap, chk)
    _trait_limits(ctx, mod, cap)
    # shared with C01.7: the parsers the three routines agree on mean the
    # same quantity however it is spelled (binary K/M/G/T, decimal KB/MB/..)
    from . import c01
    with ctx.shared({'C01': 'C19.1'}):
        c01._units(ctx)
    # shared with C15.5: the reservation being replaced is left out of the
    # sums by its id - the id the listing decodes from a DN is built the same
    # way (tenant order, separators) as the id of the request
    from . import c15
    c15.dn_order(ctx, rule='C19.3')
    # a partition without a record has no capacity: the API stands in a
    # zero-capacity partition when the admin layer reports "no such object" -
    # which Admin.get does by letting that error through (a None in its
    # place reaches the arithmetic and ends the request as a server error)
    ldap = ctx.index.module('treadmill.admin._ldap')
    acls = ldap.classes.get('Admin') if ldap else None
    aget = acls.methods.get('get') if acls else None
    ctx.require(aget is not None, 'admin._ldap.Admin.get', rule='C19.2')
    swallow = [h for h in K.walk_no_nested(aget.raw)
               if isinstance(h, ast.ExceptHandler) and (
                   h.type is None or 'NoSuchObject' in N.txt(h.type) or
                   N.txt(h.type).endswith('Exception'))]
    ctx.ob('C19.2', aget, swallow[0] if swallow else None, not swallow,
           'Admin.get lets "no such object" escape to its caller',
           construct='missing object reported')
    pg = mod.functions.get('_partition_get')
    if pg is not None:
        caught = [N.txt(h.type) for h in K.walk_no_nested(pg.raw)
                  if isinstance(h, ast.ExceptHandler) and h.type is not None]
        ctx.ob('C19.2', pg, None,
               any('NoSuchObject' in c for c in caught),
               'a partition without a record is given zero capacity '
               '(handles %s)' % caught, construct='missing partition = zero')


_A = 'lib/python/treadmill/api/allocation.py'

MUTANTS = [
    ('revert-F23-update-checks-the-request', [(_A, """                    _check_capacity(cell, allocation, cell_alloc)
""", """                    _check_capacity(cell, allocation, rsrc)
""")], 'C19.3'),
    ('traits-disk-subtracts-cpu', [(_A, """                free[trait]['disk'] -= utils.size_to_bytes(alloc['disk'])
""", """                free[trait]['disk'] -= utils.size_to_bytes(alloc['cpu'])
""")], 'C19.1'),
    ('free-memory-parsed-as-cpu', [(_A, """        free['memory'] -= utils.size_to_bytes(alloc['memory'])
""", """        free['memory'] -= utils.cpu_units(alloc['memory'])
""")], 'C19.1'),
    ('limit-compares-disk-with-memory', [(_A, """    if utils.size_to_bytes(request['disk']) > limit['disk']:
""", """    if utils.size_to_bytes(request['disk']) > limit['memory']:
""")], 'C19'),
    ('limit-ge', [(_A, """    if utils.cpu_units(request['cpu']) > limit['cpu']:
""", """    if utils.cpu_units(request['cpu']) >= limit['cpu']:
""")], 'C19.2'),
    ('limit-wrong-exception', [(_A, """    if utils.size_to_bytes(request['memory']) > limit['memory']:
        raise exc.InvalidInputError(
""", """    if utils.size_to_bytes(request['memory']) > limit['memory']:
        raise exc.TreadmillError(
""")], 'C19.2'),
    ('update-check-conditional', [(_A, """                    _check_capacity(cell, allocation, cell_alloc)
                    admin_cell_alloc.update([cell, allocation], cell_alloc)
""", """                    if 'cpu' in rsrc:
                        _check_capacity(cell, allocation, cell_alloc)
                    admin_cell_alloc.update([cell, allocation], cell_alloc)
""")], 'C19.3'),
    ('create-writes-before-check', [(_A, """                    _check_capacity(cell, allocation, rsrc)
                    if 'rank' not in rsrc:
                        rsrc['rank'] = _DEFAULT_RANK

                    for plugin in self._plugins:
                        rsrc = plugin.add_attributes(rsrc_id, rsrc)

                    _admin_cell_alloc().create([cell, allocation], rsrc)
""", """                    if 'rank' not in rsrc:
                        rsrc['rank'] = _DEFAULT_RANK

                    for plugin in self._plugins:
                        rsrc = plugin.add_attributes(rsrc_id, rsrc)

                    _admin_cell_alloc().create([cell, allocation], rsrc)
                    _check_capacity(cell, allocation, rsrc)
""")], 'C19.3'),
    ('old-id-not-excluded-in-traits', [(_A, """        # skip allocation with old_id
        if alloc['_id'] == old_id:
            continue

        for trait in alloc['traits']:""", """        for trait in alloc['traits']:""")], 'C19.3'),
    ('update-create-schema', [(_A, """                               {'$ref': 'reservation.json#/verbs/update'}]}
""", """                               {'$ref': 'reservation.json#/verbs/create'}]}
""")], 'C19.4'),
    ('create-partition-not-defaulted', [(_A, """                    if 'partition' not in rsrc:
                        rsrc['partition'] = _DEFAULT_PARTITION
                    _check_capacity(cell, allocation, rsrc)
""", """                    _check_capacity(cell, allocation, rsrc)
""")], 'C19.4'),
    ('limits-all-traits', [(_A, """        if limit['trait'] in rsrc.get('traits', [])
""", """        if limit['trait'] in rsrc.get('traits', []) or True
""")], 'C19.5'),
    ('trait-loop-breaks', [(_A, """                free[trait]['memory'] -= utils.size_to_bytes(alloc['memory'])
""", """                free[trait]['memory'] -= utils.size_to_bytes(alloc['memory'])
                break
""")], 'C19.5'),
]

REFACTORS = [
    ('limit-swapped', [(_A, """    if utils.cpu_units(request['cpu']) > limit['cpu']:
""", """    if limit['cpu'] < utils.cpu_units(request['cpu']):
""")]),
    ('free-loop-log', [(_A, """        free['cpu'] -= utils.cpu_units(alloc['cpu'])
""", """        _LOGGER.debug('counting %s', alloc['_id'])
        free['cpu'] -= utils.cpu_units(alloc['cpu'])
""")]),
    ('old-id-neq', [(_A, """        # skip allocation with old_id
        if alloc['_id'] == old_id:
            continue

        free['cpu'] -= utils.cpu_units(alloc['cpu'])
        free['disk'] -= utils.size_to_bytes(alloc['disk'])
        free['memory'] -= utils.size_to_bytes(alloc['memory'])
""", """        if alloc['_id'] != old_id:
            free['cpu'] -= utils.cpu_units(alloc['cpu'])
            free['disk'] -= utils.size_to_bytes(alloc['disk'])
            free['memory'] -= utils.size_to_bytes(alloc['memory'])
""")]),
]
