"""C16 - what a container start registers on the host is removed when it
finishes (create / clean-up descriptor coverage)."""

import ast
import re
import string

from .. import cfg as C
from .. import norm as N
from ..index import try_fold, dotted_text
from . import common as K

RUN = 'treadmill.runtime.linux._run'
FIN = 'treadmill.runtime.linux._finish'
RT = 'treadmill.runtime'
NET = 'treadmill.services.network_service'

EXPLANATION = """
C16.1 create/clean-up coverage by symbolic descriptors: every registration of
_run._unshare_network - (resource, chain or set constant, payload with field
terms, loop domain, condition) - has a removal descriptor in
_finish._cleanup_network (one level of inlining with argument binding, so
_cleanup_ephemeral_ports is seen through its two call sites, constant
arguments substituted into format templates) with the same resource,
constant, payload and loop domain and a condition implied by the creation's.
app.network.X and app_network['X'] are identified.  Endpoint specs are
covered by unlink_all(app.name, owner=unique_name).  C16.1b the start side
runs under `not shared_network`, which implies the finish side's entry
condition.  C16.2 both sides use the same owner key (unique_name; the
endpoint owner's basename).  C16.3 finishing is repeatable: every removal is
a tolerant primitive and the early returns precede any removal.  C16.4 port
allocation: PROD_PORT_HIGH < NONPROD_PORT_LOW, the environments using the
prod range are those mapped to the prod container set, and the socket list
is partitioned by index between endpoints and ephemeral ports.
Added by the seeding rounds - C16.1 _cleanup reaches the network clean-up on
every completed run (handled exception edges followed) and registrations and
removals pair up under implied conditions (early returns and the resource-held
guard understood); C16.2 unlink_all passes the owner; C16.3 the network
resource is released after every removal, unlink_all scans every match, and no
removal depends on another removal's result; thorough: registrars of rules /
ip-set entries / endpoint specs are the owner modules. Fourth round: C16.3
rm_ip_set lets a failed removal escape, and every removal of the finish
happens only while the network resource is still held.
Sweep: C16.3 the finish steps tolerate exactly ENOENT and raise everything else, and the firewall plugin clean-up is called.
Fifth round: C16.4 a candidate port is claimed by bind; address re-use is switched on only after the bind.
Sixth round: C16.1 the container state is saved before the network of the container is set up; C16.3 load_app_safe stands in for a corrupt state file only (ValueError).
Seventh round: C16.3 the container directory is removed only after _finish() returned normally (kept for a retry otherwise), and a read error of a resource-service reply means 'not available' only when the file does not exist.
Eighth round: C16.1 the firewall watcher primes the passthrough reference count with one reference per rule file found and empties the passthrough set before priming it.
Does NOT decide host state equality over interleavings, nor that passthrough
hosts resolve to the same addresses at start and finish (the source's own
FIXME).
"""

ASSUMPTIONS = [
    'the network resource returned at finish is the one recorded at start '
    "(app.network.X == app_network['X'])",
    'IP-set entries compare by value: adding the same entry in each loop '
    'iteration is one entry',
]

MIN_OBLIGATIONS = 16
MIN_PER_RULE = {'C16.1': 9, 'C16.2': 2, 'C16.3': 3, 'C16.4': 3}

_CREATE = {'create_rule': 'rule', 'add_ip_set': 'ipset',
           'create_spec': 'spec'}
_REMOVE = {'unlink_rule': 'rule', 'rm_ip_set': 'ipset',
           'unlink_all': 'spec', 'unlink_spec': 'spec'}


class Sym(object):
    """Symbolic walk of a function producing registration descriptors."""

    def __init__(self, ctx, func, table, bindings=None, loops=(), conds=(),
                 depth=0):
        self.ctx = ctx
        self.func = func
        self.table = table
        self.env = dict(bindings or {})
        self.loops = list(loops)
        self.conds = list(conds)
        self.depth = depth
        self.out = []
        # unique local definitions
        counts = {}
        defs = {}
        for sub in K.walk_no_nested(func.node):
            if isinstance(sub, ast.Assign) and len(sub.targets) == 1 and \
                    isinstance(sub.targets[0], ast.Name):
                name = sub.targets[0].id
                counts[name] = counts.get(name, 0) + 1
                defs[name] = sub.value
        self.defs = defs
        self.multi = set(k for k, v in counts.items() if v > 1)

    # -- terms ---------------------------------------------------------------
    def term(self, expr, local=None):
        local = local or {}
        if isinstance(expr, ast.Constant):
            return repr(expr.value)
        if isinstance(expr, ast.Name):
            if expr.id in local:
                return local[expr.id]
            if expr.id in self.env:
                return self.env[expr.id]
            if expr.id in self.defs and expr.id not in self.multi:
                return self.term(self.defs[expr.id], local)
            return expr.id
        if isinstance(expr, ast.Attribute):
            base = self.term(expr.value, local)
            if base in ('app.network',):
                return '$net.%s' % expr.attr
            return '%s.%s' % (base, expr.attr)
        if isinstance(expr, ast.Subscript) and isinstance(expr.slice,
                                                          ast.Constant):
            base = self.term(expr.value, local)
            # the network resource record: the local bound to
            # <client>.get(<unique name>), whatever it is called
            if N.txt(expr.value) == 'app_network' or base == 'app_network' \
                    or re.match(r'^\w+\.get\(appcfg\.app_unique_name\(app\)\)$',
                                base):
                return '$net.%s' % expr.slice.value
            return '%s[%r]' % (base, expr.slice.value)
        if isinstance(expr, ast.Call):
            name = dotted_text(expr.func) or N.txt(expr.func)
            if isinstance(expr.func, ast.Attribute) and \
                    expr.func.attr == 'format' and isinstance(
                        expr.func.value, ast.Constant):
                tmpl = expr.func.value.value
                kws = {k.arg: self.term(k.value, local)
                       for k in expr.keywords}
                pos = [self.term(a, local) for a in expr.args]
                out = []
                auto = 0
                for lit, fld, _spec, _conv in \
                        string.Formatter().parse(tmpl):
                    out.append(lit)
                    if fld == '':
                        fld = str(auto)     # '{}' auto-numbered field
                        auto += 1
                    if fld:
                        if fld.isdigit() and int(fld) < len(pos):
                            val = pos[int(fld)]
                        else:
                            val = kws.get(fld, '?' + fld)
                        if val.startswith("'") and val.endswith("'"):
                            out.append(val[1:-1])
                        else:
                            out.append('{%s}' % val)
                return 'fmt:' + ''.join(out)
            args = [self.term(a, local) for a in expr.args]
            kws = ['%s=%s' % (k.arg, self.term(k.value, local))
                   for k in expr.keywords]
            if name == 'getattr' and len(args) == 3 and args[2] == 'None':
                return 'getattr(%s,%s)' % (args[0], args[1])
            if name == 'getattr' and len(args) == 2 and \
                    args[1].startswith("'") and args[1].endswith("'") and \
                    args[1][1:-1].isidentifier():
                return '%s.%s' % (args[0], args[1][1:-1])
            return '%s(%s)' % (name, ','.join(args + sorted(kws)))
        if isinstance(expr, (ast.SetComp, ast.ListComp, ast.GeneratorExp)):
            gen = expr.generators[0]
            var = N.txt(gen.target)
            dom = self.term(gen.iter, local)
            inner = dict(local)
            inner[var] = '$x'
            return 'set{%s for $x in %s}' % (self.term(expr.elt, inner),
                                             dom)
        if isinstance(expr, ast.Compare) and len(expr.ops) == 1:
            return '%s %s %s' % (self.term(expr.left, local),
                                 type(expr.ops[0]).__name__,
                                 self.term(expr.comparators[0], local))
        if isinstance(expr, ast.UnaryOp) and isinstance(expr.op, ast.Not):
            return 'not(%s)' % self.term(expr.operand, local)
        return N.txt(expr)

    # -- walking -------------------------------------------------------------
    def walk(self, stmts):
        pushed = 0
        for stmt in stmts:
            self.stmt(stmt)
            # `if C: ... return`: what follows in the block runs under not C
            if isinstance(stmt, ast.If) and not stmt.orelse and \
                    stmt.body and isinstance(
                        stmt.body[-1], (ast.Return, ast.Raise,
                                        ast.Continue, ast.Break)):
                self.conds.append(_neg(self.term(stmt.test)))
                pushed += 1
        for _ in range(pushed):
            self.conds.pop()

    def stmt(self, stmt):
        if isinstance(stmt, ast.For) and \
                isinstance(stmt.iter, (ast.Tuple, ast.List)) and \
                stmt.iter.elts and isinstance(stmt.target, ast.Name) and \
                all(isinstance(e, ast.Constant) for e in stmt.iter.elts):
            # a loop over literals is unrolled
            var = stmt.target.id
            saved = self.env.get(var)
            keep = dict(self.env)
            for elt in stmt.iter.elts:
                self.env = dict(keep)
                self.env[var] = repr(elt.value)
                self.walk(stmt.body)
            self.env = keep
            if saved is not None:
                self.env[var] = saved
            return
        if isinstance(stmt, ast.For):
            dom = self.term(stmt.iter)
            var = N.txt(stmt.target)
            saved = self.env.get(var)
            self.env[var] = '$each(%s)' % dom
            self.loops.append(dom)
            self.walk(stmt.body)
            self.loops.pop()
            if saved is None:
                self.env.pop(var, None)
            else:
                self.env[var] = saved
            return
        if isinstance(stmt, ast.If) and isinstance(stmt.test, ast.Constant) \
                and stmt.test.value is True:
            self.walk(stmt.body)        # block of an inlined helper
            return
        if isinstance(stmt, ast.If):
            cond = self.term(stmt.test)
            self.conds.append(_canon(cond))
            self.walk(stmt.body)
            self.conds.pop()
            self.conds.append(_neg(cond))
            self.walk(stmt.orelse)
            self.conds.pop()
            return
        if isinstance(stmt, ast.Try):
            self.walk(stmt.body)
            self.walk(stmt.orelse)
            self.walk(stmt.finalbody)
            return
        if isinstance(stmt, ast.With):
            self.walk(stmt.body)
            return
        if isinstance(stmt, (ast.FunctionDef, ast.ClassDef)):
            return
        if isinstance(stmt, ast.Assign) and len(stmt.targets) == 1 and \
                isinstance(stmt.targets[0], ast.Name):
            # sequential symbolic assignment
            for sub in ast.walk(stmt.value):
                if isinstance(sub, ast.Call):
                    self.call(sub)
            self.env[stmt.targets[0].id] = self.term(stmt.value)
            return
        for sub in ast.walk(stmt):
            if isinstance(sub, ast.Call):
                self.call(sub)

    def call(self, call):
        name = call.func.attr if isinstance(call.func, ast.Attribute) \
            else (call.func.id if isinstance(call.func, ast.Name) else None)
        if name in self.table:
            self.out.append(self.descriptor(self.table[name], name, call))
            return
        # inline same-module helper once
        if isinstance(call.func, ast.Name) and self.depth < 1 and \
                call.func.id in self.func.module.functions:
            callee = self.func.module.functions[call.func.id]
            params = callee.params()
            bind = {}
            for idx, arg in enumerate(call.args):
                if idx < len(params):
                    bind[params[idx]] = self.term(arg)
            for kw in call.keywords:
                bind[kw.arg] = self.term(kw.value)
            inner = Sym(self.ctx, callee, self.table, bind, self.loops,
                        self.conds, self.depth + 1)
            inner.walk(callee.node.body)
            self.out.extend(inner.out)

    def descriptor(self, kind, api, call):
        args = {}
        for kw in call.keywords:
            args[kw.arg] = self.term(kw.value)
        pos = [self.term(a) for a in call.args]
        const = None
        payload = None
        owner = args.get('owner')
        if kind == 'rule':
            const = args.get('chain', pos[0] if pos else None)
            payload = args.get('rule', pos[1] if len(pos) > 1 else None)
        elif kind == 'ipset':
            const = pos[0] if pos else args.get('set_name')
            payload = pos[1] if len(pos) > 1 else None
        elif kind == 'spec':
            payload = args.get('appname', pos[0] if pos else None)
            const = 'endpoints'
        used_loops = [d for d in self.loops
                      if payload and '$each(%s)' % d in payload]
        return {
            'kind': kind, 'api': api, 'const': const, 'payload': payload,
            'owner': owner, 'loops': list(self.loops),
            'used_loops': used_loops, 'conds': list(self.conds),
            'call': call, 'func': self.func,
        }


_FLIP = {' Is ': ' IsNot ', ' IsNot ': ' Is ', ' Eq ': ' NotEq ',
         ' NotEq ': ' Eq ', ' In ': ' NotIn ', ' NotIn ': ' In '}


def _canon(cond):
    """not(not(X)) -> X ; not(A Is B) -> A IsNot B."""
    while cond.startswith('not(not(') and cond.endswith('))'):
        cond = cond[8:-2]
    if cond.startswith('not(') and cond.endswith(')'):
        inner = cond[4:-1]
        for op, flipped in _FLIP.items():
            if inner.count(op) == 1 and '(' not in inner.split(op)[1] and \
                    ' and ' not in inner and ' or ' not in inner:
                return inner.replace(op, flipped)
    return cond


def _neg(cond):
    return _canon('not(%s)' % cond)


def _resource_held(cond):
    """The finish routine works only while the network resource is still
    allocated (a repeated finish finds it gone and has nothing to undo):
    that guard is judged by C16.3, not by the pairing."""
    return cond.startswith('network_client.get(') and \
        cond.endswith(' IsNot None')


_IMPLIES = [
    # creation condition  =>  removal condition
    ("getattr(app,'passthrough')", "hasattr(app,'passthrough')"),
]


def _implied(create_conds, remove_conds):
    have = set(create_conds)
    for pre, post in _IMPLIES:
        if pre in have:
            have.add(post)
    return all(c in have or _resource_held(c) for c in remove_conds)


def _coverage(ctx):
    index = ctx.index
    run = index.module(RUN)
    fin = index.module(FIN)
    start = run.functions.get('_unshare_network')
    stop = fin.functions.get('_cleanup_network')
    ctx.require(start is not None and stop is not None,
                '_run._unshare_network / _finish._cleanup_network',
                    rule='C16.3')
    created = Sym(ctx, start, _CREATE)
    created.walk(start.node.body)
    removed = Sym(ctx, stop, _REMOVE)
    removed.walk(stop.node.body)
    ctx.require(len(created.out) >= 9, 'registration descriptors of '
                '_unshare_network (found %d)' % len(created.out), rule='C16.3')
    ctx.require(len(removed.out) >= 6, 'removal descriptors of '
                '_cleanup_network (found %d)' % len(removed.out), rule='C16.3')
    # every removal happens only while the network resource is still
    # allocated to this container: after it was released the address (and
    # the ip-set entries keyed by it, which carry no owner) may belong to
    # somebody else - a repeated finish must find nothing to undo
    for desc in removed.out:
        if desc['kind'] == 'spec':
            continue
        held = any(_resource_held(c) for c in desc['conds'])
        ctx.ob('C16.3', stop, desc['call'], held,
               'removal only while the network resource is still held '
               '(conditions: %s)' % (desc['conds'] or '-'),
               construct='held: %s %s' % (desc['kind'], desc['const']))
    for desc in created.out:
        if desc['kind'] == 'spec':
            cands = [r for r in removed.out if r['kind'] == 'spec' and
                     r['payload'] == desc['payload']]
            ok = any(_implied(desc['conds'], r['conds']) for r in cands)
            ctx.ob('C16.1', start, desc['call'], ok,
                   'endpoint specs of %s are removed by unlink_all(%s, ...)'
                   % (desc['payload'], desc['payload']),
                   construct='spec %s' % desc['payload'])
            continue
        cands = [r for r in removed.out if r['kind'] == desc['kind'] and
                 r['const'] == desc['const'] and
                 r['payload'] == desc['payload']]
        good = [r for r in cands
                if set(r['used_loops']) == set(desc['used_loops']) and
                set(r['loops']) <= set(desc['loops']) and
                _implied(desc['conds'], r['conds'])]
        detail = '%s %s %s [for %s if %s]' % (
            desc['kind'], desc['const'], desc['payload'],
            desc['used_loops'] or '-', desc['conds'] or '-')
        why = ''
        if not cands:
            why = ' - no removal with the same resource, constant and ' \
                  'payload'
        elif not good:
            why = ' - removals with that payload run under %s' % [
                (r['loops'], r['conds']) for r in cands]
        ctx.ob('C16.1', start, desc['call'], bool(good),
               'registered at start and removed at finish: ' + detail + why,
               construct='%s %s %s' % (desc['kind'], desc['const'],
                                       (desc['payload'] or '')[:110]))
    # plugin exception rules
    ssrc = ast.unparse(start.node)
    fsrc = ast.unparse(fin.functions['_cleanup_exception_rules'].node) \
        if '_cleanup_exception_rules' in fin.functions else ''
    plug = fin.functions.get('_cleanup_exception_rules')
    plug_calls = [c for c in K.calls(plug.node)
                  if K.is_meth(c, 'cleanup_exception_rules')] \
        if plug is not None else []
    ctx.ob('C16.1', start, None,
           ('apply_exception_rules' not in ssrc) or
           ('cleanup_exception_rules' in fsrc and bool(plug_calls) and
            '_cleanup_exception_rules(' in ast.unparse(stop.node)),
           'firewall plugin exception rules applied at start are cleaned '
           'up at finish', construct='plugin exception rules')
    return start, stop, created.out, removed.out, run, fin


def _entry_conditions(ctx, run, fin):
    nz = N.Normaliser()
    count = 0
    for mod, callee, positive in ((run, '_unshare_network', True),
                                  (fin, '_cleanup_network', False)):
        for func in mod.live_functions():
            graph = None
            for sub in K.walk_no_nested(func.node):
                if isinstance(sub, ast.Call) and isinstance(
                        sub.func, ast.Name) and sub.func.id == callee:
                    graph = graph or ctx.cfg(func)
                    site = [n for n in graph.nodes if any(
                        c is sub for c in C.node_calls(n))][0]
                    count += 1
                    # the manifest handed to the callee, whatever the
                    # caller calls it
                    cdef = mod.functions.get(callee)
                    appv = 'app'
                    if cdef is not None and 'app' in cdef.params():
                        pos = cdef.params().index('app')
                        if pos < len(sub.args):
                            appv = N.txt(sub.args[pos])
                        for kw in sub.keywords:
                            if kw.arg == 'app':
                                appv = N.txt(kw.value)
                    ok = K.guarded_by(graph, site, lambda e, a=appv:
                                      K.truth_edge(nz, e,
                                                   '%s.shared_network' % a,
                                                   False))
                    ctx.ob('C16.1', func, site, ok,
                           '%s runs only for a private network (not '
                           'shared_network)' % callee,
                           construct='%s entry condition' % callee)
    ctx.require(count >= 2, 'callers of the start / finish network '
                            'routines', rule='C16.1')
    # what finish needs to know to undo a start (addresses, ports) is on
    # disk before the start registers anything: a start that fails half way
    # through is cleaned up from that record
    for func in run.live_functions():
        calls = [c for c in K.calls(func.node)
                 if isinstance(c.func, ast.Name) and
                 c.func.id == '_unshare_network']
        if not calls:
            continue
        graph = ctx.cfg(func)
        saves = [n for n, c in K.nodes_calling(
            graph, lambda c: K.callee_text(c).endswith('save_app'))]
        for node, call in K.nodes_calling(graph, lambda c: c in calls):
            ok = bool(saves) and K.guarded_by(
                graph, node, lambda e: e.src in saves and e.kind != 'exc')
            ctx.ob('C16.1', func, node, ok,
                   'the container state is saved before the network of the '
                   'container is set up (finish reads it to undo a start '
                   'that failed half way)',
                   construct='state saved before registrations')
    # ... and finish falls back on the bare-bones stand-in (which has no
    # network attributes, so nothing is torn down) only for a state file
    # that is corrupt; a file that cannot be read now makes the finish fail
    # and be tried again
    # the record a repeated finish works from - the container directory with
    # its state file - is removed only after the finish went through: a
    # finish that failed half way is tried again and finds it
    rb = ctx.index.module('treadmill.runtime.runtime_base')
    rbc = rb.classes.get('RuntimeBase') if rb else None
    fin_m = rbc.methods.get('finish') if rbc else None
    ctx.require(fin_m is not None, 'RuntimeBase.finish', rule='C16.3')
    fgraph = ctx.cfg(fin_m)
    inner = [n for n, c in K.nodes_calling(
        fgraph, lambda c: K.is_meth(c, '_finish') and
        K.recv_text(c) == 'self')]
    wipes = [n for n, c in K.nodes_calling(
        fgraph, lambda c: K.callee_text(c) in ('shutil.rmtree',
                                               'fs.rmtree_safe'))]
    ctx.require(inner and wipes, '_finish() and the removal of the container '
                'directory in RuntimeBase.finish', rule='C16.3', func=fin_m)
    for node in wipes:
        ok = K.guarded_by(fgraph, node, lambda e: e.src in inner and
                          e.kind != 'exc', follow_exc=True)
        ctx.ob('C16.3', fin_m, node, ok,
               'the container directory is removed only after _finish() '
               'returned normally', construct='directory kept for a retry')
    # "the resource is not there" (which finish reads as: already freed,
    # nothing to tear down) is answered for a reply file that does not
    # exist - not for one that could not be read just now
    bs = ctx.index.module('treadmill.services._base_service')
    rsc = bs.classes.get('ResourceServiceClient') if bs else None
    wait = rsc.methods.get('wait') if rsc else None
    ctx.require(wait is not None, 'ResourceServiceClient.wait', rule='C16.3')
    wgraph = ctx.cfg(wait)
    wnz = N.Normaliser()
    handlers = [n for n in wgraph.nodes if n.kind == 'handler']
    converted = [n for n in wgraph.nodes if n.kind == 'raise_stmt' and
                 isinstance(n.ast, ast.Raise) and n.ast.exc is not None and
                 'TimeoutError' in N.txt(n.ast.exc) and any(
                     n in K.cut_reach(wgraph, h, follow_exc=False)
                     for h in handlers)]
    ctx.require(converted, 'conversion of a read error into "not available" '
                'in ResourceServiceClient.wait', rule='C16.3', func=wait)
    for node in converted:
        ok = K.guarded_by(wgraph, node, lambda e: any(
            a.key[0] == 'cmp' and a.key[1] == '==' and
            'errno.ENOENT' in [t for t, _c in a.key[2]]
            for a in wnz.facts_of_edge(e)), follow_exc=True)
        ctx.ob('C16.3', wait, node, ok,
               'a read error of the reply becomes "not available" only when '
               'the file does not exist (ENOENT)',
               construct='not-available only for a missing reply')
    rt = ctx.index.module(RT)
    safe = rt.functions.get('load_app_safe') if rt else None
    ctx.require(safe is not None, 'runtime.load_app_safe', rule='C16.3')
    caught = set()
    for sub in K.walk_no_nested(safe.raw):
        if isinstance(sub, ast.ExceptHandler):
            if sub.type is None:
                caught.add('*')
            elif isinstance(sub.type, ast.Tuple):
                caught |= set(N.txt(e) for e in sub.type.elts)
            else:
                caught.add(N.txt(sub.type))
    ctx.ob('C16.3', safe, None, caught == {'ValueError'},
           'load_app_safe stands in for a corrupt state file only (handles '
           '%s)' % sorted(caught), construct='stand-in only for corrupt state')
    # the finish side is reached on every completed finish of a container
    # with a private network - also when an earlier step failed in a way its
    # handler tolerates
    for func in fin.all_functions():
        # judged on the routine that lexically holds the call (its source,
        # not the view with helpers inlined into their callers)
        calls = [c for c in K.calls(func.raw)
                 if isinstance(c.func, ast.Name) and
                 c.func.id == '_cleanup_network']
        if not calls:
            continue
        # (named booleans read back into their tests - the one local
        # normalisation that does not move code between routines)
        import copy
        from .. import inline as I
        src_def = I.fold_test_flags(copy.deepcopy(func.raw))
        calls = [c for c in K.calls(src_def)
                 if isinstance(c.func, ast.Name) and
                 c.func.id == '_cleanup_network']
        graph = C.CFG(src_def.body, func)

        def shared(edge):
            for atom in nz.facts_of_edge(edge):
                key = atom.key
                if key[0] == 'truth' and key[1] == 'app.shared_network' \
                        and key[2]:
                    return True
                if key[0] == 'truth' and not key[2] and \
                        key[1].startswith('hasattr(app,') and \
                        'shared_network' in key[1]:
                    return True
            return False
        path = K.find_path(
            graph.entry, [graph.exit],
            cut_node=lambda n: any(c in calls for c in C.node_calls(n)),
            cut_edge=shared, follow_exc=True)
        ctx.ob('C16.1', func, calls[0], path is None,
               'every completed run of %s with a private network passes '
               'through _cleanup_network, tolerated failures of earlier '
               'steps included' % func.name,
               path=K.describe(path) if path else None,
               construct='%s always reaches the network clean-up' %
               func.name)


def _owner(ctx, start, stop, created, removed):
    owners = set(d['owner'] for d in created if d['kind'] == 'rule')
    rown = set(d['owner'] for d in removed if d['kind'] == 'rule')
    want = 'appcfg.app_unique_name(app)'
    ctx.ob('C16.2', start, None, owners == {want} and rown == {want},
           'rule files are created and removed with owner unique_name '
           '(start %s, finish %s)' % (sorted(owners), sorted(rown)),
           construct='rule owner key')
    sown = [d['owner'] for d in created if d['kind'] == 'spec']
    rsown = [d['owner'] for d in removed if d['kind'] == 'spec']
    ok = bool(sown) and all(
        o == 'os.path.join(tm_env.apps_dir,%s)' % want for o in sown) and \
        bool(rsown) and all(o == want for o in rsown)
    ctx.ob('C16.2', stop, None, ok,
           'endpoint specs: owner at start is <apps_dir>/unique_name, '
           'finish removes only specs whose owner basename is unique_name '
           '(start %s, finish %s)' % (sown, rsown),
           construct='spec owner key')


def _repeatable(ctx, stop, fin):
    graph = ctx.cfg(stop)
    removal_nodes = [n for n, c in K.nodes_calling(
        graph, lambda c: isinstance(c.func, ast.Attribute) and
        c.func.attr in _REMOVE or isinstance(c.func, ast.Name) and
        c.func.id.startswith('_cleanup_'))]
    ctx.require(removal_nodes, 'removals in _cleanup_network', rule='C16.3')
    for node in graph.nodes:
        if node.kind != 'return':
            continue
        before = K.guarded_by(graph, node,
                              lambda e: e.src in removal_nodes)
        ctx.ob('C16.3', stop, node, not before and not any(
            node in C.reach_after(r, edge_ok=C.no_exc)
            for r in removal_nodes),
               "the early returns ('never allocated', 'already freed') "
               'precede every removal',
               construct='early return [%s]' % K.controlling(node, graph))
    # the fact the 'already freed' return tests is established last: the
    # network resource is released only after every removal, so a finish
    # that failed half-way is repeated in full
    getters = [c for _n, c in K.nodes_calling(
        graph, lambda c: K.is_meth(c, 'get') and
        K.recv_text(c) in stop.params())]
    ctx.require(getters, 'lookup of the network resource', rule='C16.3')
    client = K.recv_text(getters[0])
    releases = [n for n, c in K.nodes_calling(
        graph, lambda c: K.is_meth(c, 'delete') and
        K.recv_text(c) == client)]
    ctx.ob('C16.3', stop, releases[0] if releases else None,
           bool(releases),
           'the network resource is released (%s.delete)' % client,
           construct='release of the network resource')
    for rel in releases:
        after = [n for n in C.reach_after(rel, edge_ok=C.no_exc)
                 if n in removal_nodes]
        ctx.ob('C16.3', stop, after[0] if after else rel, not after,
               'the network resource is released after every removal '
               '(a repeated finish returns early once it is gone)',
               construct='release is the last step')
    # removing the specs of one container: a spec of another owner is
    # skipped, the scan goes on
    epm = ctx.index.get_class('treadmill.endpoints', 'EndpointsMgr')
    ua = epm.methods.get('unlink_all')
    ctx.require(ua is not None, 'EndpointsMgr.unlink_all')
    ugraph = ctx.cfg(ua)
    loops = [n for n in ugraph.nodes if n.kind == 'for']
    ctx.require(loops, 'scan loop of unlink_all', rule='C16.3')
    for loop in loops:
        leaves = [e for e in K.loop_exit_edges(loop)
                  if e.kind != 'exc' and e.src is not loop and
                  e.src.kind != 'raise']
        ctx.ob('C16.3', ua, leaves[0].src if leaves else loop, not leaves,
               'the scan over matching specs is left only when exhausted or '
               'by an error: a spec owned by another container does not '
               'stop the removal of the remaining ones',
               construct='unlink_all scans every match')
    # removals do not depend on each other's outcome: after a finish that
    # failed between two removals of one registration, the repeated finish
    # still performs the second one
    nzr = N.Normaliser()
    for func in (stop, fin.functions.get('_cleanup_ephemeral_ports')):
        if func is None or ctx.index.absorbed(func):
            continue
        fgraph = ctx.cfg(func)
        ffacts = N.must_facts(fgraph, nzr)
        outcome_vars = set()
        for sub in K.walk_no_nested(func.node):
            if isinstance(sub, ast.Assign) and isinstance(
                    sub.value, ast.Call) and isinstance(
                        sub.value.func, ast.Attribute) and \
                    sub.value.func.attr in _REMOVE:
                for tgt in sub.targets:
                    outcome_vars |= set(n.id for n in ast.walk(tgt)
                                        if isinstance(n, ast.Name))
        for node, call in K.nodes_calling(
                fgraph, lambda c: isinstance(c.func, ast.Attribute) and
                c.func.attr in _REMOVE):
            dep = [N.show(f) for f in ffacts[node]
                   if f.mentions & outcome_vars]
            ctx.ob('C16.3', func, node, not dep,
                   'this removal does not depend on the outcome of another '
                   'removal%s' % (': %s' % dep if dep else ''),
                   construct='independent removal %s' % node.text(40))
    bad = []
    for func in (stop, fin.functions.get('_cleanup_ephemeral_ports')):
        if func is None:
            continue
        for sub in K.walk_no_nested(func.node):
            if isinstance(sub, ast.Call):
                name = dotted_text(sub.func) or ''
                if name in ('os.unlink', 'os.remove', 'iptables.delete_raw',
                            'iptables.test_ip_set') or \
                        name.endswith('.delete_rule'):
                    bad.append(N.txt(sub)[:60])
    ctx.ob('C16.3', stop, None, not bad,
           'every removal uses a tolerant primitive (unlink_rule, '
           'unlink_all, rm_ip_set): %s' % (bad or 'ok'),
           construct='tolerant removal primitives')
    ipt = ctx.index.module('treadmill.iptables')
    rm = ipt.functions.get('rm_ip_set')
    ctx.require(rm is not None, 'iptables.rm_ip_set')
    ctx.ob('C16.3', rm, None, "'-exist'" in ast.unparse(rm.node),
           'rm_ip_set tolerates a missing entry (-exist)',
           construct='rm_ip_set -exist')
    # ... and nothing else: a delete that really failed must escape, so
    # that the finish is reported as failed and run again (a handler here
    # would swallow it and the entry would stay for ever)
    handlers = [sub for sub in K.walk_no_nested(rm.node)
                if isinstance(sub, ast.Try) and sub.handlers]
    ctx.ob('C16.3', rm, handlers[0] if handlers else None, not handlers,
           'rm_ip_set lets a failed removal escape (no exception handler '
           'around the ipset call)', construct='rm_ip_set failures escape')


def _ports(ctx):
    index = ctx.index
    rt = index.module(RT)
    vals = {}
    for name in ('PROD_PORT_LOW', 'PROD_PORT_HIGH', 'NONPROD_PORT_LOW',
                 'NONPROD_PORT_HIGH'):
        expr = rt.consts.get(name)
        ctx.require(expr is not None, 'runtime.%s' % name)
        vals[name] = try_fold(index, rt, expr)
    ok = all(isinstance(v, int) for v in vals.values()) and \
        vals['PROD_PORT_LOW'] <= vals['PROD_PORT_HIGH'] < \
        vals['NONPROD_PORT_LOW'] <= vals['NONPROD_PORT_HIGH']
    ctx.ob('C16.4', 'treadmill.runtime', None, ok,
           'prod and non-prod port ranges are disjoint: %s' % vals,
           construct='port ranges', file=rt.rel)
    alloc = rt.functions.get('_allocate_sockets')
    ctx.require(alloc is not None, 'runtime._allocate_sockets')
    prod_envs = None
    for sub in K.walk_no_nested(alloc.node):
        # the choice of the range: a statement or a conditional expression
        # (a tiny range helper folded at its call site)
        if isinstance(sub, (ast.If, ast.IfExp)) and \
                isinstance(sub.test, ast.Compare) \
                and len(sub.test.ops) == 1 and \
                isinstance(sub.test.ops[0], (ast.In, ast.NotIn)):
            def mentions_prod(body):
                body = body if isinstance(body, list) else [body]
                return any(isinstance(n, ast.Name) and
                           n.id == 'PROD_PORT_LOW'
                           for stmt in body for n in ast.walk(stmt))
            inn = isinstance(sub.test.ops[0], ast.In)
            mine = sub.body if inn else sub.orelse
            other = sub.orelse if inn else sub.body
            if mentions_prod(mine) and not mentions_prod(other):
                prod_envs = set(try_fold(
                    index, rt, sub.test.comparators[0], ()) or ())
    net = index.module(NET)
    table = net.consts.get('_SET_BY_ENVIRONMENT')
    ctx.require(prod_envs is not None and isinstance(table, ast.Dict),
                'environment tables', rule='C16.4')
    svc_prod = set(k.value for k, v in zip(table.keys, table.values)
                   if N.txt(v).endswith('SET_PROD_CONTAINERS'))
    ctx.ob('C16.4', alloc, None, prod_envs == svc_prod,
           'environments using the prod port range %s = environments in the '
           'prod container set %s' % (sorted(prod_envs), sorted(svc_prod)),
           construct='prod environments')
    # a port is taken by binding it: the bind of a candidate port is the
    # test that nobody else holds it, so address re-use is not switched on
    # before the bind (two sockets that both allow re-use can share a port)
    agraph = ctx.cfg(alloc)
    binds = [n for n, c in K.nodes_calling(
        agraph, lambda c: K.is_meth(c, 'bind'))]
    ctx.require(binds, 'the bind of a candidate port in _allocate_sockets',
                rule='C16.4', func=alloc)
    reuse = [n for n, c in K.nodes_calling(
        agraph, lambda c: K.is_meth(c, 'setsockopt') and any(
            'SO_REUSE' in N.txt(a) for a in c.args))]
    for node in reuse:
        loop = K.enclosing_for(agraph, node)
        ok = K.guarded_by(agraph, node, lambda e: e.src in binds and
                          e.kind != 'exc', start=loop)
        ctx.ob('C16.4', alloc, node, ok,
               'address re-use is allowed on a socket only after it was '
               'bound (the bind is the test that the port is free)',
               construct='no address re-use before the bind')
    ctx.ob('C16.4', alloc, binds[0], True,
           'candidate ports are claimed by bind (%d re-use option(s), all '
           'after the bind)' % len(reuse), construct='port claimed by bind')
    proto = rt.functions.get('_allocate_network_ports_proto')
    ctx.require(proto is not None, '_allocate_network_ports_proto')
    # by data flow, whatever the locals are called: S = _allocate_sockets(..,
    # len(E) + <ephemeral count>); for i, e in enumerate(E): S[i]; S[len(E):]
    ok = False
    for sub in K.walk_no_nested(proto.node):
        if not (isinstance(sub, ast.Assign) and len(sub.targets) == 1 and
                isinstance(sub.targets[0], ast.Name) and
                isinstance(sub.value, ast.Call) and
                K.callee_text(sub.value) == '_allocate_sockets' and
                len(sub.value.args) == 4):
            continue
        socks = sub.targets[0].id
        total = K.rexpr(proto, sub.value.args[3])
        if not (isinstance(total, ast.BinOp) and
                isinstance(total.op, ast.Add)):
            continue
        sides = [N.txt(total.left), N.txt(total.right)]
        lens = [t for t in sides if t.startswith('len(')]
        if len(lens) != 1 or not any('ephemeral_ports' in t for t in sides):
            continue
        named = lens[0][4:-1]           # the endpoint list, resolved
        indexed = sliced = False
        for loop in K.walk_no_nested(proto.node):
            if isinstance(loop, ast.For) and \
                    isinstance(loop.iter, ast.Call) and \
                    K.callee_text(loop.iter) == 'enumerate' and \
                    loop.iter.args and \
                    K.rtxt(proto, loop.iter.args[0]) == named and \
                    isinstance(loop.target, ast.Tuple):
                idx = N.txt(loop.target.elts[0])
                indexed = any(
                    isinstance(n, ast.Subscript) and
                    N.txt(n.value) == socks and N.txt(n.slice) == idx
                    for st in loop.body for n in ast.walk(st))
        for n in K.walk_no_nested(proto.node):
            if isinstance(n, ast.Subscript) and N.txt(n.value) == socks and \
                    isinstance(n.slice, ast.Slice) and \
                    n.slice.upper is None and n.slice.lower is not None and \
                    K.rtxt(proto, n.slice.lower) == lens[0]:
                sliced = True
        ok = indexed and sliced
    ctx.ob('C16.4', proto, None, ok,
           'one socket list is partitioned by index: [idx] (idx < n) for '
           'endpoints, [n:] for ephemeral ports, n + ephemeral requested',
           construct='socket partition')


_REGISTRARS = {
    # who may register host-side state, and why its removal is accounted for
    RUN: 'container start; removal side checked by C16.1',
    'treadmill.vring': 'vring rules: created and unlinked by the vring '
                       'itself on its own chains',
    'treadmill.sproc.firewall': 'passthrough set follows the rule files',
    'treadmill.services.network_service': 'container set entry added and '
                                          'removed with the device',
    'treadmill.iptables': 'static initialisation of the sets',
    'treadmill.sproc.nodeinfo': 'own service endpoint, re-created under '
                                'unlink_all',
    'treadmill.sproc.tickets': 'own service endpoint, re-created under '
                               'unlink_all',
    'treadmill.sproc.keytabs': 'own service endpoint, re-created under '
                               'unlink_all',
}


def _registrars(ctx):
    """Thorough tier, whole package: rule files, endpoint specs and IP-set
    entries are registered only by the listed modules; a new registrar has
    no removal the finish side knows about."""
    index = ctx.index
    index.load_all()
    inside = 0
    for mod in index.modules.values():
        if '.tests' in mod.name:
            continue
        if not any(api in mod.source for api in _CREATE):
            continue
        for func in mod.live_functions():
            for sub in K.walk_no_nested(func.node):
                if not isinstance(sub, ast.Call):
                    continue
                name = sub.func.attr if isinstance(
                    sub.func, ast.Attribute) else (
                        sub.func.id if isinstance(sub.func, ast.Name)
                        else None)
                if name not in _CREATE:
                    continue
                if func.name == name:
                    continue            # the primitive itself
                ok = mod.name in _REGISTRARS
                inside += ok
                ctx.ob('C16.1', func, sub, ok,
                       '%s is called by a known registrar (%s)' % (
                           name, _REGISTRARS.get(mod.name)) if ok else
                       '%s registers host-side state from %s, which is not '
                       'a known registrar: nothing removes it when the '
                       'container finishes' % (name, mod.name),
                       construct='registrar %s.%s' % (mod.name, name))
    ctx.require(inside >= 10, 'registration calls inside the known '
                              'registrars (found %d)' % inside, rule='C16.1')


def _passthrough_set(ctx):
    """C16.1: the passthrough rule files a container start writes become
    entries of the passthrough IP set through the firewall watcher, which
    counts the rule files per source and drops the entry with the last one.
    Two structural conditions keep "removed again when the container is
    finished" true across a restart of the watcher: the count it primes
    itself with is one per rule file found (a count per distinct source is
    short by one for every source two containers share, and the first finish
    removes an entry the other container still needs), and the set is
    emptied before it is primed (an entry whose rule file went away while
    the watcher was down has no count and is never removed)."""
    mod = ctx.index.module('treadmill.sproc.firewall')
    watcher = mod.functions.get('_watcher')
    init = mod.functions.get('_init_rules')
    ctx.require(watcher is not None and init is not None,
                'firewall._watcher / _init_rules', rule='C16.1')
    graph = ctx.cfg(watcher)
    # the reference count, whatever the local is called: a mapping of the
    # watcher (bound to a dict / Counter display) whose entries are
    # incremented by it or by the handlers nested in it
    counters = set()
    for sub in K.walk_no_nested(watcher.node):
        if isinstance(sub, ast.Assign) and len(sub.targets) == 1 and \
                isinstance(sub.targets[0], ast.Name) and (
                    isinstance(sub.value, ast.Dict) or (
                        isinstance(sub.value, ast.Call) and
                        K.callee_text(sub.value).split('.')[-1] in (
                            'dict', 'Counter', 'defaultdict'))):
            counters.add(sub.targets[0].id)
    def incremented(name):
        for st in ast.walk(watcher.node):
            if isinstance(st, ast.AugAssign) and isinstance(
                    st.op, ast.Add) and isinstance(
                        st.target, ast.Subscript) and \
                    N.txt(st.target.value) == name:
                return True
            if isinstance(st, ast.Assign) and isinstance(
                    st.targets[0], ast.Subscript) and \
                    N.txt(st.targets[0].value) == name and \
                    isinstance(st.value, ast.BinOp) and \
                    isinstance(st.value.op, ast.Add):
                return True
        return False
    counters = set(c for c in counters if incremented(c)) or \
        {'passthrough'}
    counts = [n for n in graph.nodes if n.kind == 'stmt' and (
        (isinstance(n.ast, ast.Assign) and isinstance(
            n.ast.targets[0], ast.Subscript) and
         isinstance(n.ast.value, ast.BinOp) and
         isinstance(n.ast.value.op, ast.Add)) or
        (isinstance(n.ast, ast.AugAssign) and isinstance(
            n.ast.op, ast.Add) and isinstance(n.ast.target, ast.Subscript)))
        and N.txt((n.ast.targets[0] if isinstance(n.ast, ast.Assign)
                   else n.ast.target).value) in counters]
    ctx.require(counts, 'priming of the passthrough reference count in '
                '_watcher', rule='C16.1', func=watcher)

    def dedup(expr, depth=0):
        """the expression builds a set somewhere on its way"""
        if depth > 4:
            return False
        for sub in ast.walk(expr):
            if isinstance(sub, (ast.SetComp, ast.Set, ast.DictComp)):
                return True
            if isinstance(sub, ast.Call) and K.callee_text(sub) in (
                    'set', 'frozenset', 'dict.fromkeys',
                    'collections.OrderedDict.fromkeys'):
                return True
            if isinstance(sub, ast.Name):
                for st in K.walk_no_nested(watcher.node):
                    if isinstance(st, ast.Assign) and any(
                            isinstance(t, ast.Name) and t.id == sub.id
                            for t in st.targets) and st.value is not expr \
                            and dedup(st.value, depth + 1):
                        return True
        return False
    for node in counts:
        loop = K.enclosing_for(graph, node)
        src = K.rtxt(watcher, loop.ast.iter) if loop is not None else ''
        ok = loop is not None and 'get_rules()' in src and \
            not dedup(loop.ast.iter)
        ctx.ob('C16.1', watcher, node, ok,
               'the watcher primes the passthrough count with one reference '
               'per rule file found (domain: %s)' % (src or 'no loop'),
               construct='passthrough count primed per rule file')
    igraph = ctx.cfg(init)
    flushes = [n for n, _c in K.nodes_calling(
        igraph, lambda c: K.callee_text(c).split('.')[-1] in (
            'init_set', 'flush_set') and c.args and
        N.txt(c.args[0]).endswith('SET_PASSTHROUGHS'))]
    path = K.find_path(igraph.entry, [igraph.exit],
                       cut_node=lambda n: n in flushes, follow_exc=False)
    ctx.ob('C16.1', init, flushes[0] if flushes else None,
           bool(flushes) and path is None,
           'the passthrough set is emptied when the watcher starts, before '
           'it is primed from the rule files',
           path=K.describe(path) if path else None,
           construct='passthrough set emptied at start')


def check(ctx):
    _passthrough_set(ctx)
    if ctx.tier in ('quick', 'thorough'):   # whole-package clause, cheap enough for every run
        _registrars(ctx)
    start, stop, created, removed, run, fin = _coverage(ctx)
    _entry_conditions(ctx, run, fin)
    _owner(ctx, start, stop, created, removed)
    _repeatable(ctx, stop, fin)
    # a finish that is repeated finds some resources already released: the
    # steps around the network clean-up tolerate exactly "already gone" and
    # raise every other failure (a swallowed failure ends the finish as a
    # success and it is never run again)
    judged = 0
    for func in fin.live_functions():
        judged += K.tolerance_polarity(ctx, 'C16.3', func)
    ctx.require(judged >= 2, 'errno tests of the finish steps (found %d)' %
                judged, rule='C16.3')
    _ports(ctx)


_RU = 'lib/python/treadmill/runtime/linux/_run.py'
_FI = 'lib/python/treadmill/runtime/linux/_finish.py'
_RT = 'lib/python/treadmill/runtime/__init__.py'
_NS = 'lib/python/treadmill/services/network_service.py'

MUTANTS = [
    ('registration-from-an-unknown-module', [('lib/python/treadmill/cleanup.py', '        cleanup_link = os.path.join(self.tm_env.cleanup_dir, instance)\n        try:\n            container_dir = os.readlink(cleanup_link)\n', "        cleanup_link = os.path.join(self.tm_env.cleanup_dir, instance)\n        self.tm_env.endpoints.create_spec(instance, 'tcp', 'x', 1, 1, 1, cleanup_link)\n        try:\n            container_dir = os.readlink(cleanup_link)\n")], 'C16.1', 'thorough'),
    ('udp-ephemeral-registered-as-tcp', [(_RU, """                            '{ip},udp:{port}'.format(ip=app.network.vip,
                                                     port=port))
""", """                            '{ip},tcp:{port}'.format(ip=app.network.vip,
                                                     port=port))
""")], 'C16.1'),
    ('snat-cleanup-swapped-ports', [(_FI, """            rule=firewall.SNATRule(proto=endpoint.proto,
                                   src_ip=app_network['vip'],
                                   src_port=endpoint.port,
                                   new_ip=app_network['external_ip'],
                                   new_port=endpoint.real_port),
""", """            rule=firewall.SNATRule(proto=endpoint.proto,
                                   src_ip=app_network['vip'],
                                   src_port=endpoint.real_port,
                                   new_ip=app_network['external_ip'],
                                   new_port=endpoint.port),
""")], 'C16.1'),
    ('dnat-cleanup-other-chain', [(_FI, """        tm_env.rules.unlink_rule(
            chain=iptables.PREROUTING_DNAT,
            rule=firewall.DNATRule(proto=endpoint.proto,""", """        tm_env.rules.unlink_rule(
            chain=iptables.POSTROUTING_SNAT,
            rule=firewall.DNATRule(proto=endpoint.proto,""")], 'C16.1'),
    ('infra-cleanup-only-tcp', [(_FI, """        if getattr(endpoint, 'type', None) == 'infra':
            _LOGGER.debug('removing %s:%s from infra services set',""", """        if getattr(endpoint, 'type', None) == 'infra' and \\
                endpoint.proto == 'tcp':
            _LOGGER.debug('removing %s:%s from infra services set',""")], 'C16.1'),
    ('udp-ephemeral-not-cleaned', [(_FI, """    _cleanup_ephemeral_ports(
        tm_env,
        unique_name,
        app_network['external_ip'],
        app_network['vip'],
        app.ephemeral_ports.udp,
        'udp'
    )
""", "")], 'C16.1'),
    ('ephemeral-cleanup-wrong-ip', [(_FI, """        dnatrule = firewall.DNATRule(proto=proto,
                                     dst_ip=external_ip,
                                     dst_port=port,
                                     new_ip=vip,
                                     new_port=port)
""", """        dnatrule = firewall.DNATRule(proto=proto,
                                     dst_ip=vip,
                                     dst_port=port,
                                     new_ip=vip,
                                     new_port=port)
""")], 'C16.1'),
    ('vring-not-cleaned-without-endpoints', [(_FI, """    if app.vring:
        # Mark the container's IP as VRing enabled""", """    if app.vring and app.endpoints and app.ephemeral_ports.tcp:
        # Mark the container's IP as VRing enabled""")], 'C16.1'),
    ('passthrough-cleanup-dst-external', [(_FI, """                rule=firewall.PassThroughRule(src_ip=ip,
                                              dst_ip=app_network['vip']),
""", """                rule=firewall.PassThroughRule(src_ip=ip,
                                              dst_ip=app_network['external_ip']),
""")], 'C16.1'),
    ('specs-not-unlinked', [(_FI, """    tm_env.endpoints.unlink_all(app.name, owner=unique_name)

""", """
""")], 'C16.1'),
    ('finish-network-always', [(_FI, """    if hasattr(app, 'shared_network') and not app.shared_network:
""", """    if hasattr(app, 'shared_network'):
""")], 'C16.1'),
    ('specs-unlinked-without-owner', [(_FI, """    tm_env.endpoints.unlink_all(app.name, owner=unique_name)
""", """    tm_env.endpoints.unlink_all(app.name)
""")], 'C16.2'),
    ('rule-cleanup-other-owner', [(_FI, """                                   new_port=endpoint.port),
            owner=unique_name,
        )
        tm_env.rules.unlink_rule(
            chain=iptables.POSTROUTING_SNAT,""", """                                   new_port=endpoint.port),
            owner=app.name,
        )
        tm_env.rules.unlink_rule(
            chain=iptables.POSTROUTING_SNAT,""")], 'C16.2'),
    ('removal-before-freed-check', [(_FI, """    if app_network is None:
        _LOGGER.info('Network resource already freed')
        return

""", """    tm_env.endpoints.unlink_all(app.name, owner=unique_name)
    if app_network is None:
        _LOGGER.info('Network resource already freed')
        return

""")], 'C16.3'),
    ('port-ranges-overlap', [('lib/python/treadmill/iptables.py',
                              """NONPROD_PORT_LOW = PROD_PORT_LOW + PORT_SPAN
""", """NONPROD_PORT_LOW = PROD_PORT_LOW + PORT_SPAN - 1
""")], 'C16.4'),
    ('qa-uses-prod-ports', [(_RT, """    if environment in ('uat', 'prod'):
""", """    if environment in ('qa', 'uat', 'prod'):
""")], 'C16.4'),
    ('ephemeral-overlaps-endpoints', [(_RT, """        for sock in sockets[endpoints_count:]
""", """        for sock in sockets[ephemeral_count:]
""")], 'C16.4'),
]

REFACTORS = [
    ('cleanup-uses-local-vip', [(_FI, """    # Unconfigure passthrough
    if hasattr(app, 'passthrough'):""", """    vip_addr = app_network['vip']
    # Unconfigure passthrough
    if hasattr(app, 'passthrough'):"""), (_FI, """        _LOGGER.debug('removing %r from VRing set', app_network['vip'])
        iptables.rm_ip_set(
            iptables.SET_VRING_CONTAINERS,
            app_network['vip']
        )
""", """        _LOGGER.debug('removing %r from VRing set', vip_addr)
        iptables.rm_ip_set(
            iptables.SET_VRING_CONTAINERS,
            vip_addr
        )
""")]),
    ('run-ephemeral-format-with-proto', [(_RU, """                            '{ip},udp:{port}'.format(ip=app.network.vip,
                                                     port=port))
""", """                            '{ip},{proto}:{port}'.format(
                                ip=app.network.vip, proto='udp', port=port))
""")]),
    ('cleanup-order-changed', [(_FI, """    tm_env.endpoints.unlink_all(app.name, owner=unique_name)

    for endpoint in app.endpoints:""", """    for endpoint in app.endpoints:"""), (_FI, """    _cleanup_exception_rules(tm_env, container_dir, app)

    # Terminate any entries""", """    _cleanup_exception_rules(tm_env, container_dir, app)
    tm_env.endpoints.unlink_all(app.name, owner=unique_name)

    # Terminate any entries""")]),
]
