"""C15 - state kept in names and directory entries round-trips losslessly
(writer/reader table agreement; not the value-level round trip)."""

import ast
import re
import string

from .. import cfg as C
from .. import norm as N
from ..index import fold, try_fold, dotted_text, Unfoldable
from . import common as K

RULE = 'treadmill.rulefile'
APPCFG = 'treadmill.appcfg'
UTILS = 'treadmill.utils'
ZKU = 'treadmill.zkutils'
LDAP = 'treadmill.admin._ldap'
EV_APP = 'treadmill.trace.app.events'
EV_SRV = 'treadmill.trace.server.events'

EXPLANATION = """
C15.1 rule files: per rule kind the fields of the file-name template = the
keywords of the formatter call = the named groups of the parsing regex = the
keys the parser consumes; the wildcard mapping is applied to the same fields
on both sides; unambiguous parse decided on the regex AST: the literal that
follows a named group cannot be matched by that group's alphabet, and the
kind tags differ.  C15.2 unique names: alphabet_size ** width >= 2 **
mask_bits (62**13 >= 2**77) from the folded constants of gen_uniqueid, the
id is returned through the width-13 zero-padding format, the alphabet
contains neither '-' nor '#', the formatter joins with '-' and the parsers
split from the right exactly as often; to_base_n/from_base_n share default
alphabet and base.  C15.3 trace events: event classes = values of the
event-type enum; per class slots(base)+slots(class)-event_type = constructor
parameters; from_data passes every own slot; the separator of the event_data
template is the one from_data splits on and the template fields are the
class's own slots.  C15.4 ZooKeeper payloads: non-string objects are
json.dumps'ed and the reader tries json.loads first.  C15.5 LDAP: within
every schema table attribute names and field names are unique; the (option
prefix, schema) pairs used by to_entry equal those used by from_entry; an
empty list clears every schema the non-empty branch writes; list/bool/dict
type tags are handled by both converters.
Added by the seeding rounds - C15.1 every rule attribute is decoded from its
own field, value and wildcard test alike; C15.2 unique names split from the
right, pad width and alphabet capacity through format() or str.format with
constant specs; C15.3 where[:why] is split once and every slot passed by
from_data is decoded; C15.4 get_with_metadata decodes by the stored format;
C15.5 an empty list clears every schema and the DN tenant order is reversed on
both sides. Fourth round: C15.5 the LDAP update diff filters a value only when
it is None.
Sweep: C15.2 a value the base-n encoder special-cases is written as its own digit; C15.3 the base decoder hands every field under its own name to the decoder of the class the type tag selects and returns what that decoder built, and a split is decoded by exact unpacking only when every field is numeric.
Fifth round: C15.4 the zkutils writers decide that no payload was given by identity with None, never by truthiness; C15.5 LdapObject.update sends the entry exactly as to_entry built it (empty values are the deletion markers).
Sixth round: C15.2 the base-n routines work in integers only (no true division, no float); C15.4 the decoder order is judged in the helper that holds json.loads.
Seventh round: C15.1 every port group of the rule-file regexes accepts all of 1..65535 (decided by matching the folded sub-expression against every value); C15.5 a list-typed admin field is written with one value per element, none dropped or merged.
Eighth round: C15.5 the reader selects option groups by their prefix alone (the writer numbers them in hexadecimal); C15.1 a template chosen by a conditional expression and wildcard values prepared in locals are read through.
Ninth round: C15.1 the writer recognises the wildcard address by value (every comparison with firewall.ANY_IP is == / !=, as the rule classes compare; F20); C15.3 a slot the reader can return as None by the shape of the data is tested against None by the writer (F21: ScheduledTraceEvent wrote why=None as the text 'None'). Both repaired in /repo. Also C15.2 no codec routine stores into a module-level name or container; C15.5 the loop that encodes an object list ranges over the list given (sorted at most), not over a mapping built from it.
Tenth round: C15.5 the attribute list of the update read names every key of the new entry, and a list attribute given as an empty list reaches the update diff (F26, repaired in /repo); C15.1 a field is written as the wildcard on a test of that field only.
Does NOT decide round-trip equality and injectivity over the value domains
(type coercions, port 0 vs wildcard, None vs empty list).
"""

ASSUMPTIONS = [
    're._parser gives the structure of the regular expressions the module '
    'compiles; str.format / str.rsplit semantics',
]

MIN_OBLIGATIONS = 60
MIN_PER_RULE = {'C15.1': 12, 'C15.2': 8, 'C15.3': 30, 'C15.4': 2,
                'C15.5': 10}


# ---------------------------------------------------------------------------
# C15.1 rule files
# ---------------------------------------------------------------------------

def _fields(template):
    return [f for _l, f, _s, _c in string.Formatter().parse(template)
            if f]


def _alphabet(items):
    """Set of characters (or category tags) a parsed sub-pattern can
    match."""
    import re._constants as sc  # pylint: disable=import-error
    out = set()
    for op, arg in items:
        name = str(op)
        if name == 'LITERAL':
            out.add(chr(arg))
        elif name == 'IN':
            for iop, iarg in arg:
                iname = str(iop)
                if iname == 'LITERAL':
                    out.add(chr(iarg))
                elif iname == 'RANGE':
                    out |= set(chr(c) for c in range(iarg[0], iarg[1] + 1))
                elif iname == 'CATEGORY':
                    out |= _category(str(iarg))
                else:
                    out.add('<%s>' % iname)
        elif name == 'CATEGORY':
            out |= _category(str(arg))
        elif name in ('MAX_REPEAT', 'MIN_REPEAT', 'POSSESSIVE_REPEAT'):
            out |= _alphabet(arg[2])
        elif name == 'SUBPATTERN':
            out |= _alphabet(arg[3])
        elif name == 'BRANCH':
            for branch in arg[1]:
                out |= _alphabet(branch)
        elif name in ('AT',):
            pass
        elif name == 'ANY':
            out.add('<ANY>')
        else:
            out.add('<%s>' % name)
    return out


def _category(name):
    if name.endswith('CATEGORY_DIGIT'):
        return set(string.digits)
    if name.endswith('CATEGORY_WORD'):
        return set(string.ascii_letters + string.digits + '_')
    if name.endswith('CATEGORY_SPACE'):
        return set(' \t\n\r\f\v')
    return {'<%s>' % name}


def _rulefile(ctx):
    import re._parser as sre_parse  # pylint: disable=import-error
    index = ctx.index
    mod = index.module(RULE)
    mgr = index.get_class(RULE, 'RuleMgr')
    fmt = mgr.methods.get('_filenameify')
    parse = mgr.methods.get('get_rule')
    ctx.require(fmt is not None and parse is not None,
                'RuleMgr._filenameify / get_rule', rule='C15.1')
    templates = {n: fold(index, mod, e) for n, e in mod.consts.items()
                 if n.endswith('_FILE_PATTERN')}
    ctx.require(len(templates) >= 3, 'file-name templates', rule='C15.1')
    tags = {}
    for tname, template in sorted(templates.items()):
        kind = tname.replace('_FILE_PATTERN', '').strip('_')
        fields = _fields(template)
        tags[kind] = template.split(':')[1] if ':' in template else template
        # formatter call
        fdefs = {}
        for sub in K.walk_no_nested(fmt.node):
            if isinstance(sub, ast.Assign) and \
                    isinstance(sub.targets[0], ast.Name):
                # (a template chosen by a conditional expression: either)
                todo = [sub.value]
                while todo:
                    val = todo.pop()
                    if isinstance(val, ast.IfExp):
                        todo += [val.body, val.orelse]
                    else:
                        fdefs.setdefault(sub.targets[0].id, []).append(
                            N.txt(val))
        calls = [s for s in K.walk_no_nested(fmt.node)
                 if isinstance(s, ast.Call) and K.is_meth(s, 'format') and
                 (N.txt(K.recv(s)) == tname or
                  tname in fdefs.get(N.txt(K.recv(s)), []))]
        ctx.require(len(calls) == 1, 'format call of %s' % tname, rule='C15.1')
        call = calls[0]
        kws = [k.arg for k in call.keywords]
        ctx.ob('C15.1', fmt, call, sorted(kws) == sorted(set(fields)),
               '%s: template fields %s = formatter keywords %s' % (
                   kind, sorted(set(fields)), sorted(kws)),
               construct='%s formatter keywords' % kind)
        def written(value):
            # the expressions a keyword value may come from: itself, or
            # every binding of the local it names
            if isinstance(value, ast.Name):
                vals = [st.value for st in K.walk_no_nested(fmt.node)
                        if isinstance(st, ast.Assign) and any(
                            isinstance(t, ast.Name) and t.id == value.id
                            for t in st.targets)]
                if vals:
                    return vals
            return [_through(ctx, fmt, value)]
        wild_w = sorted(k.arg for k in call.keywords if any(
            N.txt(s) in ('_ANY', "'*'")
            for val in written(k.value) for s in ast.walk(val)))
        # a field is written as the wildcard on a test of *that* field only
        # (the port of a rule whose address is the wildcard is still a
        # port: the parser decodes every field on its own)
        rvar = fmt.params()[-1] if fmt.params() else 'rule'
        for k in call.keywords:
            if not isinstance(k.value, ast.Name):
                continue
            for st in K.walk_no_nested(fmt.node):
                if not (isinstance(st, ast.Assign) and any(
                        isinstance(t, ast.Name) and t.id == k.value.id
                        for t in st.targets)):
                    continue
                if not any(N.txt(x) in ('_ANY', "'*'")
                           for x in ast.walk(st.value)):
                    continue
                tests = _enclosing_tests(fmt.node, st)
                foreign = sorted(set(
                    m for t in tests if 'isinstance(' not in t
                    for m in N.mentions(ast.parse(t, mode='eval').body)
                    if m.startswith(rvar + '.') and
                    m != '%s.%s' % (rvar, k.arg)))
                ctx.ob('C15.1', fmt, st, not foreign,
                       '%s: field %s is written as the wildcard on a test '
                       'of that field only%s' % (
                           kind, k.arg, '' if not foreign else
                           ' - decided by %s' % foreign),
                       construct='%s wildcard of %s decided by its own '
                                 'field' % (kind, k.arg))
        # regex
        rname = tname.replace('_PATTERN', '_RE')
        rexpr = mod.consts.get(rname)
        ctx.require(rexpr is not None and isinstance(rexpr, ast.Call),
                    'regex %s' % rname, rule='C15.1')
        try:
            pattern = fold(index, mod, rexpr.args[0])
        except (Unfoldable, KeyError, IndexError, ValueError) as err:
            ctx.fail('C15.1', fmt, rexpr,
                     'the regex %s cannot be built from the template: %s %s'
                     % (rname, type(err).__name__, err),
                     construct='%s regex' % kind)
            continue
        parsed = sre_parse.parse(pattern)
        groups = sorted(parsed.state.groupdict)
        # the port fields accept every port number the writer can emit
        # (decimal 1..65535): the sub-expression of each port group - a
        # constant of the module - is matched against all of them by the
        # analyser (constant evaluation of a regular expression literal)
        import re as _re
        for fcall in ast.walk(rexpr.args[0]):
            if not (isinstance(fcall, ast.Call) and
                    K.is_meth(fcall, 'format')):
                continue
            for kw in fcall.keywords:
                if kw.arg is None or not kw.arg.endswith('_port'):
                    continue
                try:
                    sub_re = _re.compile(fold(index, mod, kw.value))
                except Exception as err:    # pylint: disable=broad-except
                    ctx.fail('C15.1', parse, rexpr,
                             '%s: the expression of group %s cannot be '
                             'built: %s' % (kind, kw.arg, err),
                             construct='%s port range %s' % (kind, kw.arg))
                    continue
                lost = [p for p in range(1, 65536)
                        if sub_re.fullmatch(str(p)) is None]
                ctx.ob('C15.1', parse, rexpr, not lost,
                       '%s: group %s accepts every port 1..65535%s' % (
                           kind, kw.arg, '' if not lost else
                           ' - not accepted: %s%s' % (
                               lost[:3], '...' if len(lost) > 3 else '')),
                       construct='%s port range %s' % (kind, kw.arg))
        ctx.ob('C15.1', parse, rexpr, groups == sorted(set(fields)),
               '%s: named groups %s = template fields' % (kind, groups),
               construct='%s regex groups' % kind)
        # separator analysis
        seq = list(parsed)
        inv = {v: k for k, v in parsed.state.groupdict.items()}
        for idx, (op, arg) in enumerate(seq):
            if str(op) != 'SUBPATTERN':
                continue
            gname = inv.get(arg[0])
            nxt = seq[idx + 1] if idx + 1 < len(seq) else None
            if nxt is None or str(nxt[0]) == 'AT':
                continue
            if str(nxt[0]) != 'LITERAL':
                ctx.fail('C15.1', parse, rexpr,
                         '%s: group %s is not followed by a literal '
                         'separator' % (kind, gname),
                         construct='%s separator after %s' % (kind, gname))
                continue
            sep = chr(nxt[1])
            alpha = _alphabet(arg[3])
            ctx.ob('C15.1', parse, rexpr, sep not in alpha and not any(
                a.startswith('<') for a in alpha),
                   "%s: the separator %r after group %s cannot occur inside "
                   'the group' % (kind, sep, gname),
                   construct='%s separator after %s' % (kind, gname))
        anchored = str(seq[0][0]) == 'AT' and str(seq[-1][0]) == 'AT'
        ctx.ob('C15.1', parse, rexpr, anchored,
               '%s: the regex is anchored at both ends' % kind,
               construct='%s regex anchors' % kind)
        # parser branch: keys consumed and wildcard mapping
        graph = ctx.cfg(parse)
        tests = [n for n in graph.nodes if n.kind == 'test']
        consumed = set()
        wild_r = set()
        for sub in K.walk_no_nested(parse.node):
            if isinstance(sub, ast.Assign) and isinstance(
                    sub.value, ast.Call) and K.is_meth(sub.value, 'match') \
                    and K.recv_text(sub.value) == rname:
                pass
        # the `if match:` block following the match of this regex
        blocks = _match_blocks(parse, rname)
        ctx.require(blocks, 'parser branch of %s' % rname, rule='C15.1')
        for blk in blocks:
            # the parsed fields: whatever local holds <match>.groupdict()
            dnames = set(
                N.txt(st.targets[0]) for st in ast.walk(blk)
                if isinstance(st, ast.Assign) and len(st.targets) == 1 and
                isinstance(st.value, ast.Call) and
                K.is_meth(st.value, 'groupdict')) or {'data'}
            for sub in ast.walk(blk):
                if isinstance(sub, ast.Subscript) and \
                        N.txt(sub.value) in dnames and \
                        isinstance(sub.slice, ast.Constant):
                    consumed.add(sub.slice.value)
                if isinstance(sub, ast.keyword):
                    wild_r |= _decoded_wildcards(ctx, parse, sub.value)
            # each constructor argument is decoded from its own field
            for sub in ast.walk(blk):
                if not isinstance(sub, ast.keyword) or sub.arg is None:
                    continue
                keys = set(leaf.slice.value for leaf in ast.walk(sub.value)
                           if isinstance(leaf, ast.Subscript) and
                           N.txt(leaf.value) in dnames and
                           isinstance(leaf.slice, ast.Constant))
                if not keys:
                    continue
                ctx.ob('C15.1', parse, sub.value, keys == {sub.arg},
                       '%s: rule attribute %s is decoded from its own file '
                       'name field, value and wildcard test alike (fields '
                       'read: %s)' % (kind, sub.arg, sorted(keys)),
                       construct='%s parser %s' % (kind, sub.arg))
        ctx.ob('C15.1', parse, blocks[0],
               sorted(consumed) == sorted(set(fields)),
               '%s: keys consumed by the parser %s = template fields' % (
                   kind, sorted(consumed)),
               construct='%s parser keys' % kind)
        ctx.ob('C15.1', parse, blocks[0], sorted(wild_r) == wild_w,
               '%s: wildcard mapping on the same fields when writing %s and '
               'reading %s' % (kind, wild_w, sorted(wild_r)),
               construct='%s wildcard fields' % kind)
    ctx.ob('C15.1', fmt, None, len(set(tags.values())) == len(tags),
           'the kind tags differ: %s' % tags, construct='kind tags')


def _through(ctx, func, expr):
    """expr, read through a call to a tiny pure helper."""
    if isinstance(expr, ast.Call):
        inner = K.inline_expr_call(ctx.index, func, expr)
        if inner is not None:
            return inner
    return expr


def _decoded_wildcards(ctx, func, value):
    """File-name fields of data[...] that ``value`` maps to None exactly
    when they hold the wildcard marker."""
    nz = N.Normaliser()
    out = set()
    expr = _through(ctx, func, value)
    for sub in ast.walk(expr):
        if not isinstance(sub, ast.IfExp):
            continue
        none_true = isinstance(sub.body, ast.Constant) and \
            sub.body.value is None
        none_false = isinstance(sub.orelse, ast.Constant) and \
            sub.orelse.value is None
        if none_true == none_false:
            continue
        other = sub.orelse if none_true else sub.body
        atom = nz.atom(sub.test)
        if atom.key[0] != 'cmp' or atom.key[1] not in ('==', '!='):
            continue
        terms = [t for t, _c in atom.key[2]]
        if '_ANY' not in terms and "'*'" not in terms:
            continue
        if (atom.key[1] == '==') != none_true:
            continue          # None for the non-wildcard values: not a decode
        fields = [leaf.slice.value for leaf in ast.walk(other)
                  if isinstance(leaf, ast.Subscript) and
                  isinstance(leaf.slice, ast.Constant)]
        tested = [t for t in terms if t not in ('_ANY', "'*'")]
        if len(fields) == 1 and tested == [N.txt(other)]:
            out.add(fields[0])
    return out


def _match_blocks(func, rname):
    out = []
    body = func.node.body
    for idx, stmt in enumerate(body):
        if isinstance(stmt, ast.Assign) and isinstance(
                stmt.value, ast.Call) and K.is_meth(stmt.value, 'match') and \
                K.recv_text(stmt.value) == rname and idx + 1 < len(body) \
                and isinstance(body[idx + 1], ast.If):
            out.append(body[idx + 1])
    return out


# ---------------------------------------------------------------------------
# C15.2 unique names
# ---------------------------------------------------------------------------

_SPEC_RE = re.compile(r'^(?P<fill>.)?(?P<al>[<>^])?(?P<zero>0)?'
                      r'(?P<w>\d+)s?$')


def _format_call(expr):
    """'a-%s' % (x, y) as the positional template call '{0}-{1}'.format(x,
    y); anything else unchanged."""
    if isinstance(expr, ast.BinOp) and isinstance(expr.op, ast.Mod) and \
            isinstance(expr.left, ast.Constant) and \
            isinstance(expr.left.value, str) and \
            re.sub(r'%s', '', expr.left.value).count('%') == 0:
        args = expr.right.elts if isinstance(expr.right, ast.Tuple) \
            else [expr.right]
        pieces = expr.left.value.split('%s')
        if len(pieces) == len(args) + 1:
            tmpl = ''.join(piece.replace('{', '{{').replace('}', '}}') +
                           ('{%d}' % i if i < len(args) else '')
                           for i, piece in enumerate(pieces))
            return ast.Call(
                func=ast.Attribute(value=ast.Constant(value=tmpl),
                                   attr='format', ctx=ast.Load()),
                args=list(args), keywords=[])
    return expr


def _width_of(expr, index=None, mod=None, func=None):
    """(template text, {field: (width, spec)}) of a '{x:>013s}'.format(...)
    call, of the builtin format(value, '>013s'), and of a template whose
    argument was padded by such a call first."""
    def spec_of(call):
        if isinstance(call, ast.Call) and K.callee_text(call) == 'format' \
                and len(call.args) == 2 and index is not None:
            spec = try_fold(index, mod, call.args[1])
            if isinstance(spec, str):
                mt = _SPEC_RE.match(spec)
                if mt:
                    return int(mt.group('w')), spec
        # x.rjust(13, '0') / x.zfill(13): right-aligned zero padding
        if isinstance(call, ast.Call) and K.is_meth(call, 'rjust') and \
                len(call.args) == 2 and index is not None:
            width = try_fold(index, mod, call.args[0])
            fill = try_fold(index, mod, call.args[1])
            if isinstance(width, int) and fill == '0':
                return width, '>0%d' % width
        if isinstance(call, ast.Call) and K.is_meth(call, 'zfill') and \
                len(call.args) == 1 and index is not None:
            width = try_fold(index, mod, call.args[0])
            if isinstance(width, int):
                return width, '>0%d' % width
        # '{:>013s}'.format(x): a one-field template
        if isinstance(call, ast.Call) and K.is_meth(call, 'format') and \
                isinstance(K.recv(call), ast.Constant) and \
                isinstance(K.recv(call).value, str):
            flds = [(f, sp) for _l, f, sp, _c in
                    string.Formatter().parse(K.recv(call).value)
                    if f is not None]
            lits = ''.join(l for l, _f, _s, _c in
                           string.Formatter().parse(K.recv(call).value))
            if len(flds) == 1 and flds[0][1] and not lits:
                mt = _SPEC_RE.match(flds[0][1])
                if mt:
                    return int(mt.group('w')), flds[0][1]
        return None
    if func is not None:
        expr = K.rexpr(func, expr)
    direct = spec_of(expr)
    if direct is not None:
        return '{0:%s}' % direct[1], {'0': direct}
    expr = _format_call(expr)
    if isinstance(expr, ast.Call) and K.is_meth(expr, 'format') and \
            isinstance(K.recv(expr), ast.Constant):
        tmpl = K.recv(expr).value
        widths = {}
        auto = 0
        for _lit, fld, spec, _c in string.Formatter().parse(tmpl):
            if fld is None:
                continue
            key = fld
            if fld == '':
                key = str(auto)
                auto += 1
            if spec:
                mt = _SPEC_RE.match(spec)
                if mt:
                    widths[fld] = (int(mt.group('w')), spec)
                continue
            arg = None
            if key.isdigit() and int(key) < len(expr.args):
                arg = expr.args[int(key)]
            elif not key.isdigit():
                arg = K.kwarg(expr, key)
            inner = spec_of(arg) if arg is not None else None
            if inner is not None:
                widths[fld] = inner
        return tmpl, widths
    return None, {}


def _unique(ctx):
    index = ctx.index
    mod = index.module(APPCFG)
    gen = mod.functions.get('gen_uniqueid')
    fmt = mod.functions.get('_fmt_unique_name')
    if fmt is None:
        # by role: the private formatter the public app_unique_name hands
        # (name, unique id) to
        pub = mod.functions.get('app_unique_name')
        if pub is not None:
            for sub in ast.walk(pub.raw):
                if isinstance(sub, ast.Call) and isinstance(
                        sub.func, ast.Name) and \
                        sub.func.id in mod.functions and \
                        len(sub.args) == 2:
                    fmt = mod.functions[sub.func.id]
    ctx.require(gen is not None and fmt is not None,
                'appcfg.gen_uniqueid / _fmt_unique_name', rule='C15.2')
    bits = None
    alphabet = None
    enc = [s for s in K.walk_no_nested(gen.node)
           if isinstance(s, ast.Call) and
           K.callee_text(s).endswith('to_base_n')]
    ctx.require(len(enc) == 1 and enc[0].args, 'to_base_n call of '
                                               'gen_uniqueid', rule='C15.2')
    alpha_expr = K.kwarg(enc[0], 'alphabet')
    if alpha_expr is not None:
        alphabet = try_fold(index, mod, K.rexpr(gen, alpha_expr))
    # the masks applied to the encoded value (and to what it was copied
    # from): the narrowest one bounds the seed
    names = set()
    todo = [enc[0].args[0]]
    while todo:
        cur = todo.pop()
        if isinstance(cur, ast.Name) and cur.id not in names:
            names.add(cur.id)
            for sub in K.walk_no_nested(gen.node):
                if isinstance(sub, ast.Assign) and \
                        N.txt(sub.targets[0]) == cur.id:
                    todo.append(sub.value)
        elif isinstance(cur, ast.BinOp) and isinstance(cur.op, ast.BitAnd):
            for side in (cur.left, cur.right):
                val = try_fold(index, mod, side)
                if isinstance(val, int) and val > 0 and \
                        (val & (val + 1)) == 0:
                    bits = min(bits or 10 ** 9, val.bit_length())
                else:
                    todo.append(side)
    for sub in K.walk_no_nested(gen.node):
        if isinstance(sub, ast.AugAssign) and isinstance(sub.op,
                                                         ast.BitAnd) and \
                N.txt(sub.target) in names:
            val = try_fold(index, mod, sub.value)
            if isinstance(val, int) and val > 0 and (val & (val + 1)) == 0:
                bits = min(bits or 10 ** 9, val.bit_length())
    ctx.require(bits and alphabet, 'mask bits and alphabet of gen_uniqueid',
        rule='C15.2')
    rets = [s for s in K.walk_no_nested(gen.node)
            if isinstance(s, ast.Return)]
    ctx.require(rets, 'return of gen_uniqueid', rule='C15.2')
    width = None
    for ret in rets:
        _tmpl, widths = _width_of(ret.value, index, mod, gen)
        ok = bool(widths) and all(
            '>' in spec and spec.lstrip('>').startswith('0')
            for _w, spec in widths.values())
        width = list(widths.values())[0][0] if widths else None
        ctx.ob('C15.2', gen, ret, ok,
               'the id is returned through the right-aligned zero-padding '
               'format (%s)' % (widths or N.txt(ret.value)),
               construct='gen_uniqueid returns the padded id')
    ctx.ob('C15.2', gen, None, width == 13,
           'pad width is 13 (found %s)' % width, construct='id width')
    ctx.ob('C15.2', gen, None,
           width is not None and len(set(alphabet)) ** width >= 2 ** bits,
           'alphabet_size ** width >= 2 ** mask_bits: %d ** %s >= 2 ** %d'
           % (len(set(alphabet)), width, bits),
           construct='id capacity')
    ctx.ob('C15.2', gen, None, len(set(alphabet)) == len(alphabet) and
           '-' not in alphabet and '#' not in alphabet,
           "the id alphabet has no duplicate and contains neither '-' nor "
           "'#'", construct='id alphabet')
    ok = len(enc) == 1 and K.kwarg(enc[0], 'base') is not None and \
        N.txt(K.kwarg(enc[0], 'base')) == 'len(%s)' % N.txt(alpha_expr)
    ctx.ob('C15.2', gen, enc[0] if enc else None, ok,
           'the id is the seed in base len(alphabet) over that alphabet',
           construct='to_base_n arguments')
    # _fmt_unique_name
    rets = [s for s in K.walk_no_nested(fmt.node)
            if isinstance(s, ast.Return)]
    tmpl, widths = _width_of(rets[0].value, index, mod, fmt) if rets \
        else (None, {})
    ctx.ob('C15.2', fmt, rets[0] if rets else None,
           tmpl is not None and tmpl.count('-') == 1 and
           [w for w, _s in widths.values()] == [13],
           "unique name = <app>-<id padded to 13>: %r" % tmpl,
           construct='unique name template')
    call = _format_call(K.rexpr(fmt, rets[0].value)) if rets else None
    appkw = None
    if call is not None and tmpl is not None and isinstance(call, ast.Call):
        fields = [fld for _l, fld, _s, _c in string.Formatter().parse(tmpl)
                  if fld is not None]
        first = fields[0] if fields else None
        if first is not None and first.isdigit() and \
                int(first) < len(call.args):
            appkw = call.args[int(first)]
        elif first == '' and call.args:
            appkw = call.args[0]
        elif first:
            appkw = K.kwarg(call, first)
    ctx.ob('C15.2', fmt, call, appkw is not None and
           K.rtxt(fmt, appkw).endswith(".replace('#', '-')"),
           "the instance separator '#' is written as '-'",
           construct="'#' -> '-'")
    for name, expect in (('app_name', 2), ('app_unique_id', 1)):
        func = mod.functions.get(name)
        ctx.require(func is not None, 'appcfg.%s' % name)
        splits = [s for s in K.walk_no_nested(func.node)
                  if isinstance(s, ast.Call) and K.is_meth(s, 'rsplit')]
        ok = len(splits) == expect and all(
            len(s.args) == 2 and N.txt(s.args[0]) == "'-'" and
            N.txt(s.args[1]) == '1' for s in splits)
        ctx.ob('C15.2', func, splits[0] if splits else None, ok,
               "%s splits on '-' from the right, %d time(s)" % (name,
                                                               expect),
               construct='%s split' % name)
    an = mod.functions.get('app_name')
    joins = [s for s in K.walk_no_nested(an.node)
             if isinstance(s, ast.Call) and K.is_meth(s, 'join')]
    ctx.ob('C15.2', an, joins[0] if joins else None,
           len(joins) == 1 and N.txt(K.recv(joins[0])) == "'#'",
           "app_name re-joins name and instance id with '#'",
           construct='app_name join')
    # base n
    utils = index.module(UTILS)
    tb = utils.functions.get('to_base_n')
    fb = utils.functions.get('from_base_n')
    ctx.require(tb is not None and fb is not None, 'to_base_n/from_base_n',
        rule='C15.2')

    def defaults(func):
        out = {}
        for sub in K.walk_no_nested(func.node):
            if isinstance(sub, ast.If) and isinstance(
                    sub.test, ast.Compare) and \
                    N.txt(sub.test).endswith('is None'):
                for stmt in sub.body:
                    if isinstance(stmt, ast.Assign):
                        out[N.txt(stmt.targets[0])] = N.txt(stmt.value)
        return out
    dt, df = defaults(tb), defaults(fb)
    # whatever the locals are called (a shared helper's parameters after
    # inlining): one default is a module constant, the other its length
    alpha = [k for k, v in dt.items() if v.isupper() or
             v.lstrip('_').isupper()]
    ctx.ob('C15.2', tb, None, dt == df and len(alpha) == 1 and
           'len(%s)' % alpha[0] in dt.values(),
           'encoder and decoder share default alphabet and base: %s / %s'
           % (dt, df), construct='base-n defaults')
    # exact integer arithmetic: ids use 77 bits, a float quotient is wrong
    # above 2**53 (and the module divides "truly": from __future__ import
    # division)
    for bfunc in (tb, fb):
        inexact = [sub for sub in K.walk_no_nested(bfunc.node)
                   if isinstance(sub, ast.BinOp) and
                   isinstance(sub.op, ast.Div)] + [
                       sub for sub in K.walk_no_nested(bfunc.node)
                       if isinstance(sub, ast.AugAssign) and
                       isinstance(sub.op, ast.Div)] + [
                           sub for sub in K.walk_no_nested(bfunc.node)
                           if isinstance(sub, ast.Call) and
                           K.callee_text(sub) in ('float', 'math.floor',
                                                  'math.log', 'round')]
        ctx.ob('C15.2', bfunc, inexact[0] if inexact else None, not inexact,
               '%s works in integers only (no true division, no float)'
               % bfunc.name, construct='%s exact arithmetic' % bfunc.name)
    # the digit written for a value the encoder special-cases is that
    # value's own digit: `if num == 0: return alphabet[0]` (any other index
    # collides with the single-digit encoding of that index)
    params = tb.params()
    for sub in K.walk_no_nested(tb.node):
        if not (isinstance(sub, ast.If) and isinstance(sub.test, ast.Compare)
                and len(sub.test.ops) == 1 and
                isinstance(sub.test.ops[0], ast.Eq)):
            continue
        sides = (sub.test.left, sub.test.comparators[0])
        lit = [s for s in sides if isinstance(s, ast.Constant) and
               isinstance(s.value, int)]
        var = [s for s in sides if isinstance(s, ast.Name) and params and
               s.id == params[0]]
        if len(lit) != 1 or len(var) != 1:
            continue
        for stmt in sub.body:
            if isinstance(stmt, ast.Return) and isinstance(
                    stmt.value, ast.Subscript):
                idx = stmt.value.slice
                ctx.ob('C15.2', tb, stmt,
                       isinstance(idx, ast.Constant) and
                       idx.value == lit[0].value,
                       'the value %s is written as its own digit (%s)'
                       % (lit[0].value, N.txt(stmt.value)),
                       construct='base-n special-cased value')


# ---------------------------------------------------------------------------
# C15.3 trace events
# ---------------------------------------------------------------------------

def _events(ctx, modname, base_name, enum_name):
    index = ctx.index
    mod = index.module(modname)
    base = mod.classes.get(base_name)
    enum = mod.classes.get(enum_name)
    ctx.require(base is not None and enum is not None,
                '%s / %s in %s' % (base_name, enum_name, modname),
                    rule='C15.3')
    members = {}
    for stmt in enum.node.body:
        if isinstance(stmt, ast.Assign) and isinstance(stmt.value,
                                                       ast.Name):
            members[N.txt(stmt.targets[0])] = stmt.value.id
    classes = [c for c in mod.classes.values()
               if c is not base and base in index.mro(c)]
    ctx.ob('C15.3', enum.methods.get('__init__', None) or modname, None,
           sorted(members.values()) == sorted(c.name for c in classes) and
           len(set(members.values())) == len(members),
           'event classes %s = values of %s %s' % (
               sorted(c.name for c in classes), enum_name,
               sorted(members.values())),
           construct='%s covers every event class' % enum_name,
           file=mod.rel)
    base_slots = [s for s in (base.slots or []) if s != 'event_type']
    _dispatch(ctx, base)
    for cls in sorted(classes, key=lambda c: c.name):
        own = cls.slots or []
        init = index.find_method(cls, '__init__')
        params = [p for p in init.params() if p != 'self']
        ctx.ob('C15.3', init, None,
               sorted(params) == sorted(base_slots + own),
               '%s: constructor parameters %s = slots %s' % (
                   cls.name, sorted(params), sorted(base_slots + own)),
               construct='%s constructor/slots' % cls.name)
        fd = cls.methods.get('from_data')
        ed = cls.methods.get('event_data')
        ctx.require(fd is not None and ed is not None,
                    '%s.from_data / event_data' % cls.name, rule='C15.3')
        ctor = [s for s in K.walk_no_nested(fd.node)
                if isinstance(s, ast.Call) and N.txt(s.func) == 'cls']
        passed = set()
        for call in ctor:
            passed |= set(k.arg for k in call.keywords)
        ctx.ob('C15.3', fd, ctor[0] if ctor else None,
               bool(ctor) and set(own) <= passed and
               set(base_slots) <= passed,
               '%s.from_data passes every slot (own: %s)' % (cls.name, own),
               construct='%s.from_data keywords' % cls.name)
        # every own slot is fed from the parsed event_data
        tainted = {'event_data'}
        for _round in range(4):
            for sub in K.walk_no_nested(fd.node):
                if isinstance(sub, ast.Assign) and \
                        N.mentions(sub.value) & tainted:
                    for tgt in sub.targets:
                        for leaf in ast.walk(tgt):
                            if isinstance(leaf, ast.Name):
                                tainted.add(leaf.id)
        for call in ctor:
            for kw in call.keywords:
                if kw.arg in own:
                    ok = bool(N.mentions(kw.value) & tainted)
                    ctx.ob('C15.3', fd, call, ok,
                           '%s.from_data: slot %s is decoded from '
                           'event_data (%s)' % (cls.name, kw.arg,
                                                N.txt(kw.value)),
                           construct='%s.from_data %s source' % (cls.name,
                                                                 kw.arg))
        # template
        rets = [s for s in K.walk_no_nested(ed.node)
                if isinstance(s, ast.Return) and s.value is not None]
        whole = K.expr_of_function(ed.raw)
        several = whole is None and len(rets) > 1
        if whole is None and rets:
            whole = rets[0].value
        # a writer with a short form for a None slot (if self.x is None:
        # return <fewer fields>): the full template is the branch with every
        # field; the short one is judged by the None-slot clause
        cands = [whole]
        if isinstance(whole, ast.IfExp) and isinstance(
                whole.test, ast.Compare) and len(whole.test.ops) == 1 and \
                isinstance(whole.test.ops[0], (ast.Is, ast.IsNot)) and \
                isinstance(whole.test.comparators[0], ast.Constant) and \
                whole.test.comparators[0].value is None:
            cands = [whole.body, whole.orelse]
        if several:
            # the same choice spelled with statements (a test held in a
            # local, an early return): every returned form is a candidate
            cands = [r.value for r in rets]
        parsed = [_template_fields(c) for c in cands if c is not None]
        fields, seps = max(parsed, key=lambda fs: len(fs[0])) if parsed \
            else ([], '')
        if own:
            ctx.ob('C15.3', ed, rets[0] if rets else None,
                   sorted(fields) == sorted(own),
                   '%s.event_data is built from the own slots %s (found '
                   '%s)' % (cls.name, own, fields),
                   construct='%s.event_data fields' % cls.name)
        splits = [s for s in K.walk_no_nested(fd.node)
                  if isinstance(s, ast.Call) and K.is_meth(s, 'split',
                                                           'rsplit')]
        if len(own) > 1:
            # the last field may itself contain the separator: the split is
            # bounded to len(fields) - 1 cuts
            # slots the constructor stores through int(): their text never
            # contains a separator
            numeric = set()
            for sub in K.walk_no_nested(init.node):
                if isinstance(sub, ast.Assign) and isinstance(
                        sub.value, ast.Call) and \
                        N.txt(sub.value.func) == 'int' and isinstance(
                            sub.targets[0], ast.Attribute) and \
                        K.name_is(sub.targets[0].value, 'self'):
                    numeric.add(sub.targets[0].attr)

            def lossless(sp):
                # (a) at most len-1 cuts, (b) exact unpacking into len
                # names when every field is a number (a free-text field
                # holding the separator would make the decoder raise and
                # the event be dropped), or (c) the remainder is re-joined
                # with the same separator
                if len(sp.args) == 2 and isinstance(
                        sp.args[1], ast.Constant) and \
                        sp.args[1].value == len(own) - 1:
                    return True
                for asg in K.walk_no_nested(fd.node):
                    if isinstance(asg, ast.Assign) and asg.value is sp and \
                            isinstance(asg.targets[0], ast.Tuple) and \
                            len(asg.targets[0].elts) == len(own) and \
                            set(own) <= numeric:
                        return True
                sep = N.txt(sp.args[0]) if sp.args else None
                return any(isinstance(j, ast.Call) and K.is_meth(j, 'join')
                           and N.txt(K.recv(j)) == sep
                           for j in K.walk_no_nested(fd.node))
            bounded = bool(splits) and all(lossless(sp) for sp in splits)
            ctx.ob('C15.3', fd, splits[0] if splits else None, bounded,
                   '%s.from_data cuts event_data into %d fields without '
                   'dropping a remainder (bounded split, exact unpacking or '
                   're-join)' % (cls.name, len(own)),
                   construct='%s bounded split' % cls.name)
            ssep = set(N.txt(s.args[0]).strip("'") for s in splits
                       if s.args)
            ctx.ob('C15.3', fd, splits[0] if splits else None,
                   len(set(seps)) == 1 and ssep == set(seps),
                   '%s: separator of the template %r is the one from_data '
                   'splits on %r' % (cls.name, sorted(set(seps)),
                                     sorted(ssep)),
                   construct='%s separator' % cls.name)


def _dispatch(ctx, base):
    """The decoder of the base class hands every field, under its own name,
    to the from_data of the class the type tag selects and returns what that
    decoder built."""
    fd = base.methods.get('from_data')
    ctx.require(fd is not None, '%s.from_data' % base.name, rule='C15.3')
    params = [p for p in fd.params() if p != 'cls']
    calls = [s for s in K.walk_no_nested(fd.node)
             if isinstance(s, ast.Call) and K.is_meth(s, 'from_data')]
    ctx.require(len(calls) == 1, 'the per-class decoder call of %s.from_data'
                % base.name, rule='C15.3', func=fd)
    call = calls[0]
    passed = dict((k.arg, K.rtxt(fd, k.value)) for k in call.keywords)
    for pos, arg in enumerate(call.args):
        if pos < len(params):
            passed[params[pos]] = K.rtxt(fd, arg)
    ctx.ob('C15.3', fd, call,
           all(passed.get(p) == p for p in params),
           'every decoded field goes to the per-class decoder under its own '
           'name (%s)' % sorted(passed.items()),
           construct='%s.from_data dispatch arguments' % base.name)
    # the receiver is the class the type tag maps to
    recv = K.recv(call)
    rdef = K.rtxt(fd, recv)
    sel = [s for s in K.walk_no_nested(fd.node)
           if isinstance(s, ast.Call) and
           K.is_meth(s, '_class_from_type')]
    ok = bool(sel) and all(
        len(s.args) == 1 and 'event_type' in params and
        K.rtxt(fd, s.args[0]) == 'event_type' for s in sel)
    holders = set()
    for sub in K.walk_no_nested(fd.node):
        if isinstance(sub, ast.Assign) and sub.value in sel and \
                isinstance(sub.targets[0], ast.Name):
            holders.add(sub.targets[0].id)
    ctx.ob('C15.3', fd, call,
           ok and (recv in sel or (isinstance(recv, ast.Name) and
                                   recv.id in holders) or
                   '_class_from_type(event_type)' in rdef),
           'the decoder used is the one of the class selected by the type '
           'tag (%s)' % rdef,
           construct='%s.from_data dispatch receiver' % base.name)
    # ... and its result is what the caller gets
    holders = set()
    for sub in K.walk_no_nested(fd.node):
        if isinstance(sub, ast.Assign) and sub.value is call and \
                isinstance(sub.targets[0], ast.Name):
            holders.add(sub.targets[0].id)
    rets = [s for s in K.walk_no_nested(fd.node)
            if isinstance(s, ast.Return)]
    good = [r for r in rets if r.value is call or (
        isinstance(r.value, ast.Name) and r.value.id in holders)]
    ctx.ob('C15.3', fd, good[0] if good else call, bool(good),
           'the event built by the per-class decoder is returned',
           construct='%s.from_data result' % base.name)
    # a holder of the result is overwritten only by None (the parse-failure
    # path)
    for sub in K.walk_no_nested(fd.node):
        if isinstance(sub, ast.Assign) and sub.value is not call and \
                isinstance(sub.targets[0], ast.Name) and \
                sub.targets[0].id in holders:
            ctx.ob('C15.3', fd, sub,
                   isinstance(sub.value, ast.Constant) and
                   sub.value.value is None,
                   'the decoded event is replaced only by None (%s)'
                   % N.txt(sub.value),
                   construct='%s.from_data result overwritten' % base.name)


def _template_fields(expr):
    """Fields (attribute names of self) and separator characters of an
    event_data expression."""
    if isinstance(expr, ast.Attribute) and K.name_is(expr.value, 'self'):
        return [expr.attr], ''
    if isinstance(expr, ast.BinOp) and isinstance(expr.op, ast.Mod) and \
            isinstance(expr.left, ast.Constant):
        seps = re.sub(r'%[sdr]', '', expr.left.value)
        elts = expr.right.elts if isinstance(expr.right, ast.Tuple) \
            else [expr.right]
        return [e.attr for e in elts if isinstance(e, ast.Attribute)], seps
    if isinstance(expr, ast.Call) and K.is_meth(expr, 'format') and \
            isinstance(K.recv(expr), ast.Constant):
        tmpl = K.recv(expr).value
        seps = ''.join(lit for lit, _f, _s, _c in
                       string.Formatter().parse(tmpl) if lit)
        fields = []
        for kw in expr.keywords:
            for leaf in ast.walk(kw.value):
                if isinstance(leaf, ast.Attribute) and \
                        K.name_is(leaf.value, 'self'):
                    fields.append(leaf.attr)
        return fields, seps
    if isinstance(expr, ast.IfExp) and \
            isinstance(expr.body, ast.Constant) and \
            isinstance(expr.orelse, ast.Constant):
        # a flag spelled as one of two literals
        return sorted(set(
            leaf.attr for leaf in ast.walk(expr.test)
            if isinstance(leaf, ast.Attribute) and
            K.name_is(leaf.value, 'self'))), ''
    return [], ''


# ---------------------------------------------------------------------------
# C15.4 / C15.5
# ---------------------------------------------------------------------------

def _payload(ctx):
    mod = ctx.index.module(ZKU)
    pay = mod.functions.get('_payload')
    get = mod.functions.get('get_with_metadata')
    ctx.require(pay is not None and get is not None,
                'zkutils._payload / get_with_metadata', rule='C15.4')
    src = ast.unparse(pay.node)
    ctx.ob('C15.4', pay, None,
           'json.dumps(%s' % pay.params()[0] in src and
           '.encode()' in src,
           'objects that are not strings/bytes are serialised with '
           'json.dumps', construct='_payload serialiser')
    # the decoding may live in a private helper of the module that the
    # reader calls: judged where json.loads is
    if not any(K.callee_text(c) == 'json.loads' for c in K.calls(get.node)):
        for call in K.calls(get.node):
            if isinstance(call.func, ast.Name):
                helper = mod.functions.get(call.func.id)
                if helper is not None and any(
                        K.callee_text(c) == 'json.loads'
                        for c in K.calls(helper.node)):
                    get = helper
                    break
    graph = ctx.cfg(get)
    loads = [n for n, c in K.nodes_calling(
        graph, lambda c: K.callee_text(c) == 'json.loads')]
    yl = [n for n, c in K.nodes_calling(
        graph, lambda c: K.callee_text(c) == 'yaml.load')]
    ok = bool(loads) and all(K.guarded_by(
        graph, y, lambda e: e.kind == 'exc' and e.src in loads)
        for y in yl)
    ctx.ob('C15.4', get, loads[0] if loads else None, ok,
           'the reader tries json.loads first (YAML only as a fallback of a '
           'failed JSON parse)', construct='reader decoder order')
    # an empty list or dictionary is a value: the writers decide "no payload
    # given" by identity with None, never by truthiness (a second write of []
    # would leave the old object in the node)
    nz = N.Normaliser()
    judged = 0
    for fname in ('_payload', 'ensure_exists', 'put', 'update', 'create'):
        func = mod.functions.get(fname)
        if func is None or 'data' not in func.params():
            continue
        fgraph = ctx.cfg(func)
        for test in [n for n in fgraph.nodes if n.kind == 'test' and
                     n.ast is not None]:
            expr = K.test_expr(func, test) or test.ast
            if 'data' not in N.mentions(expr):
                continue
            try:
                key = nz.atom(expr).key
            except Exception:          # pylint: disable=broad-except
                continue
            if key[0] == 'truth' and key[1] == 'data':
                judged += 1
                ctx.fail('C15.4', func, test,
                         '%s decides on the truth value of the payload: an '
                         'empty list or dictionary is treated as "no '
                         'payload"' % fname,
                         construct='%s payload presence test' % fname)
            elif key[0] == 'is' and 'data' in key[1:3] and \
                    'None' in key[1:3]:
                judged += 1
                ctx.ok('C15.4', func, test,
                       '%s tests the payload by identity with None' % fname,
                       construct='%s payload presence test' % fname)
    ctx.require(judged >= 2, 'payload presence tests in the zkutils writers '
                '(found %d)' % judged, rule='C15.4')


def _schema_tables(cls):
    out = {}
    for name, expr in cls.consts.items():
        if name.endswith('_schema') and isinstance(expr, ast.List) and \
                expr.elts and all(isinstance(e, ast.Tuple) and
                                  len(e.elts) == 3 for e in expr.elts):
            rows = []
            for elt in expr.elts:
                rows.append(tuple(N.txt(x) for x in elt.elts))
            out[name] = rows
    return out


def _pairs(func, reader):
    """(prefix, schema name) pairs used by a converter."""
    out = set()
    for sub in K.walk_no_nested(func.node):
        if not isinstance(sub, ast.Call):
            continue
        name = K.callee_text(sub)
        if reader and name == '_grouped_to_list_of_dict' and \
                len(sub.args) == 3 and isinstance(sub.args[1],
                                                  ast.Constant):
            out.add((sub.args[1].value.rstrip('-'),
                     N.txt(sub.args[2]).split('.')[-1]))
        if not reader and name == '_to_obj_list' and len(sub.args) == 4 \
                and isinstance(sub.args[2], ast.Constant):
            out.add((sub.args[2].value, N.txt(sub.args[3]).split('.')[-1]))
        if not reader and name == '_dict_2_entry' and len(sub.args) == 4 \
                and isinstance(sub.args[2], ast.Constant):
            out.add((sub.args[2].value, N.txt(sub.args[1]).split('.')[-1]))
    return out


def dn_order(ctx, rule='C15.5'):
    """The id of a cell allocation and its DN name the tenant path in
    opposite orders: encoder and decoder reverse alike and use the same
    separators (the reservation API compares the ids the listing decodes
    with the id it builds from the request - shared with C19.3)."""
    mod = ctx.index.module(LDAP)
    # the allocation id <-> DN mapping: tenants are nested most-significant
    # last in the DN, so both directions reverse, and both use ':' and '/'
    enc_dn = mod.functions.get('_allocation_dn_parts')
    dec_dn = mod.functions.get('_dn2cellalloc_id')
    ctx.require(enc_dn is not None and dec_dn is not None,
                '_allocation_dn_parts / _dn2cellalloc_id', rule=rule)

    def reversals(func):
        count = 0
        for sub in K.walk_no_nested(func.node):
            if isinstance(sub, ast.Call) and (
                    K.callee_text(sub) == 'reversed' or
                    K.is_meth(sub, 'reverse')):
                count += 1
            if isinstance(sub, ast.Subscript) and isinstance(
                    sub.slice, ast.Slice) and sub.slice.step is not None \
                    and N.txt(sub.slice.step) == '-1':
                count += 1
        return count

    def seps(func, meth):
        return sorted(set(
            N.txt(K.recv(sub) if meth == 'join' else sub.args[0]).strip(
                "'")
            for sub in K.walk_no_nested(func.node)
            if isinstance(sub, ast.Call) and K.is_meth(sub, meth) and
            (meth == 'join' or sub.args) and
            isinstance(K.recv(sub) if meth == 'join' else sub.args[0],
                       ast.Constant)))
    ctx.ob(rule, dec_dn, None,
           reversals(enc_dn) % 2 == reversals(dec_dn) % 2 and
           ':' in seps(enc_dn, 'split') and ':' in seps(dec_dn, 'join'),
           'tenant path order: the DN encoder reverses %d time(s), the '
           'decoder %d time(s); both use the \':\' separator' % (
               reversals(enc_dn), reversals(dec_dn)),
           construct='allocation id <-> DN tenant order')


def _ldap(ctx):
    index = ctx.index
    mod = index.module(LDAP)
    n_tables = 0
    for cls in sorted(mod.classes.values(), key=lambda c: c.name):
        tables = _schema_tables(cls)
        for tname, rows in sorted(tables.items()):
            n_tables += 1
            attrs = [r[0] for r in rows]
            fields = [r[1] for r in rows if r[1] != 'None']
            ctx.ob('C15.5', '%s:%s' % (mod.name, cls.name), None,
                   len(set(attrs)) == len(attrs) and
                   len(set(fields)) == len(fields),
                   '%s.%s: LDAP attribute names and object field names are '
                   'unique' % (cls.name, tname),
                   construct='%s.%s uniqueness' % (cls.name, tname),
                   file=mod.rel)
        te = cls.methods.get('to_entry')
        fe = cls.methods.get('from_entry')
        if te is None or fe is None:
            continue
        wp, rp = _pairs(te, False), _pairs(fe, True)
        if not wp and not rp:
            continue
        ctx.ob('C15.5', te, None, wp == rp,
               '%s: (option prefix, schema) pairs written %s = pairs read '
               '%s' % (cls.name, sorted(wp), sorted(rp)),
               construct='%s option-indexed schemas' % cls.name)
        # hand-written empty/non-empty branches
        for sub in K.walk_no_nested(te.node):
            if isinstance(sub, ast.If) and any(
                    isinstance(s, ast.Call) and
                    K.callee_text(s) == '_empty_list_entry'
                    for s in ast.walk(sub)):
                cleared = set()
                written = set()
                for s in ast.walk(sub):
                    if isinstance(s, ast.Call) and \
                            K.callee_text(s) == '_empty_list_entry':
                        for leaf in ast.walk(s.args[0]):
                            if isinstance(leaf, ast.Attribute) and \
                                    leaf.attr.endswith('_schema'):
                                cleared.add(leaf.attr)
                    if isinstance(s, ast.Call) and \
                            K.callee_text(s) == '_dict_2_entry' and \
                            len(s.args) >= 2:
                        written.add(N.txt(s.args[1]).split('.')[-1])
                ctx.ob('C15.5', te, sub, written <= cleared,
                       '%s: an empty list clears every schema the non-empty '
                       'branch writes (cleared %s, written %s)' % (
                           cls.name, sorted(cleared), sorted(written)),
                       construct='%s empty-list clearing' % cls.name)
    ctx.require(n_tables >= 10, 'LDAP schema tables (found %d)' % n_tables,
        rule='C15.5')
    dn_order(ctx)
    conv = {}
    for name in ('_entry_2_dict', '_dict_2_entry'):
        func = mod.functions.get(name)
        ctx.require(func is not None, name, rule='C15.5')
        # the tag tests, on whatever the tag local is called: one and the
        # same expression is tested with isinstance(.., list), is bool and
        # is dict
        tests = {'list': set(), 'bool': set(), 'dict': set()}
        for sub in K.walk_no_nested(func.node):
            if isinstance(sub, ast.Call) and \
                    K.callee_text(sub) == 'isinstance' and \
                    len(sub.args) == 2 and N.txt(sub.args[1]) == 'list':
                tests['list'].add(N.txt(sub.args[0]))
            if isinstance(sub, ast.Compare) and len(sub.ops) == 1 and \
                    isinstance(sub.ops[0], (ast.Is, ast.Eq, ast.IsNot,
                                            ast.NotEq)):
                sides = [N.txt(sub.left), N.txt(sub.comparators[0])]
                for kind in ('bool', 'dict'):
                    if kind in sides:
                        other = sides[1 - sides.index(kind)]
                        tests[kind].add(other)
        common = tests['list'] & tests['bool'] & tests['dict']
        conv[name] = {kind: bool(common) for kind in tests}
    # the update path: values are dropped from the comparison only when
    # they are None - False and 0 are values (a flag switched off must be
    # written, not treated as "attribute absent")
    diff = mod.functions.get('_diff_entries')
    ctx.require(diff is not None, '_ldap._diff_entries')
    filters = 0
    for sub in K.walk_no_nested(diff.node):
        if isinstance(sub, (ast.ListComp, ast.SetComp, ast.GeneratorExp)):
            for gen in sub.generators:
                for cond in gen.ifs:
                    filters += 1
                    ok = isinstance(cond, ast.Compare) and \
                        len(cond.ops) == 1 and \
                        isinstance(cond.ops[0], ast.IsNot) and \
                        N.txt(cond.comparators[0]) == 'None' and \
                        N.txt(cond.left) == N.txt(gen.target)
                    ctx.ob('C15.5', diff, cond, ok,
                           'the update diff filters a value only when it '
                           'is None (%s)' % N.txt(cond),
                           construct='diff value filter')
    ctx.require(filters >= 2, 'value filters of _diff_entries', rule='C15.5')
    ctx.ob('C15.5', mod.functions['_dict_2_entry'], None,
           conv['_entry_2_dict'] == conv['_dict_2_entry'] and
           all(conv['_dict_2_entry'].values()),
           'list/bool/dict type tags are handled by both converters: %s' %
           conv, construct='type tags of the converters')
    d2e = mod.functions['_dict_2_entry']
    e2d = mod.functions['_entry_2_dict']
    ctx.ob('C15.5', d2e, None,
           'json.dumps(' in ast.unparse(d2e.node) and
           'json.loads(' in ast.unparse(e2d.node),
           'dict-typed fields: json.dumps on write, json.loads on read',
           construct='dict field codec')
    opt = [s for s in K.walk_no_nested(d2e.node)
           if isinstance(s, ast.Constant) and isinstance(s.value, str) and
           '{attribute}' in s.value]
    ctx.ob('C15.5', d2e, opt[0] if opt else None,
           len(opt) == 1 and
           opt[0].value == '{attribute};{option_prefix}-{option_idx:x}',
           'option-indexed attribute names are <attr>;<prefix>-<hex idx>',
           construct='option attribute template')


def _update_fetches_all(ctx):
    """C15.5: an update writes the difference between the stored entry and
    the new one, and it can only delete what it fetched.  The attribute list
    handed to the read therefore names *every* key of the new entry, also
    the keys whose new value is empty - an emptied list is encoded as such a
    key, and if it is not fetched the old ``attr;tm-...-N`` values are never
    deleted: the object read back still has the elements that were
    removed."""
    mod = ctx.index.module(LDAP)
    admin = None
    update = None
    for cls in mod.classes.values():
        for func in cls.live_methods():
            if any(K.callee_text(c) == '_diff_entries'
                   for c in K.calls(func.node)):
                admin, update = cls, func
    ctx.require(update is not None, 'the method that diffs the stored entry '
                'against the new one', rule='C15.5')
    new_entry = None
    for call in K.calls(update.node):
        if K.callee_text(call) == '_diff_entries' and len(call.args) == 2:
            new_entry = N.txt(call.args[1])
            old = K.rexpr(update, call.args[0])
    ctx.require(new_entry is not None, 'arguments of _diff_entries',
                rule='C15.5', func=update)
    reads = [c for c in K.calls(update.node)
             if K.is_meth(c, 'get', 'search', 'paged_search') and
             K.recv_text(c) == 'self']
    ctx.require(reads, 'read of the stored entry in %s' % update.qualname,
                rule='C15.5', func=update)
    for read in reads:
        attrs = [a for a in list(read.args) + [k.value for k in
                                                read.keywords]
                 if new_entry in N.mentions(a)]
        if not attrs:
            # everything is fetched (no attribute list derived from the new
            # entry): nothing to decide
            ctx.ok('C15.5', update, read, 'the stored entry is read without '
                   'an attribute list derived from the new entry',
                   construct='update fetches every attribute it may delete')
            continue
        expr = K.rexpr(update, attrs[0])
        where = update
        param = new_entry
        if isinstance(expr, ast.Call) and isinstance(expr.func, ast.Name) \
                and expr.func.id in mod.functions and len(expr.args) == 1:
            where = mod.functions[expr.func.id]
            param = where.params()[0]
            body = where.node
        else:
            body = expr
        filtered = []
        walks = 0
        for sub in ast.walk(body):
            if isinstance(sub, (ast.ListComp, ast.SetComp, ast.GeneratorExp,
                                ast.DictComp)):
                for gen in sub.generators:
                    if param in N.mentions(gen.iter):
                        walks += 1
                        filtered.extend(gen.ifs)
            if isinstance(sub, ast.For) and param in N.mentions(sub.iter):
                walks += 1
                for inner in ast.walk(sub):
                    if isinstance(inner, (ast.If, ast.IfExp)):
                        filtered.append(inner.test)
                    if isinstance(inner, (ast.Continue, ast.Break)):
                        filtered.append(inner)
            if isinstance(sub, ast.Call) and N.txt(sub.func) in (
                    'filter', 'six.moves.filter') and sub.args and \
                    param in N.mentions(sub):
                filtered.append(sub.args[0])
        direct = isinstance(body, ast.expr) and N.txt(body) in (
            param, 'list(%s)' % param, 'sorted(%s)' % param,
            '%s.keys()' % param, 'list(%s.keys())' % param)
        ctx.require(walks or direct, 'walk over the keys of the new entry '
                    'in %s' % where.qualname, rule='C15.5', func=where)
        ctx.ob('C15.5', where, filtered[0] if filtered else None,
               not filtered,
               'the attribute list of the update read names every key of '
               'the new entry' if not filtered else
               'the attribute list of the update read leaves keys of the '
               'new entry out (%s): an attribute the new entry empties is '
               'not fetched, so its stored values are never deleted' %
               N.txt(filtered[0])[:60],
               construct='update fetches every attribute it may delete')


def _enclosing_tests(root, stmt):
    """Texts of the ``if`` tests (with polarity) that enclose ``stmt``
    lexically inside ``root``."""
    out = []

    def walk(node, acc):
        if node is stmt:
            out.extend(acc)
            return True
        for field, value in ast.iter_fields(node):
            items = value if isinstance(value, list) else [value]
            for item in items:
                if not isinstance(item, ast.AST):
                    continue
                nxt = acc
                if isinstance(node, ast.If) and field == 'body':
                    nxt = acc + [N.txt(node.test)]
                elif isinstance(node, ast.If) and field == 'orelse':
                    nxt = acc + ['not (%s)' % N.txt(node.test)]
                if walk(item, nxt):
                    return True
        return False
    walk(root, [])
    return out


def _emptied_list_reaches_update(ctx):
    """C15.5: every attribute the written object names reaches the update
    diff.  The converter leaves an attribute out of the entry when its value
    is an empty list (the tests pin that shape of a *created* entry), and the
    update diff deletes only what the new entry names: unless the update
    routine completes the entry for the list attributes given as ``[]``, an
    object updated to an empty list reads back with the old elements."""
    mod = ctx.index.module(LDAP)
    conv = mod.functions.get('_dict_2_entry')
    ctx.require(conv is not None, '_ldap._dict_2_entry', rule='C15.5')
    graph = ctx.cfg(conv)
    params = conv.params()
    loops = [n for n in graph.nodes if n.kind == 'for' and
             N.txt(n.ast.iter) == params[1] and
             not K.enclosing_for(graph, n)]
    ctx.require(loops, 'walk over the schema in _dict_2_entry',
                rule='C15.5', func=conv)
    loop = loops[0]
    body = K.loop_body_nodes(loop)
    stores = [n for n in body if n.kind == 'stmt' and isinstance(
        n.ast, ast.Assign) and any(
            isinstance(t, ast.Subscript) and isinstance(t.value, ast.Name)
            for t in n.ast.targets)]
    # the outcome "the object names this field"
    present = []
    for test in [n for n in body if n.kind == 'test' and
                 n.ast is not None]:
        cond = test.ast
        if isinstance(cond, ast.Compare) and len(cond.ops) == 1 and \
                N.txt(cond.comparators[0]) == params[0]:
            if isinstance(cond.ops[0], ast.NotIn):
                present.extend(e.dst for e in test.succ if e.kind == 'false')
            elif isinstance(cond.ops[0], ast.In):
                present.extend(e.dst for e in test.succ if e.kind == 'true')
    ctx.require(present, "the 'field named by the object' outcome in "
                '_dict_2_entry', rule='C15.5', func=conv)
    silent = None
    for start in present:
        if start in stores:
            continue
        silent = silent or K.find_path_cp(
            graph, start, [loop], cut_node=lambda n: n in stores)
    if silent is None:
        ctx.ok('C15.5', conv, None, 'the converter emits a key for every '
               'field the object names',
               construct='emptied list attribute reaches the update diff')
        return
    # the converter leaves something out: the update routine completes it
    upd = None
    for cls in mod.classes.values():
        for func in cls.live_methods():
            if any(K.is_meth(c, 'update') and K.recv_text(c) == 'self.admin'
                   for c in K.calls(func.node)) and any(
                       K.is_meth(c, 'to_entry') for c in K.calls(func.node)):
                upd = func
    ctx.require(upd is not None, 'the object-level update routine',
                rule='C15.5')
    ugraph = ctx.cfg(upd)
    sent = None
    for call in K.calls(upd.node):
        if K.is_meth(call, 'update') and K.recv_text(call) == 'self.admin' \
                and len(call.args) >= 2:
            sent = N.txt(call.args[1])
            site = [n for n in ugraph.nodes if call in C.node_calls(n)]
    completes = []
    for lp in [n for n in ugraph.nodes if n.kind == 'for' and
               'schema' in N.txt(n.ast.iter)]:
        names = [e.id for e in ast.walk(lp.ast.target)
                 if isinstance(e, ast.Name)]
        if len(names) < 3:
            continue
        fld, objf, ftype = names[0], names[1], names[2]
        for node in K.loop_body_nodes(lp):
            hit = False
            if node.kind == 'stmt' and isinstance(node.ast, ast.Assign) and \
                    any(N.txt(t) == '%s[%s]' % (sent, fld)
                        for t in node.ast.targets) and \
                    N.txt(node.ast.value) == '[]':
                hit = True
            for c in C.node_calls(node):
                if K.is_meth(c, 'setdefault') and K.recv_text(c) == sent \
                        and len(c.args) == 2 and \
                        N.txt(c.args[0]) == fld and \
                        N.txt(c.args[1]) == '[]':
                    hit = True
            if not hit:
                continue
            # under: the field is list-typed and the object gives [] -
            # decided on the CFG (nested ifs, guard clauses with continue
            # and named booleans alike)
            nzu = N.Normaliser(env=K.func_env(upd))

            def is_list(atom, ftype=ftype):
                return atom.key[0] == 'truth' and atom.key[2] and \
                    atom.key[1] == 'isinstance(%s, list)' % ftype

            def is_empty(atom, objf=objf):
                return atom.key[0] == 'cmp' and atom.key[1] == '==' and \
                    objf in str(atom.key[2]) and '[]' in str(atom.key[2])
            if K.guarded_by_atoms(ctx, upd, ugraph, node, is_list, nzu,
                                  follow_exc=False) and \
                    K.guarded_by_atoms(ctx, upd, ugraph, node, is_empty,
                                       nzu, follow_exc=False):
                completes.append(lp)
    ok = bool(completes) and sent is not None and all(K.guarded_by(
        ugraph, s, lambda e: e.src in completes and e.kind == 'done')
        for s in site)
    ctx.ob('C15.5', upd, None, ok,
           'the converter leaves an attribute given as an empty list out of '
           'the entry; the update routine names it again (empty) before the '
           'diff' if ok else
           'an attribute given as an empty list is left out of the entry '
           'handed to the update (%s in _dict_2_entry stores nothing) and '
           'the update routine does not name it: its stored values are '
           'neither fetched nor deleted, the object reads back with the '
           'old elements' % ' / '.join(K.describe(silent))[:200],
           construct='emptied list attribute reaches the update diff')


def _option_reader(ctx):
    """C15.5: the reader takes every option group the writer can emit: the
    writer numbers the groups in hexadecimal (``<prefix>-<idx:x>``), the
    reader selects the groups of a kind by the prefix alone.  A second
    condition on the rest of the key (digits only, a fixed width) drops the
    groups whose index it does not spell - the eleventh sub-object of an
    entry has index ``a``."""
    mod = ctx.index.module(LDAP)
    func = mod.functions.get('_grouped_to_list_of_dict')
    ctx.require(func is not None, '_grouped_to_list_of_dict', rule='C15.5')
    params = func.params()
    grouped, prefix = params[0], params[1]
    conds = []
    seen = 0
    for sub in K.walk_no_nested(func.node):
        if isinstance(sub, (ast.DictComp, ast.ListComp, ast.SetComp,
                            ast.GeneratorExp)):
            gen = sub.generators[0]
            if grouped in N.mentions(gen.iter):
                seen += 1
                for cond in gen.ifs:
                    parts = cond.values if isinstance(
                        cond, ast.BoolOp) and isinstance(
                            cond.op, ast.And) else [cond]
                    conds.extend(parts)
        if isinstance(sub, ast.For) and grouped in N.mentions(sub.iter):
            seen += 1
            keys = N.for_target_names(sub) if hasattr(
                N, 'for_target_names') else set(
                    n.id for n in ast.walk(sub.target)
                    if isinstance(n, ast.Name))
            for inner in ast.walk(sub):
                if isinstance(inner, (ast.If, ast.IfExp)) and \
                        keys & N.mentions(inner.test):
                    parts = inner.test.values if isinstance(
                        inner.test, ast.BoolOp) else [inner.test]
                    conds.extend(parts)
    ctx.require(seen >= 1, 'selection over the grouped options',
                rule='C15.5', func=func)

    def by_prefix(cond):
        if isinstance(cond, ast.UnaryOp) and isinstance(cond.op, ast.Not):
            cond = cond.operand
        return isinstance(cond, ast.Call) and K.is_meth(
            cond, 'startswith') and len(cond.args) == 1 and \
            N.txt(cond.args[0]) == prefix
    extra = [N.txt(c) for c in conds if not by_prefix(c)]
    ctx.ob('C15.5', func, None,
           any(by_prefix(c) for c in conds) and not extra,
           'option groups are selected by their prefix alone (the index is '
           'written in hexadecimal)%s' % (
               '' if not extra else ' - also required: %s' % extra),
           construct='option groups selected by prefix')


def _list_values(ctx):
    """C15.5: a list is written element for element: the values stored for a
    list-typed field are one per element of the object's list that is not
    None, in order (a writer that drops repeated values makes ['-v', '-v']
    and ['-v'] the same entry)."""
    mod = ctx.index.module(LDAP)
    func = mod.functions.get('_dict_2_entry')
    ctx.require(func is not None, '_dict_2_entry', rule='C15.5')
    graph = ctx.cfg(func)
    nz = N.Normaliser()
    facts = N.must_facts(graph, nz)
    judged = 0
    for node in graph.nodes:
        if not (node.kind == 'stmt' and isinstance(node.ast, ast.Assign) and
                isinstance(node.ast.targets[0], ast.Subscript)):
            continue
        listy = any(f.key[0] == 'truth' and f.key[2] and
                    'isinstance(' in f.key[1] and ', list)' in f.key[1]
                    for f in facts[node])
        if not listy:
            continue
        val = K.rexpr(func, node.ast.value)
        if isinstance(val, ast.List) and not val.elts:
            continue
        judged += 1
        ok = isinstance(val, ast.ListComp) and len(val.generators) == 1 and \
            all(isinstance(c, ast.Compare) and len(c.ops) == 1 and
                isinstance(c.ops[0], ast.IsNot) and
                N.txt(c.comparators[0]) == 'None'
                for c in val.generators[0].ifs)
        ctx.ob('C15.5', func, node, ok,
               'a list-typed field is written with one value per element '
               '(%s)' % N.txt(val)[:80],
               construct='list written element for element')
    ctx.require(judged >= 1, 'store of a list-typed field in _dict_2_entry',
                rule='C15.5', func=func)


def _update_markers(ctx):
    """C15.5: an update hands the directory the entry exactly as to_entry
    built it - the attributes to_entry emits with an empty value are what
    makes the differ delete the stored values (a list that became empty);
    empty values are stripped only for a create, where nothing is stored
    yet."""
    mod = ctx.index.module(LDAP)
    cls = mod.classes.get('LdapObject')
    upd = cls.methods.get('update') if cls else None
    ctx.require(upd is not None, 'LdapObject.update', rule='C15.5')
    sends = [c for c in K.calls(upd.node)
             if K.is_meth(c, 'update') and
             (K.recv_text(c) or '').endswith('admin') and len(c.args) == 2]
    ctx.require(sends, 'the admin.update call of LdapObject.update',
                rule='C15.5', func=upd)
    for call in sends:
        sent = K.rexpr(upd, call.args[1])
        if isinstance(sent, ast.Name):
            # the entry is held in a local that is completed in place (keys
            # added with an empty value): still the entry to_entry built as
            # long as the local is bound once and nothing is taken out of it
            binds = [sub for sub in K.walk_no_nested(upd.node)
                     if isinstance(sub, ast.Assign) and any(
                         N.txt(t) == sent.id for t in sub.targets)]
            takes = [sub for sub in K.walk_no_nested(upd.node) if (
                isinstance(sub, ast.Delete) and any(
                    sent.id in N.mentions(t) for t in sub.targets)) or (
                        isinstance(sub, ast.Call) and K.is_meth(
                            sub, 'pop', 'popitem', 'clear') and
                        K.recv_text(sub) == sent.id)]
            if len(binds) == 1 and not takes:
                sent = binds[0].value
        ok = isinstance(sent, ast.Call) and K.is_meth(sent, 'to_entry') and \
            K.recv_text(sent) == 'self'
        ctx.ob('C15.5', upd, call, ok,
               'update sends the entry as to_entry built it, empty-valued '
               'deletion markers included (%s)' % N.txt(sent),
               construct='update keeps the deletion markers')


_CODECS = {
    'treadmill.utils': ('to_base_n', 'from_base_n'),
    'treadmill.appcfg': ('gen_uniqueid', '_fmt_unique_name', 'app_name',
                         'app_unique_id', 'app_unique_name'),
    'treadmill.zkutils': ('_payload',),
    'treadmill.admin._ldap': ('_dict_2_entry', '_entry_2_dict',
                              '_to_obj_list', '_grouped_to_list_of_dict'),
}


def _codecs_keep_nothing(ctx):
    """C15.2: what a codec returns depends on its arguments alone: none of
    the encode / decode routines stores into a module-level name or
    container (a digit table remembered per base answers the next call,
    made with another alphabet, from the first alphabet)."""
    judged = 0
    for modname, names in sorted(_CODECS.items()):
        try:
            mod = ctx.index.module(modname)
        except Exception:       # pylint: disable=broad-except
            continue
        for name in names:
            func = mod.functions.get(name)
            if func is None:
                continue
            judged += 1
            kept = K.kept_between_calls(mod, func)
            ctx.ob('C15.2', func, kept[0] if kept else None, not kept,
                   '%s keeps nothing between calls (its result depends on '
                   'its arguments alone)' % name,
                   construct='%s keeps nothing between calls' % name)
    ctx.require(judged >= 6, 'codec routines (found %d)' % judged,
                rule='C15.2')


def _every_list_element(ctx):
    """C15.5: every element of an object list is written: the loop that
    encodes the elements ranges over the list it was given (sorted, at
    most) - not over a mapping or set built from it, which keeps one element
    per key (an endpoint declared for tcp and for udp under one name)."""
    mod = ctx.index.module(LDAP)
    func = mod.functions.get('_to_obj_list')
    ctx.require(func is not None, '_to_obj_list', rule='C15.5')
    param = func.params()[0]
    loops = [sub for sub in K.walk_no_nested(func.raw)
             if isinstance(sub, ast.For) and any(
                 K.callee_text(c) == '_dict_2_entry'
                 for st in sub.body for c in K.calls(st))]
    ctx.require(loops, 'encoding loop of _to_obj_list', rule='C15.5',
                func=func)
    defs = {}
    for sub in K.walk_no_nested(func.raw):
        if isinstance(sub, ast.Assign) and len(sub.targets) == 1 and \
                isinstance(sub.targets[0], ast.Name):
            defs.setdefault(sub.targets[0].id, []).append(sub.value)

    def plain(expr, depth=0):
        """expr is the given list, possibly sorted / enumerated / copied"""
        if depth > 5:
            return False
        if isinstance(expr, ast.Name):
            if expr.id == param:
                return True
            vals = defs.get(expr.id, [])
            return len(vals) == 1 and plain(vals[0], depth + 1)
        if isinstance(expr, ast.Call) and K.callee_text(expr) in (
                'sorted', 'enumerate', 'list', 'tuple', 'reversed') and \
                expr.args:
            return plain(expr.args[0], depth + 1)
        return False
    for loop in loops:
        ctx.ob('C15.5', func, loop, plain(loop.iter),
               'the elements encoded are those of the list given (sorted at '
               'most): %s' % N.txt(loop.iter)[:60],
               construct='every list element encoded')


def _wildcard_by_value(ctx):
    """C15.1: a rule whose address is the wildcard is written with the
    wildcard marker - whatever object spells the address.  The rule classes
    compare and hash by value, so the writer recognises the wildcard by
    value too: a test of an address against firewall.ANY_IP is an equality,
    never an identity (an equal string read from a manifest or built at run
    time would be written verbatim - ``0.0.0.0/0`` with its slash - into a
    name the reader cannot decode, while the identical object gives ``*``:
    one rule, two encodings, one of them undecodable)."""
    mod = ctx.index.module(RULE)
    mgr = ctx.index.get_class(RULE, 'RuleMgr')
    fmt = mgr.methods.get('_filenameify')
    ctx.require(fmt is not None, 'RuleMgr._filenameify', rule='C15.1')
    tests = []
    closure = [fmt] + [f for f in mod.live_functions()
                       if f is not fmt and any(
                           K.callee_text(c).split('.')[-1] == f.name
                           for c in K.calls(fmt.raw))]
    for func in closure:
        for sub in K.walk_no_nested(func.raw):
            if isinstance(sub, ast.Compare) and len(sub.ops) == 1 and any(
                    N.txt(side).endswith('ANY_IP')
                    for side in [sub.left] + sub.comparators):
                tests.append((func, sub))
    ctx.require(tests, 'tests of an address against ANY_IP in the writer',
                rule='C15.1', func=fmt)
    for func, sub in tests:
        ok = isinstance(sub.ops[0], (ast.Eq, ast.NotEq))
        ctx.ob('C15.1', func, sub, ok,
               'the wildcard address is recognised by value (==), as the '
               'rule classes compare' if ok else
               'the wildcard address is recognised by identity (%s): an '
               'equal address that is another object is written verbatim '
               'into a name the reader cannot decode' % N.txt(sub),
               construct='wildcard address by value: %s' % N.txt(sub)[:40])


def _none_slots(ctx, modname, base_name):
    """C15.3: a slot the reader can return as None is one the writer can
    write as None: where from_data sets a slot to the constant None on a
    branch decided by the shape of the data (no separator), the writer
    (event_data) tests that slot against None and produces that shape.  A
    writer that formats the slot unconditionally turns None into the text
    'None', which the reader hands back as a string."""
    mod = ctx.index.module(modname)
    seen = 0
    for cls in sorted(mod.classes.values(), key=lambda c: c.name):
        rd = cls.methods.get('from_data')
        wr = cls.methods.get('event_data')
        if rd is None or wr is None:
            continue
        params = set(rd.params())
        slots = set()
        for sub in K.walk_no_nested(rd.raw):
            if isinstance(sub, ast.If):
                for branch in (sub.body, sub.orelse):
                    for st in branch:
                        if isinstance(st, ast.Assign) and isinstance(
                                st.value, ast.Constant) and \
                                st.value.value is None:
                            for tgt in st.targets:
                                if isinstance(tgt, ast.Name) and \
                                        tgt.id not in params:
                                    slots.add(tgt.id)
        # the slot a local stands for is the constructor keyword it is
        # handed to (the local may be called anything)
        kwmap = {}
        for sub in K.walk_no_nested(rd.raw):
            if isinstance(sub, ast.Call):
                for kw in sub.keywords:
                    if kw.arg and isinstance(kw.value, ast.Name):
                        kwmap.setdefault(kw.value.id, kw.arg)
        slots = set(kwmap.get(name, name) for name in slots)
        for slot in sorted(slots):
            seen += 1
            tested = any(
                isinstance(sub, ast.Compare) and len(sub.ops) == 1 and
                isinstance(sub.ops[0], (ast.Is, ast.IsNot)) and
                N.txt(sub.left) == 'self.%s' % slot and
                isinstance(sub.comparators[0], ast.Constant) and
                sub.comparators[0].value is None
                for sub in K.walk_no_nested(wr.raw))
            ctx.ob('C15.3', wr, None, tested,
                   '%s: the reader can return %s=None (by the shape of the '
                   'data), and the writer writes a None %s in that shape '
                   '(it tests self.%s against None)' % (
                       cls.name, slot, slot, slot) if tested else
                   '%s: the reader returns %s=None for data without the '
                   "separator, but the writer formats self.%s "
                   "unconditionally: None is written as the text 'None' and "
                   'read back as a string' % (cls.name, slot, slot),
                   construct='%s None slot %s' % (cls.name, slot))
    return seen


def check(ctx):
    _codecs_keep_nothing(ctx)
    _every_list_element(ctx)
    _wildcard_by_value(ctx)
    _none_slots(ctx, EV_APP, 'AppTraceEvent')
    _update_markers(ctx)
    _list_values(ctx)
    _option_reader(ctx)
    _update_fetches_all(ctx)
    _emptied_list_reaches_update(ctx)
    _rulefile(ctx)
    _unique(ctx)
    _events(ctx, EV_APP, 'AppTraceEvent', 'AppTraceEventTypes')
    _events(ctx, EV_SRV, 'ServerTraceEvent', 'ServerTraceEventTypes')
    _payload(ctx)
    _ldap(ctx)


_R = 'lib/python/treadmill/rulefile.py'
_A = 'lib/python/treadmill/appcfg/__init__.py'
_U = 'lib/python/treadmill/utils.py'
_Z = 'lib/python/treadmill/zkutils.py'
_LD = 'lib/python/treadmill/admin/_ldap.py'
_EA = 'lib/python/treadmill/trace/app/events.py'
_ES = 'lib/python/treadmill/trace/server/events.py'

MUTANTS = [
    ('revert-F26-emptied-list-not-named-on-update', [(_LD, """        for ldap_field, obj_field, field_type in self.schema():
            if isinstance(field_type, list) and attrs.get(obj_field) == []:
                new_entry.setdefault(ldap_field, [])
""", "")], 'C15.5'),
    ('emptied-list-named-for-any-falsy-value-but-lists', [(_LD, """            if isinstance(field_type, list) and attrs.get(obj_field) == []:
                new_entry.setdefault(ldap_field, [])
""", """            if field_type is bool and attrs.get(obj_field) == []:
                new_entry.setdefault(ldap_field, [])
""")], 'C15.5'),
    ('update-read-skips-emptied-attributes', [(_LD, """        k.split(';', 1)[0]
        for k in entry.keys()
    })
""", """        k.split(';', 1)[0]
        for k in entry.keys()
        if entry[k]
    })
""")], 'C15.5'),
    ('revert-F20-wildcard-by-identity', [(_R, """                    _ANY if rule.src_ip == firewall.ANY_IP else rule.src_ip
""", """                    _ANY if rule.src_ip is firewall.ANY_IP else rule.src_ip
""")], 'C15.1'),
    ('revert-F21-scheduled-none-as-text', [(_EA, """        if self.why is None:
            return '%s' % self.where
        return '%s:%s' % (self.where, self.why)
""", """        return '%s:%s' % (self.where, self.why)
""")], 'C15.3'),
    ('dnat-parser-drops-dst-port', [(_R, """                    dst_port=(
                        data['dst_port'] if data['dst_port'] != _ANY else None
                    ),
                    new_ip=data['new_ip'],
                    new_port=data['new_port']
                )
            )

        match = _SNAT_FILE_RE.match(rulespec)""", """                    dst_port=None,
                    new_ip=data['new_ip'],
                    new_port=data['new_port']
                )
            )

        match = _SNAT_FILE_RE.match(rulespec)""")], 'C15.1'),
    ('snat-writer-no-wildcard-on-src-port', [(_R, """                src_port=(rule.src_port or _ANY),
                dst_ip=(
                    '*' if rule.dst_ip == firewall.ANY_IP else rule.dst_ip
                ),""", """                src_port=rule.src_port,
                dst_ip=(
                    '*' if rule.dst_ip == firewall.ANY_IP else rule.dst_ip
                ),""")], 'C15.1'),
    ('chain-may-contain-colon', [(_R, """_PASSTHROUGH_FILE_RE = re.compile((
    r'^' +
    _PASSTHROUGH_FILE_PATTERN.format(
        # chain
        chain=r'(?P<chain>(?:\\w{2,32}))',""", """_PASSTHROUGH_FILE_RE = re.compile((
    r'^' +
    _PASSTHROUGH_FILE_PATTERN.format(
        # chain
        chain=r'(?P<chain>(?:[\\w:]{2,32}))',""")], 'C15.1'),
    ('snat-tag-equals-dnat', [(_R, """_SNAT_FILE_PATTERN = (
    '{chain}:snat:'
""", """_SNAT_FILE_PATTERN = (
    '{chain}:dnat:'
""")], 'C15.1'),
    ('template-field-renamed-one-side', [(_R, """_PASSTHROUGH_FILE_PATTERN = '{chain}:passthrough:{src_ip}-{dst_ip}'
""", """_PASSTHROUGH_FILE_PATTERN = '{chain}:passthrough:{src_ip}-{dest_ip}'
""")], 'C15.1'),
    ('uniqueid-not-padded', [(_A, """    return '{identifier:>013s}'.format(identifier=ret)
""", """    return ret
""")], 'C15.2'),
    ('uniqueid-width-12', [(_A, """    return '{identifier:>013s}'.format(identifier=ret)
""", """    return '{identifier:>012s}'.format(identifier=ret)
""")], 'C15.2'),
    ('uniqueid-80-bits', [(_A, """    seed &= (2 ** 77) - 1
""", """    seed &= (2 ** 80) - 1
""")], 'C15.2'),
    ('uniqueid-alphabet-with-dash', [(_A, """    numerals = string.digits + string.ascii_lowercase + string.ascii_uppercase
""", """    numerals = string.digits + string.ascii_lowercase + '-' + string.ascii_uppercase
""")], 'C15.2'),
    ('app-name-splits-from-left', [(_A, """    appname = uniquename.rsplit('-', 1)[0]
    parts = appname.rsplit('-', 1)
""", """    appname = uniquename.rsplit('-', 1)[0]
    parts = appname.split('-', 1)
""")], 'C15.2'),
    ('from-base-n-other-default', [(_U, """    if alphabet is None:
        alphabet = _DEFAULT_BASE_ALPHABET
    if base is None:
        base = len(alphabet)
    if not 0 <= base <= len(alphabet):
        raise ValueError('Invalid base length: %s' % base)

    strlen = len(base_num)""", """    if alphabet is None:
        alphabet = string.digits + string.ascii_lowercase
    if base is None:
        base = len(alphabet)
    if not 0 <= base <= len(alphabet):
        raise ValueError('Invalid base length: %s' % base)

    strlen = len(base_num)""")], 'C15.2'),
    ('event-type-missing-from-enum', [(_EA, """    pending_delete = PendingDeleteTraceEvent
""", "")], 'C15.3'),
    ('scheduled-from-data-drops-why', [(_EA, """            payload=payload,
            where=where,
            why=why,
        )
""", """            payload=payload,
            where=where,
            why=None,
        )
""")], 'C15.3'),
    ('finished-separator-mismatch', [(_EA, """        return '{rc}.{signal}'.format(
""", """        return '{rc}:{signal}'.format(
""")], 'C15.3'),
    ('service-running-template-drops-field', [(_EA, """        return '{uniqueid}.{service}'.format(
            uniqueid=self.uniqueid,
            service=self.service
        )
""", """        return '{uniqueid}'.format(
            uniqueid=self.uniqueid,
        )
""")], 'C15.3'),
    ('server-state-ctor-extra-param', [(_ES, """    def __init__(self, state,
""", """    def __init__(self, state, reason=None,
""")], 'C15.3'),
    ('payload-repr', [(_Z, """            payload = json.dumps(data, sort_keys=True).encode()
""", """            payload = repr(data).encode()
""")], 'C15.4'),
    ('reader-yaml-first', [(_Z, """        try:
            result = json.loads(data.decode())
        except ValueError:
            try:
                result = yaml.load(data)
            except yaml.YAMLError:
                if strict:
                    raise
                result = data
""", """        try:
            result = yaml.load(data)
        except yaml.YAMLError:
            try:
                result = json.loads(data.decode())
            except ValueError:
                if strict:
                    raise
                result = data
""")], 'C15.4'),
    ('svc-restart-not-cleared', [(_LD, """            entry.update(
                _empty_list_entry(
                    Application._svc_schema +
                    Application._svc_restart_schema
                )
            )
""", """            entry.update(_empty_list_entry(Application._svc_schema))
""")], 'C15.5'),
    ('endpoint-prefix-mismatch', [(_LD, """            grouped, 'tm-endpoint-', Application._endpoint_schema)
""", """            grouped, 'tm-endpoints-', Application._endpoint_schema)
""")], 'C15.5'),
    ('schema-duplicate-field', [(_LD, """        ('service-useshell', 'useshell', bool),
        ('service-root', 'root', bool),
""", """        ('service-useshell', 'useshell', bool),
        ('service-root', 'useshell', bool),
""")], 'C15.5'),
    ('option-index-decimal', [(_LD, """            ldap_field = '{attribute};{option_prefix}-{option_idx:x}'.format(
""", """            ldap_field = '{attribute};{option_prefix}-{option_idx:d}'.format(
""")], 'C15.5'),
]

REFACTORS = [
    ('uniqueid-format-positional-name', [(_A, """    return '{identifier:>013s}'.format(identifier=ret)
""", """    return '{uid:>013s}'.format(uid=ret)
""")]),
    ('event-data-percent-style', [(_EA, """        return '{rc}.{signal}'.format(
            rc=self.rc,
            signal=self.signal
        )
""", """        return '%s.%s' % (self.rc, self.signal)
""")]),
    ('regex-chain-shorter', [(_R, """_PASSTHROUGH_FILE_RE = re.compile((
    r'^' +
    _PASSTHROUGH_FILE_PATTERN.format(
        # chain
        chain=r'(?P<chain>(?:\\w{2,32}))',""", """_PASSTHROUGH_FILE_RE = re.compile((
    r'^' +
    _PASSTHROUGH_FILE_PATTERN.format(
        # chain
        chain=r'(?P<chain>(?:\\w{2,30}))',""")]),
]

# sweep-driven clauses (DESIGN 9.7)
MUTANTS += [
    ('base-n-zero-digit', [(_U, """    if num == 0:
        return alphabet[0]
""", """    if num == 0:
        return alphabet[1]
""")], 'C15.2'),
    ('dispatcher-drops-event', [(_EA, """            event = None

        return event

    def to_data(self):""", """            event = None

        return None

    def to_data(self):""")], 'C15.3'),
    ('dispatcher-swaps-fields', [(_EA, """                event_data=event_data,
                payload=payload
            )
        except Exception:""", """                event_data=event_type,
                payload=payload
            )
        except Exception:""")], 'C15.3'),
    ('free-text-split-unbounded', [(_EA, """            where, why = event_data.split(':', 1)
""", """            where, why = event_data.split(':')
""")], 'C15.3'),
]
