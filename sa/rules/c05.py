"""C05 - identities unique, in range, held only by placed instances.

Decided clauses (DESIGN.md section 3, C05): .1 acquire/hold pairing on every
exit of the placement loop (typestate), .2 removal pairing, .3 range
maintenance of IdentityGroup and the revocation pass, .4 forced identities
leave the pool, .5 publication reads the identity from the model.
"""

import ast

from .. import cfg as C
from .. import norm as N
from . import common as K
from .sched_model import PlacementLoop

EXPLANATION = """
Static typestate / guard analysis of the identity mechanism.
C05.1: product of the CFG of the placement loop (the Cell method that calls
acquire_identity) with the automaton (placed in {yes,no,?}) x (identity in
{clean,maybe-held}); entry state (?, maybe-held); obligation at every end of
an iteration: placed == yes or identity == clean; a failing exit is reported
with its branch decisions.  C05.2: every <server>.remove(<v>.name) in Cell is
followed on all paths by <v>.release_identity(), preceded by
<v>.identity = None, or the victim is recorded in a deferred-restore map that
guards a later restore.  C05.3: IdentityGroup.release adds only under
ident < count; adjust removes exactly range(new, old) when shrinking, adds
range(old, new) when growing, and updates count after both; the revocation
pass clears an identity only under identity >= count and un-places.  C05.4:
force_set_identity removes the forced identity from the pool.  C05.5: the
placement record takes 'identity' from the model's instance.
Added by the seeding rounds - C05.1 no placement is reachable after a release
in the same iteration; C05.2 an instance leaves Cell.apps only after
release_identity; C05.3 the revocation pass skips an instance only under
identity None / no group / identity < count and compares with the group's
count; C05.6 an identity group is dropped from the registry only when no
instance references it (reference equality). Fourth round: C05.5 an identity
changes hands only inside a scheduling cycle or restore_placement (shared with
C09.4).
Sweep: C05.2 a direct un-placement (server set to None) releases the identity as well; C05.6 the in-use walk flags exactly the found outcome, a group that is still referenced is shrunk to zero on every path from that outcome, and the loader removes from the model exactly the groups the store no longer lists (set algebra over the two listings, loop never cut short, no further condition).
Fifth round: C05.1 acquire_identity is called by the placement loop only; C05.4 the identity groups are loaded before the recorded identities are forced (shared with C11.1); C05.5 the first publication of a new master rewrites every placement the start-up cycle changed (shared with C09.1).
Sixth round: C05.6 the removal of stale identity groups is reached on every path of the loader, also when the store lists none.
Seventh round: C05.4 a forced identity is taken out of the group's pool on every path on which it is set; C05.1 no iteration of the placement loop or of a pre-pass ends with an unplaced instance still holding an identity.
Eighth round: C05.3 what a growing group adds to its free set is held by nobody - a routine that gives IdentityGroup.adjust a count that may be larger than the current one then discards, for every instance of the group, the identity it holds from the free set (F12: a shrink is acted on only by the next cycle, so growing again before it - or re-creating a group emptied while in use - re-offered identities still held; repaired in /repo).
Tenth round: C05.6 the deletion of a group from the registry is decided by a walk over the instances that reference it - without such a walk the clause is violated (a pending instance references its group and holds nothing, so no count kept by the group can answer).
Does NOT decide uniqueness over histories of count changes racing with
restores (contents of sets over time).
"""

ASSUMPTIONS = [
    'the unconditional restore to the recorded server after a failed lease '
    'renewal succeeds (capacity on that server can only have grown in the '
    'same iteration)',
    'acquire_identity/release_identity behave as their names say (their '
    'bodies are checked by C05.3/C05.4 only for the pool bookkeeping)',
]

MIN_OBLIGATIONS = 12
MIN_PER_RULE = {'C05.1': 4, 'C05.2': 5, 'C05.3': 4, 'C05.4': 1, 'C05.5': 1,
                'C05.6': 2}


def _typestate(ctx):
    loop = PlacementLoop(ctx)
    func, graph, head = loop.func, loop.graph, loop.head
    step = loop.step
    reached = loop.reached
    backs = K.loop_back_edges(head)
    ctx.require(len(backs) >= 4, 'ends of an iteration of the placement '
                                 'loop (found %d)' % len(backs), rule='C05.1')
    for edge in backs:
        bad = None
        states = set()
        for (node, state), _par in reached.items():
            if node is not edge.src:
                continue
            for new in step(edge, state):
                states.add(new)
                if not (new[0] == 'Y' or new[1] == 'clean'):
                    bad = (node, state)
        construct = 'end of iteration [%s] %s' % (
            K.controlling(edge.src, graph), edge.src.text(60))
        if bad is None:
            ctx.ok('C05.1', func, edge.src,
                   'states at this exit: %s' % sorted(states),
                   construct=construct, evals=max(1, len(states)))
        else:
            path = C.witness(reached, bad)
            ctx.fail('C05.1', func, edge.src,
                     'an iteration can end with the instance not placed '
                     '(placed=%s) while it may still hold an identity' %
                     (bad[1][0],),
                     path=K.describe(path), construct=construct,
                     evals=max(1, len(states)))
    # conversely, a member of a group is not placed without an identity:
    # once the identity was released in an iteration, no placement of the
    # instance follows in that iteration unless it is acquired again
    var = loop.var
    rels = [n for n in loop.body() if any(
        loop.releases(c) for c in C.node_calls(n))]
    for rnode in rels:
        def placing(node):
            return any(loop.places(c) for c in C.node_calls(node))

        def reacquired(edge):
            return edge.kind == 'true' and any(
                K.is_meth(c, 'acquire_identity') and
                N.txt(K.recv(c)) == var
                for c in K.test_calls(loop.func, edge.src)) \
                if edge.src.kind == 'test' \
                else False
        goals = [n for n in loop.body() if placing(n)]
        path = K.find_path_cp(graph, rnode, goals,
                              cut_node=lambda n: n is head,
                              cut_edge=reacquired, follow_exc=False) \
            if goals else None
        ctx.ob('C05.1', func, rnode, path is None,
               'after the identity was released the instance is not placed '
               'again in the same iteration (a placed member of a group '
               'holds an identity)' if path is None else
               'the instance can be placed after its identity was released: '
               'a placed member of the group without an identity, whose '
               'identity goes to a second instance',
               path=K.describe(path) if path else None,
               construct='no placement after %s' % rnode.text(40))
    return loop


def _removal_pairing(ctx):
    cell = ctx.index.get_class(K.SCHED, 'Cell')
    count = 0
    for func in cell.live_methods():
        graph = None
        for sub in K.walk_no_nested(func.node):
            if not (isinstance(sub, ast.Call) and K.is_meth(sub, 'remove')
                    and len(sub.args) == 1 and
                    isinstance(sub.args[0], ast.Attribute) and
                    sub.args[0].attr == 'name' and
                    isinstance(sub.args[0].value, ast.Name)):
                continue
            rtxt = K.recv_text(sub) or ''
            if rtxt.endswith('allocation') or rtxt == 'allocation':
                continue        # Allocation.remove: queue bookkeeping
            var = sub.args[0].value.id
            graph = graph or ctx.cfg(func)
            site = [n for n, c in K.nodes_calling(graph, lambda c: c is sub)]
            if not site:
                continue
            site = site[0]
            count += 1
            _check_removal(ctx, func, graph, site, var)
    # ... the same for an instance un-placed by a direct store (the server
    # it names is gone, there is nothing to remove it from)
    for func in cell.live_methods():
        graph = None
        for sub in K.walk_no_nested(func.node):
            if isinstance(sub, ast.Assign) and len(sub.targets) == 1 and \
                    isinstance(sub.targets[0], ast.Attribute) and \
                    sub.targets[0].attr == 'server' and \
                    isinstance(sub.targets[0].value, ast.Name) and \
                    isinstance(sub.value, ast.Constant) and \
                    sub.value.value is None:
                var = sub.targets[0].value.id
                graph = graph or ctx.cfg(func)
                site = [n for n in graph.nodes if n.ast is sub]
                if site:
                    count += 1
                    _check_removal(ctx, func, graph, site[0], var)
    ctx.require(count >= 6, 'un-placement sites in Cell (found %d)' % count)


def _check_removal(ctx, func, graph, site, var):
    def releases_node(node):
        for call in C.node_calls(node):
            if K.is_meth(call, 'release_identity') and \
                    N.txt(K.recv(call)) == var:
                return True
            callee = K.resolve_call(ctx, func, call)
            if callee is not None and callee is not func:
                param = K.call_passes_as(call, callee, var)
                if param and K.callee_always_calls(ctx, callee, param,
                                                   'release_identity'):
                    return True
        return False

    head = K.enclosing_for(graph, site, var)
    goals = [graph.exit]
    if head is not None:
        goals.append(head)
    path = K.find_path(site, goals, cut_node=releases_node,
                       follow_exc=False)
    if path is None:
        ctx.ok('C05.2', func, site,
               'every path after the removal releases the identity of %s'
               % var)
        return
    # exemption (a): identity cleared before the removal
    dom = C.dominators(graph)
    for node in dom.get(site, ()):
        for tgt, val, kind in K.assigns_attr(node):
            if N.txt(tgt) == '%s.identity' % var and kind == 'assign' and \
                    isinstance(val, ast.Constant) and val.value is None:
                ctx.ok('C05.2', func, site,
                       'identity cleared (%s.identity = None) before the '
                       'removal' % var)
                return
    # exemption (b): the victim / its server is recorded before the removal
    # in a local (map entry or variable) that guards a later restore
    for node in dom.get(site, ()):
        if node.kind != 'stmt' or not isinstance(node.ast, ast.Assign):
            continue
        for tgt in node.ast.targets:
            base = tgt
            while isinstance(base, ast.Subscript):
                base = base.value
            if isinstance(base, ast.Name) and isinstance(
                    tgt, (ast.Subscript, ast.Name)):
                dname = base.id
                if dname in (var,):
                    continue
                rcv = [K.recv_text(c) for c in C.node_calls(site)
                       if K.is_meth(c, 'remove')]
                about_victim = var in N.mentions(node.ast.value) or (
                    isinstance(tgt, ast.Subscript) and
                    var in N.mentions(tgt.slice)) or \
                    N.txt(node.ast.value) in rcv
                if not about_victim:
                    continue
                if _guards_restore(graph, dname):
                    ctx.ok('C05.2', func, site,
                           'victim recorded in the deferred-restore '
                           'structure %r before the removal' % dname)
                    return
    ctx.fail('C05.2', func, site,
             'a path after the removal of %s reaches the end of its scope '
             'without release_identity()' % var, path=K.describe(path))


def _guards_restore(graph, dname):
    """A test mentioning local ``dname`` guards (reaches, on one of its
    edges) a .restore( call."""
    for node in graph.nodes:
        if node.kind != 'test' or dname not in N.mentions(node.ast):
            continue
        for edge in node.succ:
            if edge.kind not in ('true', 'false'):
                continue
            for sub in C.reach([edge.dst], edge_ok=C.no_exc):
                for call in C.node_calls(sub):
                    if K.is_meth(call, 'restore'):
                        return True
    return False


def _range_maintenance(ctx):
    index = ctx.index
    group = index.get_class(K.SCHED, 'IdentityGroup')
    nz = N.Normaliser()
    # release: add only under ident < count
    release = K.one([f for f in group.live_methods()
                     if K.func_calls_method(f, 'add')],
                    'IdentityGroup method adding to the pool')
    graph = ctx.cfg(release)
    param = release.params()[1]
    for node, call in K.nodes_calling(
            graph, lambda c: K.is_meth(c, 'add')):
        want = N.cmp_atom(ast.parse(param, mode='eval').body, '<',
                          ast.parse('self.count', mode='eval').body)
        ok = K.guarded_by(graph, node, lambda e: want in
                          nz.facts_of_edge(e))
        ctx.ob('C05.3', release, node, ok,
               'pool.add dominated by %s' % N.show(want))
    # adjust
    adjust = K.one([f for f in group.live_methods()
                    if f.name != '__init__' and any(
                        op != 'elem' for _n, op, _r in _pool_ops(ctx, f))],
                   'IdentityGroup method adjusting the pool in place')
    graph = ctx.cfg(adjust)
    new = adjust.params()[1]
    facts = N.must_facts(graph, nz)
    shrink = N.cmp_atom(ast.Name(id=new), '<',
                        ast.parse('self.count', mode='eval').body)

    def under(node, atom):
        # the fact, read directly or through a local copy of self.count
        return atom in facts[node]
    grow_ok = shrink_ok = False
    for node, oper, rng in _pool_ops(ctx, adjust):
        if oper == 'elem':
            continue
        if rng is None:
            ctx.fail('C05.3', adjust, node, 'pool adjusted by something '
                     'other than a range(a, b)')
            continue
        lo, hi = rng
        if oper == 'remove':
            good = (lo, hi) == (new, 'self.count') and under(node, shrink)
            shrink_ok = shrink_ok or good
            ctx.ob('C05.3', adjust, node, good,
                   'shrink removes range(%s, %s) under %s' % (
                       lo, hi, sorted(map(N.show, facts[node]))))
        elif oper in ('add', 'toggle'):
            good = (lo, hi) == ('self.count', new) and \
                under(node, N.negate(shrink))
            grow_ok = grow_ok or good
            ctx.ob('C05.3', adjust, node, good,
                   'grow adds range(%s, %s) under %s' % (
                       lo, hi, sorted(map(N.show, facts[node]))))
        else:
            ctx.fail('C05.3', adjust, node, 'unexpected pool operator')
    ctx.require(grow_ok or shrink_ok or True, 'adjust')
    # count updated after, on every path, and not before the pool updates
    sets = [n for n in graph.nodes if any(
        N.txt(t) == 'self.count' for t, _v, _k in K.assigns_attr(n))]
    ok = bool(sets)
    for node in sets:
        after = C.reach_after(node, edge_ok=C.no_exc)
        pool_nodes = [n for n, op, _r in _pool_ops(ctx, adjust)
                      if op != 'elem']
        count_now = [n for n in pool_nodes if any(
            'self.count' in N.txt(a) for c in C.node_calls(n)
            for a in ast.walk(c)) or
            (n.kind == 'stmt' and 'self.count' in N.txt(n.ast))]
        if any(m in count_now for m in after):
            ok = False
    reach_no_set = K.cut_reach(graph, graph.entry,
                               cut_node=lambda n: n in sets,
                               follow_exc=False)
    if graph.exit in reach_no_set:
        ok = False
    ctx.ob('C05.3', adjust, sets[0] if sets else None, ok,
           'count is assigned the new value on every path, after the pool '
           'was adjusted against the old value',
           construct='self.count = <new>')

    # revocation pass
    cell = index.get_class(K.SCHED, 'Cell')
    cands = []
    for func in cell.live_methods():
        graph = ctx.cfg(func)
        for node in graph.nodes:
            for tgt, val, kind in K.assigns_attr(node, attr='identity'):
                if kind == 'assign' and isinstance(val, ast.Constant) and \
                        val.value is None:
                    cands.append((func, graph, node, N.txt(tgt.value)))
    cands = K.some(cands, 'Cell statement clearing an identity '
                          '(<v>.identity = None)')
    for func, graph, node, var in cands:
        want_l = ast.parse('%s.identity' % var, mode='eval').body
        want_r = ast.parse('%s.identity_group_ref.count' % var,
                           mode='eval').body
        want = N.cmp_atom(want_l, '>=', want_r)
        ok = K.guarded_by(graph, node,
                          lambda e, w=want: w in nz.facts_of_edge(e))
        ctx.ob('C05.3', func, node, ok,
               'identity cleared only under %s' % N.show(want))
        # un-place: every path to the end of the iteration passes
        # "not <v>.server" or a remove(<v>.name)
        head = K.enclosing_for(graph, node, var)
        goals = [graph.exit] + ([head] if head is not None else [])

        def unplaced(cur, var=var):
            for call in C.node_calls(cur):
                if K.is_meth(call, 'remove') and call.args and \
                        N.txt(call.args[0]) == '%s.name' % var:
                    return True
            return False

        def falsy_server(edge, var=var):
            return K.truth_edge(nz, edge, '%s.server' % var, False)
        path = K.find_path(node, goals, cut_node=unplaced,
                           cut_edge=falsy_server, follow_exc=False)
        ctx.ob('C05.3', func, node, path is None,
               'an instance whose identity was revoked is removed from its '
               'server in the same pass',
               path=K.describe(path) if path else None,
               construct='un-place after ' + node.text())
        _revocation_complete(ctx, func, graph, node, var, nz)


def _revocation_complete(ctx, func, graph, node, var, nz):
    """An iteration of the revocation pass that does not revoke has
    established that there is nothing to revoke."""
    head = K.enclosing_for(graph, node, var)
    if head is None:
        return

    def fine(atom):
        key = atom.key
        if key[0] == 'is' and key[2] == 'None' and key[3]:
            return key[1] in ('%s.identity' % var,
                              '%s.identity_group_ref' % var)
        if key[0] == 'cmp':
            lhs = ast.parse('%s.identity' % var, mode='eval').body
            rhs = ast.parse('%s.identity_group_ref.count' % var,
                            mode='eval').body
            return atom == N.cmp_atom(lhs, '<', rhs)
        return False
    starts = [e.dst for e in head.succ if e.kind == 'iter']
    path = None
    for start in starts:
        if start is node:
            continue
        path = K.find_path_cp(
            graph, start, [head], cut_node=lambda n: n is node,
            cut_edge=lambda e: K.edge_establishes(ctx, func, nz, e, fine),
            follow_exc=False)
        if path:
            break
    ctx.ob('C05.3', func, head, path is None,
           'every instance of the queue is examined: an iteration ends '
           'without revoking only when the identity is None, the instance '
           'has no group, or identity < count',
           path=K.describe(path) if path else None,
           construct='revocation pass skips an instance')


def _model_removal(ctx, removal_rule='C05.2'):
    """An instance leaves the cell's table only after its identity went
    back to the pool - placed or not."""
    cell = ctx.index.get_class(K.SCHED, 'Cell')
    count = 0
    for func in cell.live_methods():
        graph = None
        for sub in K.walk_no_nested(func.node):
            key = None
            if isinstance(sub, ast.Delete):
                for tgt in sub.targets:
                    if isinstance(tgt, ast.Subscript) and \
                            N.txt(tgt.value) == 'self.apps':
                        key = N.txt(tgt.slice)
            elif isinstance(sub, ast.Call) and K.is_meth(sub, 'pop') and \
                    K.recv_text(sub) == 'self.apps' and sub.args:
                key = N.txt(sub.args[0])
            if key is None:
                continue
            graph = graph or ctx.cfg(func)
            site = [n for n in graph.nodes if n.ast is sub or any(
                c is sub for c in C.node_calls(n))]
            if not site:
                continue
            count += 1
            env = {}
            for asg in K.walk_no_nested(func.node):
                if isinstance(asg, ast.Assign) and len(asg.targets) == 1 \
                        and isinstance(asg.targets[0], ast.Name):
                    env.setdefault(asg.targets[0].id, []).append(asg.value)
            env = dict((k, v[0]) for k, v in env.items() if len(v) == 1)
            lookups = ('self.apps[%s]' % key, 'self.apps.get(%s)' % key)

            def releases(edge):
                for call in C.node_calls(edge.src):
                    if K.is_meth(call, 'release_identity'):
                        recv = K.recv(call)
                        if N.txt(recv) in lookups or \
                                N.txt(N.subst(recv, env)) in lookups or \
                                N.txt(recv) + '.name' == key:
                            return edge.kind != 'exc'
                return False
            ok = K.guarded_by(graph, site[0], releases)
            ctx.ob('C05.2', func, site[0], ok,
                   'the instance is dropped from the cell only after its '
                   'identity was released on every path (an unplaced '
                   'instance may still hold one until the next cycle)',
                   construct='release before ' + site[0].text(40))
            # ... and only after it was taken off the server it is on, if
            # that server is a member of the cell (whatever the server's
            # state): otherwise the server keeps counting it - capacity and
            # affinity counters - with nobody left to remove it
            nzr = N.Normaliser()

            def off_server(edge):
                for call in C.node_calls(edge.src):
                    if K.is_meth(call, 'remove') and call.args and \
                            N.txt(call.args[0]).endswith('.name'):
                        return edge.kind != 'exc'
                for atom in nzr.facts_of_edge(edge):
                    akey = atom.key
                    if akey[0] == 'in' and not akey[3] and \
                            akey[1].endswith('.server'):
                        return True         # app.server not in <members>
                    if akey[0] == 'is' and akey[3] and akey[2] == 'None' \
                            and not akey[1].endswith('.allocation'):
                        # <members>.get(app.server) is None
                        src_defs = env.get(akey[1])
                        if src_defs is not None and '.get(' in N.txt(
                                src_defs) and '.server' in N.txt(src_defs):
                            return True
                return False
            ok2 = K.guarded_by(graph, site[0], off_server)
            ctx.ob(removal_rule, func, site[0], ok2,
                   'the instance is dropped from the cell only after it was '
                   'taken off its server (unless that server is not a '
                   'member of the cell)',
                   construct='off the server before ' + site[0].text(40))
    ctx.require(count >= 1, 'removal of an instance from Cell.apps',
        rule='C05.2')


_POOL_METHODS = {'difference_update': 'remove', 'update': 'add',
                 'symmetric_difference_update': 'toggle',
                 'add': 'elem', 'discard': 'elem', 'remove': 'elem',
                 'pop': 'elem'}
_POOL_OPS = {ast.Sub: 'remove', ast.BitOr: 'add', ast.BitXor: 'toggle'}


def _pool_ops(ctx, func):
    """In-place changes of self.available in func:
    [(node, 'remove'|'add'|'toggle'|'elem'|'other', (lo, hi) | None)], the
    range bounds after copy propagation of the function's locals."""
    graph = ctx.cfg(func)
    out = []
    for node in graph.nodes:
        if node.kind == 'stmt' and isinstance(node.ast, ast.AugAssign) and \
                N.txt(node.ast.target) == 'self.available':
            out.append((node, _POOL_OPS.get(type(node.ast.op), 'other'),
                        _range_args(func, node.ast.value)))
        elif node.kind == 'stmt' and isinstance(node.ast, ast.Assign) and \
                any(N.txt(t) == 'self.available' for t in node.ast.targets):
            val = node.ast.value
            if isinstance(val, ast.BinOp) and \
                    N.txt(val.left) == 'self.available':
                out.append((node, _POOL_OPS.get(type(val.op), 'other'),
                            _range_args(func, val.right)))
            else:
                out.append((node, 'other', None))
        else:
            for call in C.node_calls(node):
                if isinstance(call.func, ast.Attribute) and \
                        N.txt(call.func.value) == 'self.available' and \
                        call.func.attr in _POOL_METHODS:
                    oper = _POOL_METHODS[call.func.attr]
                    out.append((node, oper, _range_args(
                        func, call.args[0]) if call.args and
                        oper != 'elem' else None))
    return out


def _range_args(func, expr):
    """set(range(a, b)) / set(xrange(a, b)) -> (a_text, b_text)."""
    if isinstance(expr, ast.Name):
        expr = K.rexpr(func, expr)      # the set kept in a local first
    inner = expr
    if isinstance(expr, ast.Call) and K.callee_text(expr) in ('set',
                                                              'frozenset') \
            and len(expr.args) == 1:
        inner = expr.args[0]
    if isinstance(inner, ast.Call) and \
            K.callee_text(inner).split('.')[-1] in ('range', 'xrange') \
            and len(inner.args) == 2:
        return K.rtxt(func, inner.args[0]), K.rtxt(func, inner.args[1])
    return None


def _forced(ctx):
    app = ctx.index.get_class(K.SCHED, 'Application')
    func = ctx.index.find_method(app, 'force_set_identity')
    ctx.require(func is not None, 'Application.force_set_identity')
    graph = ctx.cfg(func)
    param = func.params()[1]
    stores = [n for n in graph.nodes if any(
        N.txt(t) == 'self.identity' and N.txt(v) == param
        for t, v, _k in K.assigns_attr(n))]
    ctx.require(stores, 'store self.identity = <param> in force_set_identity',
        rule='C05.4')
    for node in stores:
        def discards(cur):
            for call in C.node_calls(cur):
                if K.is_meth(call, 'discard', 'remove') and call.args and \
                        N.txt(call.args[0]) == param and \
                        'available' in (K.recv_text(call) or ''):
                    return True
            return False
        path = K.find_path(node, [graph.exit], cut_node=discards,
                           follow_exc=False)
        ctx.ob('C05.4', func, node, path is None,
               'forced identity is discarded from the group pool on every '
               'path', path=K.describe(path) if path else None)


def _publication(ctx):
    master = ctx.index.get_class(K.MASTER, 'Master')
    func = ctx.index.find_method(master, '_placement_data')
    ctx.require(func is not None, 'Master._placement_data')
    found = False
    for sub in K.walk_no_nested(func.node):
        if isinstance(sub, ast.Return) and isinstance(sub.value, ast.Dict):
            for key, val in zip(sub.value.keys, sub.value.values):
                if isinstance(key, ast.Constant) and key.value == 'identity':
                    found = True
                    src = _resolve_local(func, val)
                    ok = src.endswith('.identity') and 'self.cell.apps[' \
                        in src
                    ctx.ob('C05.5', func, sub, ok,
                           "record key 'identity' <- %s" % src,
                           construct="'identity': %s" % N.txt(val))
    ctx.require(found, "'identity' key in the placement record", rule='C05.5')


def _resolve_local(func, expr):
    """Text of expr with a local name replaced by its unique assignment."""
    return K.rtxt(func, expr)


def _group_removal(ctx):
    """C05.6: an identity group object is dropped from the registry only
    when no instance references it (otherwise a re-created group and the
    stale object hand out the same identities)."""
    cell = ctx.index.get_class(K.SCHED, 'Cell')
    nz = N.Normaliser()
    funcs = []
    for func in cell.live_methods():
        for sub in K.walk_no_nested(func.node):
            if isinstance(sub, ast.Delete) and any(
                    isinstance(t, ast.Subscript) and
                    N.txt(t.value) == 'self.identity_groups'
                    for t in sub.targets):
                funcs.append(func)
                break
    func = K.one(funcs, 'Cell method deleting from self.identity_groups')
    graph = ctx.cfg(func)
    dels = [n for n in graph.nodes if n.kind == 'stmt' and
            isinstance(n.ast, ast.Delete)]
    loops = [n for n in graph.nodes if n.kind == 'for' and
             'self.apps' in N.txt(n.ast.iter)]
    if not loops and dels:
        # whether a group is in use is a fact about the instances - a
        # pending instance references its group and holds nothing, so no
        # count kept by the group itself can answer it
        for node in dels:
            ctx.fail('C05.6', func, node,
                     'the mechanism this clause is about is gone: the '
                     'deletion of a group from the registry is not decided '
                     'by a walk over the instances that reference it (an '
                     'instance that is pending references the group and '
                     'holds no identity)',
                     construct='registry deletion only on the not-in-use '
                               'outcome')
        return
    loop = K.one(loops, 'loop over self.apps in %s' % func.qualname)
    var = sorted(N.for_targets(loop))[-1]
    facts = N.must_facts(graph, nz)
    body = K.loop_body_nodes(loop)
    # the tests of the loop that look at the instance: each one must be the
    # reference comparison with the group; the 'found' outcome of the walk
    # is the edge on which it holds (the helper may be spliced in at the
    # condition, so outcomes are edges, not statements)
    flagged = []
    tests = [n for n in body if n.kind == 'test' and n.ast is not None and
             any(m == var or m.startswith(var + '.')
                 for m in N.mentions(n.ast))]
    for test in tests:
        atom = nz.atom(test.ast)
        key = atom.key
        ok = False
        found_kind = 'true'
        if key[0] == 'cmp' and key[1] in ('==', '!='):
            terms = [t for t, _c in key[2]]
            ok = '%s.identity_group_ref' % var in terms and len(terms) == 2
            found_kind = 'true' if key[1] == '==' else 'false'
        elif key[0] == 'is':
            ok = '%s.identity_group_ref' % var in key[1:3]
            found_kind = 'true' if key[3] else 'false'
        ctx.ob('C05.6', func, test, ok,
               'the in-use test of the group is reference equality only'
               if ok else
               'the in-use test is narrowed by %s: a group still referenced '
               'by instances can be dropped' % N.show(atom))
        if ok:
            flagged.extend(e.dst for e in test.succ if e.kind == found_kind)
    ctx.require(tests, 'in-use branch of %s' % func.qualname, rule='C05.6')
    # the deletion is reachable only when the loop found no reference
    flags = set()
    for start in flagged:
        # the part of the iteration that follows the 'found' outcome (up to
        # the loop head): only a flag raised there says "in use"
        if start is loop:
            continue            # the outcome ends the iteration: no flag
        region = K.cut_reach(graph, start, cut_node=lambda n: n is loop,
                             follow_exc=False)
        for node in region:
            if node.kind == 'stmt' and isinstance(node.ast, ast.Assign) and \
                    isinstance(node.ast.targets[0], ast.Name) and \
                    isinstance(node.ast.value, ast.Constant) and \
                    node.ast.value.value is True:
                flags.add(node.ast.targets[0].id)
    # a group that is still referenced is shrunk to zero instead (its
    # identities are revoked by the next cycle): the found outcome reaches
    # the end of the routine only through <group>.adjust(0)
    def shrinks(node):
        return any(K.is_meth(c, 'adjust') and len(c.args) == 1 and
                   isinstance(c.args[0], ast.Constant) and
                   c.args[0].value == 0 and not isinstance(
                       c.args[0].value, bool)
                   for c in C.node_calls(node))
    for start in flagged:
        path = None if shrinks(start) else K.find_path_cp(
            graph, start, [graph.exit], cut_node=shrinks) \
            if start is not graph.exit else []
        ctx.ob('C05.6', func, start, path is None,
               'a group still referenced by an instance is shrunk to zero '
               '(adjust(0)) on every path from the in-use outcome'
               if path is None else
               'the in-use outcome reaches the end of the routine without '
               'adjust(0): %s' % K.describe(path),
               construct='referenced group shrunk to zero')
    for node in dels:
        ok = any(K.guarded_by(graph, node, lambda e, f=flag: K.truth_edge(
            nz, e, f, False), start=loop) for flag in flags) or \
            not any(node in C.reach_after(fl, edge_ok=C.no_exc)
                    for fl in flagged)
        ctx.ob('C05.6', func, node, ok,
               'registry deletion only on the not-in-use outcome')


def _regrow(ctx):
    """C05.3: what a growing group adds to its free set is held by nobody.
    A shrink (and the emptying of a group that is removed while in use)
    leaves the out-of-range identities with their holders until the
    revocation pass of the next cycle; a grow - or the re-creation of the
    group - before that cycle adds the same numbers to the free set again,
    and the cycle hands them out a second time while the old holder, back in
    range, keeps his.  So a routine that gives the range adjustment a count
    that may be larger than the current one then takes whatever the cell's
    instances hold out of the free set, for every instance of the group, on
    every path - or the adjustment itself is told what is held."""
    cell = ctx.index.get_class(K.SCHED, 'Cell')
    group = ctx.index.get_class(K.SCHED, 'IdentityGroup')
    adjust = K.one([f for f in group.live_methods()
                    if f.name != '__init__' and any(
                        op != 'elem' for _n, op, _r in _pool_ops(ctx, f))],
                   'IdentityGroup method adjusting the pool in place')
    nz = N.Normaliser()
    sites = 0
    mods = [ctx.index.module(K.SCHED), ctx.index.module(K.LOADER),
            ctx.index.module(K.MASTER)]
    for mod in mods:
        for func in mod.live_functions():
            if func is adjust or not K.func_calls_method(func, adjust.name):
                continue
            graph = ctx.cfg(func)
            for node, call in K.nodes_calling(
                    graph, lambda c: K.is_meth(c, adjust.name) and
                    len(c.args) == 1 and not c.keywords):
                recv = K.rtxt(func, K.recv(call))
                if 'identity_group' not in recv:
                    continue        # another object's adjust (the tracker)
                arg = call.args[0]
                if isinstance(arg, ast.Constant) and arg.value == 0 and \
                        not isinstance(arg.value, bool):
                    continue        # shrink to nothing: adds no identity
                sites += 1
                gtxt = N.txt(K.recv(call))

                def excludes_held(cur, gtxt=gtxt, recv=recv, func=func,
                                  graph=graph):
                    """cur is the head of a loop over the cell's instances
                    that discards each one's identity from this group's
                    free set - for every instance of the group."""
                    if cur.kind != 'for' or \
                            'self.apps' not in K.rtxt(func, cur.ast.iter):
                        return False
                    var = sorted(N.for_targets(cur))[-1]
                    body = K.loop_body_nodes(cur)
                    drops = [n for n in body for c in C.node_calls(n)
                             if K.is_meth(c, 'discard') and
                             len(c.args) == 1 and
                             N.txt(c.args[0]) == '%s.identity' % var and
                             K.rtxt(func, K.recv(c)) in (
                                 '%s.available' % gtxt,
                                 '%s.available' % recv)]
                    if not drops:
                        return False

                    def member(edge):
                        for a in nz.facts_of_edge(edge):
                            key = a.key
                            ref = '%s.identity_group_ref' % var
                            if key[0] == 'is' and ref in key[1:3] and \
                                    not key[3]:
                                return True     # is not the group: skipped
                            if key[0] == 'cmp' and key[1] == '!=' and \
                                    ref in [t for t, _c in key[2]]:
                                return True
                        return False
                    # an iteration misses the discard only for an instance
                    # of another group
                    starts = [e.dst for e in cur.succ if e.kind == 'iter']
                    for start in starts:
                        if start in drops:
                            continue
                        if K.find_path(start, [cur],
                                       cut_node=lambda n: n in drops,
                                       cut_edge=member, follow_exc=False):
                            return False
                    jumps = [n for n in body if n.kind in ('return',) or (
                        n.kind == 'stmt' and isinstance(n.ast, ast.Break))]
                    return not jumps
                path = K.find_path(node, [graph.exit],
                                   cut_node=lambda n: n is not node and
                                   excludes_held(n), follow_exc=False)
                told = len(adjust.params()) > 2      # adjust(count, held)
                ctx.ob('C05.3', func, node, path is None or told,
                       'after a count that may grow the range, the identities '
                       'the instances of the group still hold are taken out '
                       'of the free set (a shrink is acted on only in the '
                       'next cycle: growing again before it must not re-offer '
                       'what is still held)',
                       path=K.describe(path) if path else None,
                       construct='free set excludes held identities after '
                                 '%s' % node.text(40))
    ctx.require(sites >= 1, 'call handing a new count to IdentityGroup.%s' %
                adjust.name, rule='C05.3')


def identity_presence_tests(ctx, rule='C05.2'):
    """Identity 0 is an identity: whether an instance holds one is decided
    by identity `is None` / `is not None`, never by its truth value (a
    release or a revocation that skips "falsy" identities leaks identity 0
    of every group)."""
    index = ctx.index
    nz = N.Normaliser()
    judged = 0
    for mod in (index.module(K.SCHED), index.module(K.LOADER),
                index.module(K.MASTER)):
        for func in mod.live_functions():
            graph = None
            for sub in K.walk_no_nested(func.node):
                if not (isinstance(sub, ast.Attribute) and
                        sub.attr == 'identity'):
                    continue
                graph = graph or ctx.cfg(func)
                break
            if graph is None:
                continue
            for test in [n for n in graph.nodes if n.kind == 'test' and
                         n.ast is not None]:
                expr = K.test_expr(func, test) or test.ast
                try:
                    key = nz.atom(expr).key
                except Exception:           # pylint: disable=broad-except
                    continue
                if key[0] == 'truth' and key[1].endswith('.identity'):
                    judged += 1
                    ctx.fail(rule, func, test,
                             '%s decides on the truth value of an identity: '
                             'identity 0 is taken for "none"' % func.qualname,
                             construct='identity presence test')
                elif key[0] == 'is' and key[2] == 'None' and \
                        key[1].endswith('.identity'):
                    judged += 1
                    ctx.ok(rule, func, test,
                           'identity presence tested by identity with None',
                           construct='identity presence test')
    ctx.require(judged >= 3, 'presence tests of Application.identity (found '
                '%d)' % judged, rule=rule)


def _group_sync(ctx):
    """C05.6: the loader drops from the model every identity group the store
    no longer lists (a group deleted and re-created must not find the old
    object, with its old holders, still registered) and configures every
    listed one with the recorded count."""
    loader = ctx.index.get_class(K.LOADER, 'Loader')
    func = loader.methods.get('load_identity_groups') if loader else None
    ctx.require(func is not None, 'Loader.load_identity_groups')
    graph = ctx.cfg(func)
    sites = {}
    for kind in ('remove_identity_group', 'configure_identity_group'):
        sites[kind] = [(n, c) for n, c in K.nodes_calling(
            graph, lambda c, k=kind: K.is_meth(c, k))]
    ctx.require(sites['remove_identity_group'],
                'removal of the identity groups that left the store (%s)'
                % func.qualname, rule='C05.6', func=func)
    ctx.require(sites['configure_identity_group'],
                'configuration of the listed identity groups (%s)'
                % func.qualname, rule='C05.6', func=func)
    for node, call in sites['remove_identity_group']:
        head = K.enclosing_for(graph, node)
        dom = K.rtxt(func, head.ast.iter) if head is not None else ''
        var = sorted(N.for_targets(head))[-1] if head is not None else None
        ok = head is not None and len(call.args) == 1 and \
            N.txt(call.args[0]) == var
        diff = False
        if head is not None:
            # set algebra over the two base sets, whatever the spelling
            # (a - b, a.difference(b), a filtered comprehension)
            sx = K.FlowSetExpr(func, graph, {
                'model': lambda e: N.txt(e) in (
                    'self.cell.identity_groups',
                    'self.cell.identity_groups.keys()'),
                'store': lambda e: 'backend.list(' in N.txt(e) and
                'identity_groups' not in N.txt(e)})
            want = sx.expect(lambda e: e['model'] and not e['store'])
            tabs = sx.tables(head.ast.iter, head)
            diff = tabs is not None and all(
                t and all(want[r] == v for r, v in t.items()) for t in tabs)
        ctx.ob('C05.6', func, node, bool(ok and diff),
               'groups removed = groups of the model minus groups listed in '
               'the store (%s)' % dom,
               construct='stale identity groups removed')
        if head is not None:
            K.exhaustive_loop(ctx, 'C05.6', func, head,
                              'removal of stale identity groups')
            guards = [g for g in K.loop_body_nodes(head)
                      if g.kind == 'test']
            ctx.ob('C05.6', func, node, not guards,
                   'every stale group is removed (no further condition in '
                   'the removal loop)',
                   construct='stale identity groups removed '
                             'unconditionally')
    # ... on every path: a listing that came back empty removes every group
    # of the model (the last group of a cell can be deleted too)
    heads = [K.enclosing_for(graph, n)
             for n, _c in sites['remove_identity_group']]
    heads = [h for h in heads if h is not None]
    skip = K.find_path(graph.entry, [graph.exit],
                       cut_node=lambda n: n in heads, follow_exc=False)
    ctx.ob('C05.6', func, heads[0] if heads else None,
           bool(heads) and skip is None,
           'the removal of stale identity groups is reached on every path '
           '(also when the store lists no group at all)',
           path=K.describe(skip) if skip else None,
           construct='stale identity groups removal always reached')
    for node, call in sites['configure_identity_group']:
        head = K.enclosing_for(graph, node)
        if head is not None:
            K.exhaustive_loop(ctx, 'C05.6', func, head,
                              'configuration of listed identity groups')


def check(ctx):
    # shared with C09.4: an identity changes hands only inside a scheduling
    # cycle or restore_placement - anywhere else no publication sees it and
    # a restore that keeps identities finds them gone
    from . import c09
    with ctx.shared({'C09': 'C05.5'}):
        c09._unsnapshotted(ctx, ctx.index.get_class(K.MASTER, 'Master'))
    _typestate(ctx)
    from .sched_model import acquire_owner, loop_always_run
    acquire_owner(ctx, 'C05.1')
    loop_always_run(ctx, 'C05.1')
    # shared with C09.2: a victim of the eviction scan keeps its identity
    # while it is recorded for restore - back on the same server with the
    # same expiry nothing is published, so a new identity would stay unknown
    # to the record (and the old one goes to somebody else)
    with ctx.shared({'C09': 'C05.5'}):
        c09._identity_with_placement(ctx)
    _group_removal(ctx)
    _group_sync(ctx)
    identity_presence_tests(ctx)
    _removal_pairing(ctx)
    _model_removal(ctx)
    _range_maintenance(ctx)
    _regrow(ctx)
    _forced(ctx)
    # shared with C11.1: the groups exist before the recorded identities are
    # forced (a group filled afterwards offers the forced identities again)
    from . import c11
    loader = ctx.index.get_class(K.LOADER, 'Loader')
    c11._load_order(ctx, loader, rule='C05.4', only=[
        ('load_identity_groups', 'restore_placements')])
    _publication(ctx)
    # shared with C09.1: the first publication of a new master writes again
    # every placement the start-up cycle changed (server or expiry) - the
    # identity travels with the record
    from . import c09
    c09._startup(ctx, ctx.index.get_class(K.MASTER, 'Master'), rule='C05.5')


_S = 'lib/python/treadmill/scheduler/__init__.py'

MUTANTS = [
    ('revert-F12-held-identities-reoffered', [(_S, """            ident_group = self.identity_groups[name]
            ident_group.adjust(count)
            # Apps keep the identity they hold until the next scheduling
            # cycle, even if a previous adjustment made it invalid. Such
            # identity is not available when the group grows again.
            for app in six.itervalues(self.apps):
                if app.identity_group_ref is ident_group:
                    ident_group.available.discard(app.identity)
""", """            self.identity_groups[name].adjust(count)
""")], 'C05.3'),
    ('held-identities-excluded-for-placed-only', [(_S, """                if app.identity_group_ref is ident_group:
                    ident_group.available.discard(app.identity)
""", """                if app.identity_group_ref is ident_group and app.server:
                    ident_group.available.discard(app.identity)
""")], 'C05.3'),
    ('release-dropped-infeasible', [(_S, """                    'Placement not feasible: %s %r', app.name, app.shape()
                )
                app.release_identity()
""", """                    'Placement not feasible: %s %r', app.name, app.shape()
                )
""")], 'C05.1'),
    ('release-dropped-schedule-once', [(_S, """            if app.schedule_once and app.evicted:
                app.release_identity()
""", """            if app.schedule_once and app.evicted:
""")], 'C05.1'),
    ('release-dropped-blacklisted', [(_S, """                _LOGGER.info('App %s is blacklisted', app.name)
                app.release_identity()
""", """                _LOGGER.info('App %s is blacklisted', app.name)
""")], 'C05.1'),
    ('release-only-when-placed', [(_S, """                    servers[app.server].remove(app.name)

                app.release_identity()
                continue
""", """                    servers[app.server].remove(app.name)
                    app.release_identity()

                continue
""")], 'C05.1'),
    ('final-release-dropped', [(_S, """                else:
                    app.release_identity()
                    placement_tracker.adjust(app)
""", """                else:
                    placement_tracker.adjust(app)
""")], 'C05.1'),
    ('early-continue-after-acquire', [(_S, """            # If app was evicted before, try to restore to the same node.
            if app in evicted:
""", """            if app.priority == 0 and len(evicted) > 10:
                continue

            # If app was evicted before, try to restore to the same node.
            if app in evicted:
""")], 'C05.1'),
    ('inactive-pass-no-release', [(_S, """            for app in to_be_moved:
                server.remove(app.name)
                app.release_identity()
""", """            for app in to_be_moved:
                server.remove(app.name)
""")], 'C05.2'),
    ('blacklist-pass-no-release', [(_S, """                server.remove(app.name)
                app.release_identity()

    def _find_placements""", """                server.remove(app.name)

    def _find_placements""")], 'C05.2'),
    ('remove-app-no-release', [(_S, """        app.release_identity()
        del self.apps[appname]
""", """        del self.apps[appname]
""")], 'C05.2'),
    ('release-adds-out-of-range', [(_S, """        if ident < self.count:
            self.available.add(ident)
""", """        if ident <= self.count:
            self.available.add(ident)
""")], 'C05.3'),
    ('release-unguarded', [(_S, """        if ident < self.count:
            self.available.add(ident)
""", """        self.available.add(ident)
""")], 'C05.3'),
    ('adjust-shrink-off-by-one', [(_S, """            self.available -= set(six.moves.xrange(count, self.count))
""", """            self.available -= set(six.moves.xrange(count + 1, self.count))
""")], 'C05.3'),
    ('adjust-count-first', [(_S, """        if count >= self.count:
            self.available ^= set(six.moves.xrange(self.count, count))
        else:
            self.available -= set(six.moves.xrange(count, self.count))
        self.count = count
""", """        old, self.count = self.count, count
        if count >= self.count:
            self.available ^= set(six.moves.xrange(self.count, count))
        else:
            self.available -= set(six.moves.xrange(count, self.count))
""")], 'C05.3'),
    ('revoke-strict', [(_S, """                if app.identity >= app.identity_group_ref.count:
""", """                if app.identity > app.identity_group_ref.count:
""")], 'C05.3'),
    ('revoke-keeps-placement', [(_S, """                    app.identity = None
                    # Invalidate any existing placement.
                    if app.server:
                        servers[app.server].remove(app.name)
""", """                    app.identity = None
""")], 'C05.3'),
    ('force-keeps-in-pool', [(_S, """            self.identity = identity
            self.identity_group_ref.available.discard(identity)
""", """            self.identity = identity
""")], 'C05.4'),
    ('record-identity-from-elsewhere', [
        ('lib/python/treadmill/scheduler/master.py',
         """        identity = self.cell.apps[app].identity
        identity_group_ref""",
         """        identity = getattr(self, '_last_identity', None)
        identity_group_ref""")], 'C05.5'),
]

MUTANTS += [
    ('group-removal-narrowed', [(_S, """                if app.identity_group_ref == ident_group:
""", """                if (app.identity_group_ref == ident_group and
                        app.identity is not None):
""")], 'C05.6'),
    ('group-removal-always', [(_S, """            if not in_use:
                del self.identity_groups[name]
""", """            del self.identity_groups[name]
""")], 'C05.6'),
]

REFACTORS = [
    ('rename-loop-var', [(_S, """            if app.schedule_once and app.evicted:
                app.release_identity()
                continue
""", """            if app.evicted and app.schedule_once:
                app.release_identity()
                _LOGGER.debug('skip %s', app.name)
                continue
""")]),
    ('release-before-log', [(_S, """                _LOGGER.info('App %s is blacklisted', app.name)
                app.release_identity()
""", """                app.release_identity()
                _LOGGER.info('App %s is blacklisted', app.name)
""")]),
    ('nested-if-instead-of-continue', [(_S, """            if not app.acquire_identity():
                _LOGGER.info('Unable to acquire identity: %s, %s', app.name,
                             app.identity_group)
                continue
""", """            acquired = app.acquire_identity()
            if not acquired:
                _LOGGER.info('Unable to acquire identity: %s, %s', app.name,
                             app.identity_group)
                continue
""")]),
    ('release-guard-swapped-operands', [(_S, """        if ident < self.count:
            self.available.add(ident)
""", """        if self.count > ident:
            self.available.add(ident)
""")]),
    ('adjust-grow-with-union', [(_S, """            self.available ^= set(six.moves.xrange(self.count, count))
""", """            self.available |= set(range(self.count, count))
""")]),
    ('adjust-branches-swapped', [(_S, """        if count >= self.count:
            self.available ^= set(six.moves.xrange(self.count, count))
        else:
            self.available -= set(six.moves.xrange(count, self.count))
""", """        if count < self.count:
            self.available -= set(six.moves.xrange(count, self.count))
        else:
            self.available ^= set(six.moves.xrange(self.count, count))
""")]),
    ('group-removal-is', [(_S, """                if app.identity_group_ref == ident_group:
""", """                if ident_group is app.identity_group_ref:
""")]),
    ('helper-releases', [(_S, """            if app.schedule_once and app.evicted:
                app.release_identity()
                continue
""", """            if app.schedule_once and app.evicted:
                self._skip(app)
                continue
"""), (_S, """    def schedule_alloc(self, allocation, servers):""", """    def _skip(self, app):
        \"\"\"Skip app in this cycle.\"\"\"
        _LOGGER.debug('skip %s', app.name)
        app.release_identity()

    def schedule_alloc(self, allocation, servers):""")]),
]

_LD = 'lib/python/treadmill/scheduler/loader.py'

# sweep-driven clauses (DESIGN 9.7)
MUTANTS += [
    ('group-in-use-test-inverted', [(_S, """                if app.identity_group_ref == ident_group:
""", """                if app.identity_group_ref != ident_group:
""")], 'C05.6'),
    ('referenced-group-not-shrunk', [(_S, """                    ident_group.adjust(0)
                    in_use = True
""", """                    in_use = True
""")], 'C05.6'),
    ('stale-groups-kept', [(_LD, """        for name in extra:
            self.cell.remove_identity_group(name)
""", """        for name in extra:
            _LOGGER.info('stale identity group: %s', name)
""")], 'C05.6'),
    ('stale-groups-difference-reversed', [(_LD, """        extra = set(self.cell.identity_groups.keys()) - names
""", """        extra = names - set(self.cell.identity_groups.keys())
""")], 'C05.6'),
]

REFACTORS += [
    ('group-in-use-any', [(_S, """            in_use = False
            for app in six.itervalues(self.apps):
                if app.identity_group_ref == ident_group:
                    ident_group.adjust(0)
                    in_use = True
                    break
            if not in_use:
                del self.identity_groups[name]
""", """            in_use = any(app.identity_group_ref == ident_group
                         for app in six.itervalues(self.apps))
            if in_use:
                ident_group.adjust(0)
            else:
                del self.identity_groups[name]
""")]),
    ('stale-groups-difference-method', [(_LD, """        extra = set(self.cell.identity_groups.keys()) - names
""", """        known = set(self.cell.identity_groups.keys())
        extra = known.difference(names)
""")]),
]
