"""C13 - a container is running or in cleanup, never both, and follows the
cache (structural clauses)."""

import ast

from .. import cfg as C
from .. import norm as N
from . import common as K

ACM = 'treadmill.appcfgmgr'


def _link_readers(mod):
    """Names of the routines of a module that read a link target (call
    os.readlink) - by role, whatever they are called."""
    out = set(['readlink'])
    funcs = list(mod.functions.values())
    for cls in mod.classes.values():
        funcs.extend(cls.methods.values())
    for func in funcs:
        if any(K.callee_text(c) == 'os.readlink' for c in K.calls(func.raw)):
            out.add(func.name)
    return out

MON = 'treadmill.monitor'
FIN = 'treadmill.runtime.linux._finish'

EXPLANATION = """
C13.1 KIND over the cleanup directory namespace: every writer's key kind
(instance name / container unique name, inferred from how the key is
computed) is covered by the existence test AppCfgMgr._synchronize uses to
decide 'already in clean-up'; and a container is treated as *running* only
when the instance's running link resolves to that very container.  C13.2
atomic hand-over: _terminate and the monitor's clean-up action move the
running link with one replace(running, cleanup); no unlink+symlink pair.
C13.3 an existing container is reconfigured only in the else of the loop over
the terminal files, whose list includes the terminal files the finish code
reads (exitinfo, aborted, oom).  C13.4 a running container whose cache entry
names that container is not terminated (terminate only under 'not cached or
different container'); _on_created does nothing when the running link
exists.  C13.5 gating: the ready marker is recognised before dot names are
ignored, handlers act only when active.  C13.6 running links are created only
by _configure.  C13.7 nothing placed is dropped by the resync: an entry
leaves the to-configure map only when its own generation is accounted for,
and the final loop configures everything left.
Added by the seeding rounds - C13.1 the generation id depends on ctime (scaled
before truncation), inode and instance, and the running-link clause; C13.3 via
flags and None-results from the file loop; C13.4 a created event configures
only when no running link exists; C13.5 the ready marker is recognised before
dot names are ignored; C13.7 the new generation stays in the to-configure set;
thorough: only the owner modules write running / cleanup links. Fourth round:
C13.3 a container with neither link ends the resync started or handed to
clean-up, and the monitor writes the aborted flag before it moves the running
link.
Sweep: C13.1 a container is started xor handed to clean-up; C13.2 the hand-over and the link resolution tolerate exactly ENOENT; C13.5 the marker and dot tests take the early exit on their positive outcome, a not-ignored event reaches _configure / _terminate, the cache watcher is wired to the three handlers and its queue is processed when the wait reports events; C13.6 _configure answers success only after the running link exists and removes the cache entry before it answers failure.
Fifth round: C13.1 neither gen_uniqueid nor eventfile_unique_name carries a memoising decorator (the same path names another generation after an eviction).
Sixth round: C13.6 only the owner modules write running / cleanup links (whole-package clause, now part of every run).
Seventh round: C13.5 an event popped from the queue reaches the dispatch on its kind on every path (the limit is tested before the pop); the manager starts idle and is activated only by the first synchronisation.
Eighth round: C13.2 the clean-up service removes the clean-up link last (no finish() reachable after the removal); C13.5 an activation is followed by a synchronisation on every path, also when the cache is empty.
Ninth round: C13.3 the container tombstone is consumed on every normal exit of MonitorContainerCleanup.execute (returns True, also when the running link is gone).
Tenth round: C13.7 a container found in clean-up does not consume the cache entry unless the entry names that container (it may be an older generation of an instance placed again; F29, repaired in /repo); C13.1 the link target may be read through a local or a renamed reader.
Does NOT decide interleavings of events with clean-up completion.
"""

ASSUMPTIONS = [
    'appcfg.app_name maps a container unique name to its instance name; '
    'names in running/ are instance names, names in apps/ are container '
    'unique names',
]

MIN_OBLIGATIONS = 20
MIN_PER_RULE = {'C13.1': 4, 'C13.2': 2, 'C13.3': 2, 'C13.4': 2, 'C13.5': 4,
                'C13.6': 1, 'C13.7': 3}


class Kinds(object):
    """Key-kind inference inside one function."""

    def __init__(self, func, seeds=None):
        self.func = func
        self.defs = {}
        for sub in K.walk_no_nested(func.node):
            if isinstance(sub, ast.Assign) and len(sub.targets) == 1 and \
                    isinstance(sub.targets[0], ast.Name):
                self.defs.setdefault(sub.targets[0].id, []).append(
                    sub.value)
        self.loopvars = {}
        for sub in K.walk_no_nested(func.node):
            if isinstance(sub, ast.For) and isinstance(sub.target,
                                                       ast.Name):
                self.loopvars[sub.target.id] = sub.iter
        self.seeds = seeds or {}

    def kind(self, expr, depth=0):
        if depth > 6 or expr is None:
            return None
        txt = N.txt(expr)
        if txt in self.seeds:
            return self.seeds[txt]
        if isinstance(expr, ast.Call):
            name = K.callee_text(expr)
            if name.endswith('app_name'):
                return 'instance'
            if name.endswith('eventfile_unique_name'):
                return 'container'
            if name == 'os.path.basename' and expr.args:
                inner = expr.args[0]
                src = self._src(inner, depth)
                if any(r in src for r in _link_readers(self.func.module)):
                    return 'container'
                if 'apps_dir' in src:
                    return 'container'
                if 'cache_dir' in src or 'event_file' in src:
                    return 'instance'
                if 'running_dir' in src:
                    return 'instance'
                return self.kind(inner, depth + 1)
        if isinstance(expr, ast.Name):
            vals = [self.kind(v, depth + 1)
                    for v in self.defs.get(expr.id, [])]
            if expr.id in self.loopvars:
                vals.append(self._iter_kind(self.loopvars[expr.id], depth))
            vals = set(v for v in vals if v)
            if len(vals) == 1:
                return vals.pop()
        return None

    def _src(self, expr, depth):
        if isinstance(expr, ast.Name) and expr.id in self.defs and \
                depth < 6:
            return ' '.join(self._src(v, depth + 1)
                            for v in self.defs[expr.id])
        if isinstance(expr, ast.Name) and expr.id in self.loopvars:
            return N.txt(self.loopvars[expr.id])
        return N.txt(expr)

    def _iter_kind(self, it, depth):
        if isinstance(it, ast.Name) and it.id in self.defs:
            for val in self.defs[it.id]:
                if isinstance(val, (ast.SetComp, ast.ListComp)):
                    kd = self._comp_kind(val, depth)
                    if kd:
                        return kd
                if isinstance(val, ast.DictComp):
                    src = K.rtxt(self.func, val.generators[0].iter)
                    if 'basename' in N.txt(val.key):
                        if 'apps_dir' in src:
                            return 'container'
                        if 'cache_dir' in src or 'running_dir' in src:
                            return 'instance'
        if isinstance(it, (ast.SetComp, ast.ListComp)):
            return self._comp_kind(it, depth)
        if isinstance(it, ast.Call) and it.args and \
                K.callee_text(it).split('.')[-1] in ('iterkeys', 'keys',
                                                     'viewkeys', 'list',
                                                     'sorted'):
            return self._iter_kind(it.args[0], depth)
        return None

    def _comp_kind(self, comp, depth):
        src = K.rtxt(self.func, comp.generators[0].iter)
        elt = N.txt(comp.elt)
        if 'basename' in elt:
            if 'apps_dir' in src:
                return 'container'
            if 'cache_dir' in src or 'running_dir' in src:
                return 'instance'
        return None


def _cleanup_keys(func, kinds):
    """[(call, key expr)] for os.path.join(<x>.cleanup_dir, key)."""
    out = []
    for sub in K.walk_no_nested(func.node):
        if isinstance(sub, ast.Call) and \
                K.callee_text(sub) == 'os.path.join' and \
                len(sub.args) == 2 and \
                N.txt(sub.args[0]).endswith('cleanup_dir'):
            out.append((sub, sub.args[1]))
    return out


def _kinds(ctx, acm):
    index = ctx.index
    sync = acm.methods.get('_synchronize')
    term = acm.methods.get('_terminate')
    ctx.require(sync is not None and term is not None,
                'AppCfgMgr._synchronize / _terminate', rule='C13.1')
    ksync = Kinds(sync)
    kterm = Kinds(term, seeds={term.params()[1]: 'instance'})
    written = {}
    tested = {}
    graph = ctx.cfg(sync)
    # in _synchronize: keys used inside os.path.exists(...) are tests,
    # keys used in symlink calls are writes
    for sub in K.walk_no_nested(sync.node):
        if isinstance(sub, ast.Call) and K.callee_text(sub) in (
                'os.path.exists', 'os.path.islink', 'os.path.lexists'):
            for call, key in _cleanup_keys_in(sub):
                tested[ksync.kind(key)] = sub
        if isinstance(sub, ast.Call) and K.callee_text(sub) in (
                'fs.symlink_safe', 'os.symlink', 'fs.replace',
                'os.rename'):
            for call, key in _cleanup_keys_in(sub):
                written[('AppCfgMgr._synchronize', ksync.kind(key))] = sub
    for call, key in _cleanup_keys(term, kterm):
        written[('AppCfgMgr._terminate', kterm.kind(key))] = call
    mon = index.module(MON, required=False)
    if mon is not None and 'MonitorContainerCleanup' in mon.classes:
        exe = mon.classes['MonitorContainerCleanup'].methods.get('execute')
        if exe is not None:
            kmon = Kinds(exe)
            run_keys = [N.txt(s.args[1]) for s in K.walk_no_nested(exe.node)
                        if isinstance(s, ast.Call) and
                        K.callee_text(s) == 'os.path.join' and
                        len(s.args) == 2 and
                        N.txt(s.args[0]).endswith('running_dir')]
            kmon.seeds = {k: 'instance' for k in run_keys}
            for call, key in _cleanup_keys(exe, kmon):
                written[('MonitorContainerCleanup.execute',
                         kmon.kind(key))] = call
    ctx.require(len(written) >= 2 and tested,
                'cleanup-directory writers (%s) and the existence test' %
                sorted(str(k) for k in written), rule='C13.1')
    for (who, kind), call in sorted(written.items(),
                                    key=lambda kv: str(kv[0])):
        func = {'AppCfgMgr._synchronize': sync,
                'AppCfgMgr._terminate': term}.get(who, sync)
        if kind is None:
            ctx.fail('C13.1', func, call,
                     'cannot infer whether %s keys the cleanup link by '
                     'instance or by container' % who,
                     construct='cleanup key kind of %s' % who)
            continue
        ctx.ob('C13.1', sync, tested.get(kind), kind in tested,
               '%s names cleanup links by %s name; the resync test for '
               "'already in clean-up' looks for %s" % (
                   who, kind, sorted(k for k in tested if k)),
               construct='cleanup key kind %s written by %s' % (kind, who))
    # the running branch is about this very container
    nz = N.Normaliser()
    loops = [n for n in graph.nodes if n.kind == 'for' and
             ksync.kind(n.ast.target) == 'container']
    loop = K.one(loops, 'loop over configured containers in _synchronize')
    cvar = N.txt(loop.ast.target)
    terms = [n for n, c in K.nodes_calling(
        graph, lambda c: K.is_meth(c, '_terminate'))
        if n in K.loop_body_nodes(loop)]
    ctx.require(terms, 'terminate decision in the resync loop', rule='C13.1')

    # locals of the routine (and of helpers spliced into it) by what they
    # are bound to: a term may name the link target through one of them
    bound = {}
    for gn in graph.nodes:
        if gn.kind == 'stmt' and isinstance(gn.ast, ast.Assign) and \
                len(gn.ast.targets) == 1 and \
                isinstance(gn.ast.targets[0], ast.Name):
            bound.setdefault(gn.ast.targets[0].id, []).append(
                N.txt(gn.ast.value))
    readers = _link_readers(acm.module)

    def reads_link(term):
        if any(r in term for r in readers):
            return True
        try:
            names = N.mentions(ast.parse(term, mode='eval').body)
        except SyntaxError:
            return False
        # (every binding reads the link; '' stands for a link that is gone)
        return any(n in bound and any(
            any(r in b for r in readers) for b in bound[n]) and all(
                b in ("''", '""') or any(r in b for r in readers)
                for b in bound[n]) for n in names)

    def same_container(edge):
        for atom in nz.facts_of_edge(edge):
            key = atom.key
            if key[0] == 'cmp' and key[1] == '==':
                terms_ = [t for t, _c in key[2]]
                if cvar in terms_ and any(reads_link(t) for t in terms_):
                    return True
        return False
    for node in terms:
        ok = K.guarded_by(graph, node, same_container, start=loop)
        ctx.ob('C13.1', sync, node, ok,
               'a configured container is handled as the running one only '
               "if the instance's running link resolves to it" if ok else
               "the running link is looked up by instance name only: a "
               'container of another generation is taken for the running '
               'one')
    return sync, term, graph, loop, cvar, ksync


def _cleanup_keys_in(call):
    out = []
    for sub in ast.walk(call):
        if isinstance(sub, ast.Call) and \
                K.callee_text(sub) == 'os.path.join' and \
                len(sub.args) == 2 and \
                N.txt(sub.args[0]).endswith('cleanup_dir'):
            out.append((sub, sub.args[1]))
    return out


def _handover(ctx, acm, term):
    index = ctx.index
    funcs = [term]
    mon = index.module(MON, required=False)
    if mon is not None and 'MonitorContainerCleanup' in mon.classes:
        exe = mon.classes['MonitorContainerCleanup'].methods.get('execute')
        if exe is not None:
            funcs.append(exe)
    for func in funcs:
        defs = {}
        for sub in K.walk_no_nested(func.node):
            if isinstance(sub, ast.Assign) and isinstance(sub.targets[0],
                                                          ast.Name):
                defs[sub.targets[0].id] = N.txt(sub.value)
        reps = [s for s in K.walk_no_nested(func.node)
                if isinstance(s, ast.Call) and
                K.callee_text(s) in ('fs.replace', 'os.replace',
                                     'os.rename')]
        ok = len(reps) == 1 and len(reps[0].args) == 2 and \
            'running_dir' in defs.get(N.txt(reps[0].args[0]), '') and \
            'cleanup_dir' in defs.get(N.txt(reps[0].args[1]), '')
        ctx.ob('C13.2', func, reps[0] if reps else None, ok,
               'the running link is moved into cleanup with one rename',
               construct='replace(running, cleanup)')
        pair = [s for s in K.walk_no_nested(func.node)
                if isinstance(s, ast.Call) and K.callee_text(s) in (
                    'os.unlink', 'os.remove', 'fs.rm_safe', 'os.symlink',
                    'fs.symlink_safe') and s.args and (
                        'running_dir' in defs.get(N.txt(s.args[0]), '') or
                        'cleanup_dir' in defs.get(N.txt(s.args[0]), ''))]
        ctx.ob('C13.2', func, pair[0] if pair else None, not pair,
               'no unlink / symlink pair on the running or cleanup link',
               construct='no two-step hand-over in %s' % func.name)


def _terminal_files(ctx, sync, graph, loop):
    index = ctx.index
    fin = index.module(FIN)
    collect = fin.functions.get('_collect_finish_info')
    ctx.require(collect is not None, '_finish._collect_finish_info')
    read = set()
    for sub in K.walk_no_nested(collect.node):
        if isinstance(sub, ast.Call) and \
                K.callee_text(sub) == 'os.path.join' and \
                len(sub.args) == 2 and isinstance(sub.args[1],
                                                  ast.Constant):
            read.add(sub.args[1].value)
    read.discard('terminated')   # written by _terminate itself, after the
    #                              container was handed to cleanup
    def file_list(expr):
        # a display, or a module constant holding one
        if isinstance(expr, ast.Name):
            expr = sync.module.consts.get(expr.id)
        return expr if isinstance(expr, (ast.List, ast.Tuple)) else None
    inner = [n for n in K.loop_body_nodes(loop) if n.kind == 'for' and
             file_list(n.ast.iter) is not None]
    ctx.require(inner, 'loop over the terminal files in _synchronize',
        rule='C13.3')
    fl = inner[0]
    listed = set(e.value for e in file_list(fl.ast.iter).elts
                 if isinstance(e, ast.Constant))
    ctx.ob('C13.3', sync, fl, read <= listed,
           'terminal files consulted by the resync %s include those the '
           'finish code reads %s' % (sorted(listed), sorted(read)),
           construct='terminal file list')
    confs = [n for n, c in K.nodes_calling(
        graph, lambda c: K.is_meth(c, '_configure'))
        if n in K.loop_body_nodes(loop)]
    ctx.require(confs, 'reconfigure of an existing container', rule='C13.3')
    body = K.loop_body_nodes(fl)
    found = [n for n in body if n.kind == 'test' and
             'exists' in N.txt(n.ast)]
    for node in confs:
        # reachable only after the file loop ran, and on no path on which
        # one of the files was found (flags and None-results of an extracted
        # search are followed)
        ok = K.guarded_by(graph, node, lambda e: e.src is fl, start=loop)
        # from the head of the file loop, taking the 'found' outcome of the
        # first existence test met
        path = K.find_path_cp(
            graph, fl, [node], cut_node=lambda n: n is loop,
            cut_edge=lambda e: (e.src in found and e.kind == 'false') or
            (e.src is fl and e.kind == 'done'), follow_exc=False)
        brk = bool(found) and path is None
        ctx.ob('C13.3', sync, node, ok and brk,
               'an existing container is started again only if none of the '
               'terminal files exists (else-branch of the file loop)')
    tests = [n for n in K.loop_body_nodes(fl) if n.kind == 'test']
    defs = {}
    for sub in K.walk_no_nested(sync.node):
        if isinstance(sub, ast.Assign) and isinstance(sub.targets[0],
                                                      ast.Name):
            defs[sub.targets[0].id] = N.txt(sub.value)
    # the directory tested, whatever the local is called: <apps>/<c>/data
    ok = any('apps_dir' in K.rtxt(sync, t.ast) and
             "'data'" in K.rtxt(sync, t.ast) for t in tests
             if t.ast is not None)
    ctx.ob('C13.3', sync, tests[0] if tests else None, ok,
           "the files are looked up in that container's data directory",
           construct='terminal file directory')


def _cache_map(sync):
    """The local holding {instance: container the cache names}: a dict
    comprehension over the cache directory listing."""
    for sub in K.walk_no_nested(sync.node):
        if isinstance(sub, ast.Assign) and len(sub.targets) == 1 and \
                isinstance(sub.targets[0], ast.Name) and \
                isinstance(sub.value, ast.DictComp) and \
                'cache_dir' in K.rtxt(sync, sub.value):
            return sub.targets[0].id
    return 'cached'


def _started_or_cleaned(ctx, sync, graph, loop):
    """C13.3: a container that is neither running nor in clean-up leaves the
    resync either configured (its _configure call returned true) or handed
    to clean-up - never with neither link (it would sit in apps/ for ever:
    nothing starts it, nothing collects it)."""
    body = K.loop_body_nodes(loop)
    ctests = [n for n in body if n.kind == 'test' and
              'cleanup_dir' in K.test_text(sync, n) and
              'exists' in K.test_text(sync, n)]
    ctx.require(ctests, 'in-cleanup test of the resync', rule='C13.3')
    starts = [e.dst for t in ctests for e in t.succ
              if e.kind == 'false' and e.dst not in ctests]
    handover = [n for n in body if any(
        K.callee_text(c) in ('fs.symlink_safe', 'os.symlink') and c.args and
        'cleanup_dir' in K.rtxt(sync, c.args[0])
        for c in C.node_calls(n))]
    ctx.require(starts and handover, 'start-up branch and clean-up '
                                     'hand-over of the resync', rule='C13.3')

    def configured(edge):
        if edge.kind == 'true' and edge.src in ctests:
            return True         # found in clean-up after all: fine
        return edge.kind == 'true' and edge.src.kind == 'test' and any(
            K.is_meth(c, '_configure') for c in K.test_calls(sync, edge.src))
    # ... and never both: once _configure returned true the container is
    # running, it is not handed to clean-up in the same pass
    for test in [n for n in body if n.kind == 'test' and any(
            K.is_meth(c, '_configure') for c in K.test_calls(sync, n))]:
        for edge in test.succ:
            if edge.kind != 'true':
                continue
            both = K.find_path_cp(graph, edge.dst, handover,
                                  cut_node=lambda n: n is loop,
                                  follow_exc=False) \
                if edge.dst not in handover else [edge.dst]
            ctx.ob('C13.1', sync, test, both is None,
                   'a container that was just started is not handed to '
                   'clean-up as well',
                   path=K.describe(both) if both else None,
                   construct='started xor cleaned')
    for start in starts:
        path = K.find_path_cp(graph, start, [loop],
                              cut_node=lambda n: n in handover,
                              cut_edge=configured, follow_exc=False)
        ctx.ob('C13.3', sync, start, path is None,
               'a container with neither link ends the iteration started '
               '(_configure returned true) or handed to clean-up',
               path=K.describe(path) if path else None,
               construct='started or cleaned')


def _abort_flag_first(ctx):
    """C13.3: the monitor writes the 'aborted' flag into the container's
    data directory - which it finds through the running link - before it
    moves that link to clean-up; afterwards the path no longer leads to the
    container and a restarted manager would start the aborted container
    again."""
    mon = ctx.index.module('treadmill.monitor')
    cls = mon.classes.get('MonitorContainerCleanup')
    ctx.require(cls is not None, 'monitor.MonitorContainerCleanup')
    func = cls.methods.get('execute')
    ctx.require(func is not None, 'MonitorContainerCleanup.execute')
    graph = ctx.cfg(func)
    moves = [n for n, c in K.nodes_calling(
        graph, lambda c: K.callee_text(c) in ('fs.replace', 'os.rename',
                                              'os.replace'))]
    flags = [n for n, c in K.nodes_calling(
        graph, lambda c: K.callee_text(c).endswith('flag_aborted'))]
    ctx.require(moves and flags, 'hand-over and abort flag in execute',
        rule='C13.3')
    # the tombstone of a container is consumed by its hand-over, also when
    # the running link is already gone: every normal exit of execute answers
    # True (a tombstone that is kept names the instance, not the container,
    # and is replayed against the next generation when the monitor restarts)
    rets = [n for n in graph.nodes if n.kind == 'return']
    kept = [r for r in rets if not (
        isinstance(r.ast.value, ast.Constant) and r.ast.value.value is True)]
    falls = K.find_path(graph.entry, [graph.exit],
                        cut_node=lambda n: n in rets, follow_exc=False)
    ctx.ob('C13.3', func, kept[0] if kept else None,
           bool(rets) and not kept and falls is None,
           'the container tombstone is consumed on every normal exit of '
           'execute (returns True, also when the running link is gone)',
           construct='tombstone consumed')
    late = [f for f in flags for m in moves
            if f in C.reach_after(m, edge_ok=None)]
    ctx.ob('C13.3', func, flags[0], not late,
           'the aborted flag is written before the running link is moved '
           'to clean-up', construct='abort flag before hand-over')


def _configure_result(ctx, acm):
    """C13.6: _configure answers True only after it created the running
    link (its callers take True for "running"), and _terminate tolerates
    exactly a running link that is already gone."""
    conf = acm.methods.get('_configure')
    term = acm.methods.get('_terminate')
    ctx.require(conf is not None and term is not None,
                'AppCfgMgr._configure / _terminate')
    cgraph = ctx.cfg(conf)
    links = [n for n in cgraph.nodes if any(
        K.callee_text(c) in ('fs.symlink_safe', 'os.symlink') and c.args and
        'running_dir' in K.rtxt(conf, c.args[0])
        for c in C.node_calls(n))]
    ctx.require(links, 'running link creation in _configure', rule='C13.6')
    rdefs = None
    for ret in [n for n in cgraph.nodes if n.kind == 'return']:
        val = ret.ast.value
        if isinstance(val, ast.Name):
            # the answer of a helper that was spliced in: every value the
            # local can hold here
            rdefs = rdefs or K.reaching_defs(cgraph)
            vals = K.def_values(cgraph, rdefs, ret, val.id)
            if vals and all(isinstance(v, ast.Constant) and not v.value
                            for v in vals):
                continue
        truthy = isinstance(val, ast.Constant) and bool(val.value)
        if val is None or (isinstance(val, ast.Constant) and not truthy):
            continue
        ok = K.guarded_by(cgraph, ret, lambda e: e.src in links and
                          e.kind != 'exc')
        ctx.ob('C13.6', conf, ret, ok,
               '_configure reports success only after the running link was '
               'created', construct='configure success')
    # a manifest that could not be configured (and was reported aborted)
    # leaves the cache: every failure answer is preceded by the removal of
    # the cache entry, or the next resynchronisation starts it again
    def drops_entry(node):
        for c in C.node_calls(node):
            if K.callee_text(c) in ('fs.rm_safe', 'os.unlink', 'os.remove') \
                    and c.args:
                txt = K.rtxt(conf, c.args[0])
                if 'cache_dir' in txt and conf.params()[1] in txt:
                    return True
        return False
    for ret in [n for n in cgraph.nodes if n.kind == 'return']:
        val = ret.ast.value
        if not (val is None or (isinstance(val, ast.Constant) and
                                not val.value)):
            continue
        ok = K.guarded_by(cgraph, ret, lambda e: drops_entry(e.src) and
                          e.kind != 'exc')
        ctx.ob('C13.6', conf, ret, ok,
               'a manifest that cannot be configured is removed from the '
               'cache before _configure answers failure',
               construct='configure failure drops the cache entry')
    for rname in sorted(_link_readers(acm.module) - {'readlink'}):
        res = acm.methods.get(rname)
        if res is not None and any(isinstance(n, ast.Try)
                                   for n in ast.walk(res.raw)):
            K.tolerance_polarity(ctx, 'C13.2', res)
    tgraph = ctx.cfg(term)
    tnz = N.Normaliser()
    for hnode in [n for n in tgraph.nodes if n.kind == 'test' and
                  'errno' in N.txt(n.ast)]:
        atom = tnz.atom(hnode.ast)
        terms = [t for t, _c in atom.key[2]] if atom.key[0] == 'cmp' else []
        if 'errno.ENOENT' not in terms:
            continue
        raises = [n for n in tgraph.nodes if n.kind == 'raise_stmt']
        benign = 'true' if atom.key[1] == '==' else 'false'
        ok = bool(raises) and all(
            not any(r in K.cut_reach(tgraph, e.dst, follow_exc=False)
                    for r in raises)
            for e in hnode.succ if e.kind == benign) and all(
                any(r in K.cut_reach(tgraph, e.dst, follow_exc=False)
                    for r in raises)
                for e in hnode.succ if e.kind not in (benign, 'exc'))
        ctx.ob('C13.2', term, hnode, ok,
               'the hand-over tolerates exactly a running link that is '
               'already gone (ENOENT); any other failure is raised',
               construct='terminate tolerance')


def _keep_running(ctx, acm, sync, graph, loop, cvar, ksync):
    nz = N.Normaliser()
    body = K.loop_body_nodes(loop)
    terms = [n for n, c in K.nodes_calling(
        graph, lambda c: K.is_meth(c, '_terminate')) if n in body]
    cmap = _cache_map(sync)
    for node in terms:
        def differs(edge):
            for atom in nz.facts_of_edge(edge):
                key = atom.key
                if key[0] == 'in' and not key[3] and key[2] == cmap:
                    return True
                if key[0] == 'cmp' and key[1] == '!=' and \
                        cvar in [t for t, _c in key[2]] and any(
                            t.startswith((cmap + '[', cmap + '.get(')) for t, _c in key[2]):
                    return True
            return False
        ctx.ob('C13.4', sync, node, K.guarded_by(graph, node, differs,
                                                 start=loop),
               'a running container is terminated only if the cache does '
               'not name it (not cached, or cached to another container)')
    created = acm.methods.get('_on_created')
    ctx.require(created is not None, 'AppCfgMgr._on_created')
    cgraph = ctx.cfg(created)
    confs = [n for n, c in K.nodes_calling(
        cgraph, lambda c: K.is_meth(c, '_configure'))]
    ctx.require(confs, '_configure in _on_created', rule='C13.4')
    for node in confs:
        ok = K.guarded_by(cgraph, node, lambda e: any(
            a.key[0] == 'truth' and not a.key[2] and
            'islink' in a.key[1] and 'running_dir' in a.key[1]
            for a in nz.facts_of_edge(e)))
        ctx.ob('C13.4', created, node, ok,
               'a created event configures only when no running link '
               'exists')


def _gating(ctx, acm):
    nz = N.Normaliser()
    for fname in ('_on_created', '_on_deleted', '_on_modified'):
        func = acm.methods.get(fname)
        ctx.require(func is not None, 'AppCfgMgr.%s' % fname)
        graph = ctx.cfg(func)
        ready = [n for n in graph.nodes if n.kind == 'test' and
                 'READY_FILE' in N.txt(n.ast)]
        dots = [n for n in graph.nodes if n.kind == 'test' and
                "'.'" in N.txt(n.ast)]
        ctx.require(ready and dots, 'ready / dot tests in %s' % fname,
            rule='C13.5')
        for dot in dots:
            ok = K.guarded_by(graph, dot, lambda e: e.src in ready and
                              e.kind == 'false')
            ctx.ob('C13.5', func, dot, ok,
                   'the ready marker (a dot name) is recognised before dot '
                   'names are ignored')
        # polarity: it is the marker / the dot names that take the early
        # exit - the positive outcome of either test ends the handler (after
        # the first sync for the marker), everything else falls through
        for test, kind in [(t, 'ready') for t in ready] + \
                [(t, 'dot') for t in dots]:
            atom = nz.atom(test.ast)
            pos = atom.key[0] == 'cmp' and atom.key[1] == '=='
            neg = atom.key[0] == 'cmp' and atom.key[1] == '!='
            hit = [e for e in test.succ
                   if (pos and e.kind == 'true') or (neg and e.kind == 'false')]
            acts0 = [n for n, c in K.nodes_calling(
                graph, lambda c: K.is_meth(c, '_configure', '_terminate'))]
            okp = bool(hit) and all(
                not any(a in K.cut_reach(graph, e.dst, follow_exc=False)
                        for a in acts0) for e in hit)
            if kind == 'ready' and fname != '_on_deleted':
                syncs = [n for n, c in K.nodes_calling(
                    graph, lambda c: K.is_meth(c, '_first_sync'))]
                okp = okp and bool(syncs) and all(
                    e.dst in syncs or K.find_path(
                        e.dst, [graph.exit], cut_node=lambda n: n in syncs,
                        follow_exc=False) is None for e in hit) and all(
                            K.guarded_by(graph, s, lambda e2: e2 in hit)
                            for s in syncs)
            ctx.ob('C13.5', func, test, okp,
                   'the %s test takes the early exit on its positive '
                   'outcome%s' % (kind, ' and triggers the first sync' if
                                  kind == 'ready' and fname != '_on_deleted'
                                  else ''),
                   construct='%s test polarity in %s' % (kind, fname))
        if fname == '_on_modified':
            continue
        acts = [n for n, c in K.nodes_calling(
            graph, lambda c: K.is_meth(c, '_configure', '_terminate'))]
        # an event that is not ignored is acted upon: a created entry without
        # a running link is configured, a deleted entry is terminated
        want = '_configure' if fname == '_on_created' else '_terminate'
        wnodes = [n for n, c in K.nodes_calling(
            graph, lambda c: K.is_meth(c, want))]

        def ignoring(edge):
            if edge.src in ready or edge.src in dots:
                atom = nz.atom(edge.src.ast)
                return (atom.key[1] == '==') == (edge.kind == 'true')
            for a in nz.facts_of_edge(edge):
                if a.key[0] == 'is' and 'self._is_active' in a.key[1:3] \
                        and 'False' in a.key[1:3] and a.key[3]:
                    return True
                if a.key[0] == 'truth' and a.key[2] and \
                        'islink' in a.key[1] and 'running_dir' in a.key[1]:
                    return True
            return False
        skipw = K.find_path(graph.entry, [graph.exit],
                            cut_node=lambda n: n in wnodes,
                            cut_edge=ignoring, follow_exc=False)
        ctx.ob('C13.5', func, wnodes[0] if wnodes else None,
               bool(wnodes) and skipw is None,
               'an event that is not ignored (marker, dot name, inactive%s) '
               'reaches %s' % (', running link exists' if
                               fname == '_on_created' else '', want),
               path=K.describe(skipw) if skipw else None,
               construct='%s acts' % fname)
        for node in acts:
            ok = K.guarded_by(graph, node, lambda e: any(
                a.key[0] == 'is' and 'self._is_active' in a.key[1:3] and
                'False' in a.key[1:3] and not a.key[3]
                for a in nz.facts_of_edge(e)) or K.truth_edge(
                    nz, e, 'self._is_active', True))
            ctx.ob('C13.5', func, node, ok,
                   'the handler acts only while the manager is active')
    deleted = acm.methods.get('_on_deleted')
    graph = ctx.cfg(deleted)
    stores = [n for n in graph.nodes if any(
        N.txt(t) == 'self._is_active' for t, _v, _k in K.assigns_attr(n))]
    ok = bool(stores) and all(K.guarded_by(graph, n, lambda e: any(
        a.key[0] == 'cmp' and a.key[1] == '==' and any(
            'READY_FILE' in t for t, _c in a.key[2])
        for a in nz.facts_of_edge(e))) for n in stores) and \
        all(N.txt(v) == 'False' for n in stores
            for _t, v, _k in K.assigns_attr(n))
    ctx.ob('C13.5', deleted, stores[0] if stores else None, ok,
           'deleting the ready marker deactivates the manager',
           construct='deactivate on ready-file removal')
    first = acm.methods.get('_first_sync')
    ctx.require(first is not None, 'AppCfgMgr._first_sync')
    src = ast.unparse(first.node)
    fgraph = ctx.cfg(first)
    syn = [n for n, c in K.nodes_calling(
        fgraph, lambda c: K.is_meth(c, '_synchronize'))]
    fnz = N.Normaliser()
    inactive = all(K.guarded_by(fgraph, s, lambda e: any(
        a.key[0] == 'is' and 'self._is_active' in a.key[1:3] and
        'True' in a.key[1:3] and not a.key[3]
        for a in fnz.facts_of_edge(e))) for s in syn)
    ctx.ob('C13.5', first, None, 'self._is_active = True' in src and
           bool(syn) and inactive,
           'the ready marker activates the manager and triggers a resync',
           construct='activate + resync')


def _wiring(ctx, acm):
    """C13.5: the cache directory is watched, each kind of cache event is
    wired to the handler checked above, and the queued events are processed
    in the service loop - otherwise nothing of the gating is ever run and
    the running links stop following the cache."""
    handlers = {'on_created': '_on_created', 'on_modified': '_on_modified',
                'on_deleted': '_on_deleted'}
    runs = []
    for func in acm.live_methods():
        for sub in K.walk_no_nested(func.node):
            if isinstance(sub, ast.Call) and \
                    K.callee_text(sub).endswith('DirWatcher'):
                runs.append((func, sub))
    ctx.require(runs, 'the directory watcher of AppCfgMgr', rule='C13.5')
    for func, ctor in runs:
        watched = K.rtxt(func, ctor.args[0]) if ctor.args else ''
        ctx.ob('C13.5', func, ctor, watched.endswith('.cache_dir'),
               'the manager watches the cache directory (%s)' % watched,
               construct='watched directory')
        holders = set()
        for sub in K.walk_no_nested(func.node):
            if isinstance(sub, ast.Assign) and sub.value is ctor and \
                    isinstance(sub.targets[0], ast.Name):
                holders.add(sub.targets[0].id)
        wired = {}
        for sub in K.walk_no_nested(func.node):
            if isinstance(sub, ast.Assign) and isinstance(
                    sub.targets[0], ast.Attribute) and \
                    N.txt(sub.targets[0].value) in holders:
                wired.setdefault(sub.targets[0].attr, []).append(
                    K.rtxt(func, sub.value))
        for slot, meth in sorted(handlers.items()):
            ctx.ob('C13.5', func, ctor,
                   wired.get(slot) == ['self.%s' % meth],
                   '%s events go to %s (found %s)' % (slot, meth,
                                                      wired.get(slot)),
                   construct='%s wired' % slot)
        graph = ctx.cfg(func)
        procs = [n for n, c in K.nodes_calling(
            graph, lambda c: K.is_meth(c, 'process_events') and
            K.recv_text(c) in holders)]
        waits = [n for n in graph.nodes if n.kind == 'test' and any(
            K.is_meth(c, 'wait_for_events') and K.recv_text(c) in holders
            for c in K.test_calls(func, n))]
        ctx.require(waits, 'wait for cache events in %s' % func.qualname,
                    rule='C13.5', func=func)
        for wait in waits:
            hit = [e for e in wait.succ if e.kind == 'true']
            ok = bool(procs) and all(
                e.dst in procs or K.find_path(
                    e.dst, [wait, graph.exit],
                    cut_node=lambda n: n in procs,
                    follow_exc=False) is None for e in hit)
            ctx.ob('C13.5', func, wait, ok,
                   'pending cache events are processed whenever the wait '
                   'reports some',
                   construct='cache events processed')


def _starts_idle(ctx, acm):
    """C13.5: the manager becomes active only through the first
    synchronisation: `_is_active` is set True by _first_sync alone and the
    service loop starts with it False - a manager that starts active (the
    ready marker is already there after a restart) never reconciles the
    running links with what the cache became while it was down."""
    stores = []
    for func in acm.live_methods():
        for sub in K.walk_no_nested(func.raw):
            if isinstance(sub, ast.Assign) and any(
                    N.txt(t) == 'self._is_active' for t in sub.targets):
                stores.append((func, sub))
    ctx.require(stores, 'stores of AppCfgMgr._is_active', rule='C13.5')
    for func, sub in stores:
        val = sub.value
        const = isinstance(val, ast.Constant) and isinstance(val.value, bool)
        ok = const and (val.value is False or func.name == '_first_sync')
        ctx.ob('C13.5', func, sub, ok,
               '_is_active is set to a constant, True only by _first_sync '
               '(%s in %s)' % (N.txt(val), func.name),
               construct='activation only through the first sync')
    # ... and an activation always synchronises, whatever the cache holds:
    # an empty cache is exactly the case in which every running container
    # has to be handed to clean-up
    for func, sub in stores:
        if not (isinstance(sub.value, ast.Constant) and
                sub.value.value is True):
            continue
        fgraph = ctx.cfg(func)
        at = [n for n in fgraph.nodes if n.kind == 'stmt' and
              isinstance(n.ast, ast.Assign) and any(
                  N.txt(t) == 'self._is_active' for t in n.ast.targets) and
              isinstance(n.ast.value, ast.Constant) and
              n.ast.value.value is True]
        syncs = [n for n, _c in K.nodes_calling(
            fgraph, lambda c: K.is_meth(c, '_synchronize') and
            K.recv_text(c) == 'self')]
        for node in at:
            path = K.find_path(node, [fgraph.exit],
                               cut_node=lambda n: n in syncs,
                               follow_exc=False)
            ctx.ob('C13.5', func, node, bool(syncs) and path is None,
                   'an activation is followed by a synchronisation on every '
                   'path (also when the cache is empty)',
                   path=K.describe(path) if path else None,
                   construct='activation always synchronises')
    run = acm.methods.get('run')
    ctx.require(run is not None, 'AppCfgMgr.run', rule='C13.5')
    first = [sub for f, sub in stores if f is run]
    ctx.ob('C13.5', run, first[0] if first else None,
           bool(first) and all(isinstance(s.value, ast.Constant) and
                               s.value.value is False for s in first),
           'the service loop starts idle', construct='manager starts idle')


def _queue_dispatch(ctx):
    """C13.5: an event taken off the watcher's queue is dispatched: after the
    pop, every path of the iteration reaches the comparison of the event
    with the kinds the handlers are registered for (an event popped and then
    dropped - at the batch limit, say - is a created or deleted manifest the
    manager never hears of)."""
    mod = ctx.index.module('treadmill.dirwatch.dirwatch_base')
    cls = mod.classes.get('DirWatcher') if mod else None
    func = cls.methods.get('process_events') if cls else None
    ctx.require(func is not None, 'DirWatcher.process_events', rule='C13.5')
    graph = ctx.cfg(func)
    pops = [n for n, c in K.nodes_calling(
        graph, lambda c: K.is_meth(c, 'popleft', 'pop') and
        'event_list' in (K.recv_text(c) or ''))]
    ctx.require(pops, 'the pop of the event queue', rule='C13.5', func=func)
    kinds = [n for n in graph.nodes if n.kind == 'test' and
             n.ast is not None and 'DirWatcherEvent.' in N.txt(n.ast) and
             'MORE_PENDING' not in N.txt(n.ast)]
    ctx.require(kinds, 'the dispatch on the event kind', rule='C13.5',
                func=func)
    for node in pops:
        loop = K.enclosing_for(graph, node)
        heads = [n for n in graph.nodes if n.kind == 'loop_head' and
                 node in K.loop_body_nodes(n)]
        stops = [graph.exit] + heads + ([loop] if loop is not None else [])
        skip = K.find_path(node, stops, cut_node=lambda n: n in kinds,
                           follow_exc=False)
        ctx.ob('C13.5', func, node, skip is None,
               'an event popped from the queue reaches the dispatch on its '
               'kind on every path', path=K.describe(skip) if skip else None,
               construct='popped event dispatched')


def _running_owner(ctx, acm):
    mod = acm.module
    n = 0
    for func in mod.live_functions():
        defs = {}
        for sub in K.walk_no_nested(func.node):
            if isinstance(sub, ast.Assign) and isinstance(sub.targets[0],
                                                          ast.Name):
                defs[sub.targets[0].id] = N.txt(sub.value)
        for sub in K.walk_no_nested(func.node):
            if isinstance(sub, ast.Call) and K.callee_text(sub) in (
                    'fs.symlink_safe', 'os.symlink') and sub.args:
                first = N.txt(sub.args[0])
                first = defs.get(first, first)
                if 'running_dir' in first:
                    n += 1
                    ctx.ob('C13.6', func, sub, func.name == '_configure',
                           'running links are created only by _configure')
            if isinstance(sub, ast.Call) and K.callee_text(sub) in (
                    'fs.replace', 'os.rename', 'os.replace') and \
                    len(sub.args) == 2:
                second = defs.get(N.txt(sub.args[1]), N.txt(sub.args[1]))
                if 'running_dir' in second:
                    n += 1
                    ctx.fail('C13.6', func, sub, 'a link is renamed into '
                                                 'the running directory')
    ctx.require(n >= 1, 'creation of running links', rule='C13.6')


def _nothing_dropped(ctx, sync, graph, loop, cvar):
    nz = N.Normaliser()
    body = K.loop_body_nodes(loop)
    cmap = _cache_map(sync)
    pops = [n for n, c in K.nodes_calling(
        graph, lambda c: K.is_meth(c, 'pop') and K.recv_text(c) == cmap)
        if n in body]
    pops += [n for n in body if n.kind == 'stmt' and
             isinstance(n.ast, ast.Delete) and
             cmap + '[' in N.txt(n.ast)]
    ctx.require(pops, 'removal from the to-configure map', rule='C13.7')

    def accounted(edge):
        for atom in nz.facts_of_edge(edge):
            key = atom.key
            if key[0] == 'cmp' and key[1] == '==' and \
                    cvar in [t for t, _c in key[2]] and any(
                        t.startswith((cmap + '[', cmap + '.get(')) for t, _c in key[2]):
                return True
        return False
    for node in pops:
        ok = K.guarded_by(graph, node, accounted, start=loop)
        ctx.ob('C13.7', sync, node, ok,
               'an entry leaves the to-configure map only when the '
               'container it names is the one being handled (a container '
               'in clean-up may be an older generation of the instance '
               'the entry places)' if ok else
               'the cache entry is dropped although it names another '
               'generation: the placed instance would never be configured')
    finals = [n for n in graph.nodes if n.kind == 'for' and n is not loop
              and n not in body and cmap in N.mentions(n.ast.iter)]
    ctx.ob('C13.7', sync, finals[0] if finals else None,
           len(finals) == 1 and not finals[0].ast.iter is None,
           'a final loop ranges over everything left in the map',
           construct='final configure loop')
    for fl in finals:
        fbody = K.loop_body_nodes(fl)
        var = sorted(N.for_targets(fl))[0]
        confs = [n for n in fbody for c in C.node_calls(n)
                 if K.is_meth(c, '_configure') and c.args and
                 N.txt(c.args[0]) == var]
        # an iteration may end early only after its configure call (the
        # path search below); the loop itself must not be left early
        skips = [e for e in K.loop_exit_edges(fl)
                 if e.kind not in ('done', 'exc')]
        path = K.find_path(fl, [fl], cut_node=lambda n: n in confs,
                           cut_edge=lambda e, f=fl: e.src is f and
                           e.kind == 'done', follow_exc=False)
        ctx.ob('C13.7', sync, fl, bool(confs) and path is None and
               not skips,
               'every remaining entry is configured',
               construct='final loop configures each entry')
        ok = K.guarded_by(graph, fl, lambda e: e.src is loop and
                          e.kind == 'done')
        ctx.ob('C13.7', sync, fl, ok,
               'the final loop runs after all configured containers were '
               'visited', construct='final loop after the container loop')


def _generation_id(ctx):
    """Two generations of one instance get different container names: the
    generation id folds the event file's change time at sub-second
    resolution, its inode and the instance number."""
    from ..index import try_fold
    mod = ctx.index.module('treadmill.appcfg')
    func = mod.functions.get('gen_uniqueid')
    ctx.require(func is not None, 'appcfg.gen_uniqueid')
    # the id is read from the file as it is now, at every call: the same
    # path names another generation once the instance was evicted and
    # placed again, so neither routine may answer from a memo keyed by path
    for fname in ('gen_uniqueid', 'eventfile_unique_name'):
        fobj = mod.functions.get(fname)
        if fobj is None:
            continue
        memo = [N.txt(d) for d in fobj.decorators()
                if any(w in N.txt(d).lower()
                       for w in ('cache', 'memo', 'lru'))]
        ctx.ob('C13.1', fobj, None, not memo,
               '%s is evaluated on every call (no memoising decorator%s)'
               % (fname, ': %s' % memo if memo else ''),
               construct='%s not memoised' % fname)
    defs = {}
    for sub in K.walk_no_nested(func.node):
        tgt = None
        if isinstance(sub, ast.Assign) and len(sub.targets) == 1:
            tgt = sub.targets[0]
        elif isinstance(sub, ast.AugAssign):
            tgt = sub.target
        if tgt is None:
            continue
        names = [tgt.id] if isinstance(tgt, ast.Name) else [
            e.id for e in getattr(tgt, 'elts', [])
            if isinstance(e, ast.Name)]
        for name in names:
            defs.setdefault(name, []).append(sub.value)

    def sources(expr, seen):
        out = set()
        for sub in ast.walk(expr):
            if isinstance(sub, ast.Attribute) and \
                    sub.attr.startswith('st_'):
                out.add(sub.attr)
            if isinstance(sub, ast.Name):
                if sub.id in func.params():
                    out.add('param:' + sub.id)
                if sub.id in defs and sub.id not in seen:
                    seen.add(sub.id)
                    for val in defs[sub.id]:
                        out |= sources(val, seen)
        return out
    rets = [sub for sub in K.walk_no_nested(func.node)
            if isinstance(sub, ast.Return) and sub.value is not None]
    ctx.require(rets, 'return of gen_uniqueid', rule='C13.1')
    for ret in rets:
        src = sources(ret.value, set())
        times = src & {'st_ctime', 'st_ctime_ns', 'st_mtime', 'st_mtime_ns'}
        ok = bool(times) and 'st_ino' in src and \
            any(s.startswith('param:') for s in src)
        ctx.ob('C13.1', func, ret, ok,
               'the generation id depends on the event file change time, '
               'its inode and its name (sources: %s)' % sorted(src),
               construct='generation id sources')
    # resolution of the time component
    for name, vals in sorted(defs.items()):
        for val in vals:
            for sub in ast.walk(val):
                if not (isinstance(sub, ast.Attribute) and
                        sub.attr in ('st_ctime', 'st_mtime')):
                    continue
                ok = _scaled_before_truncation(ctx, mod, val, sub)
                ctx.ob('C13.1', func, val, ok,
                       'the change time is scaled to sub-second units '
                       'before it is truncated to an integer: %s = %s' % (
                           name, N.txt(val)),
                       construct='generation id time resolution')


def _scaled_before_truncation(ctx, mod, root, leaf):
    from ..index import try_fold
    parents = {}
    for node in ast.walk(root):
        for child in ast.iter_child_nodes(node):
            parents[child] = node
    cur = leaf
    scale = 1
    while cur in parents:
        par = parents[cur]
        if isinstance(par, ast.BinOp) and isinstance(par.op, ast.Mult):
            other = par.right if par.left is cur else par.left
            val = try_fold(ctx.index, mod, other)
            if isinstance(val, (int, float)) and val > 0:
                scale *= val
        elif isinstance(par, ast.BinOp) and isinstance(par.op, ast.FloorDiv):
            return scale >= 1000
        elif isinstance(par, ast.Call) and N.txt(par.func) in (
                'int', 'round', 'math.floor', 'math.trunc', 'math.ceil'):
            return scale >= 1000
        cur = par
    return True


def _owner_package(ctx):
    """Thorough tier: over the whole package the running and clean-up
    link directories of the node are changed only by the configuration
    manager, the monitor's clean-up action and the clean-up service."""
    def other_env(func, call):
        # the spawn tree has directories of the same names under its own
        # root (self.paths.*), unrelated to the node's app environment
        return func.module.name.startswith('treadmill.spawn')
    K.owner_clause(ctx, 'C13.6', 'running_dir',
                   {(ACM, 'AppCfgMgr'): None,
                    (MON, 'MonitorContainerCleanup'): None},
                   'the running-link directory', minimum=2,
                   ignore=other_env)
    K.owner_clause(ctx, 'C13.2', 'cleanup_dir',
                   {(ACM, 'AppCfgMgr'): None,
                    (MON, 'MonitorContainerCleanup'): None,
                    ('treadmill.cleanup', 'Cleanup'): None},
                   'the clean-up link directory', minimum=2,
                   ignore=other_env)


def _cleanup_link_last(ctx):
    """C13.2: the clean-up link is the only mark that says "this container
    is being cleaned up" - the resynchronisation of the configuration
    manager reads it to tell such a container from one that never started.
    The clean-up service therefore removes the link last: nothing of the
    clean-up (the runtime's finish) runs after the removal."""
    mod = ctx.index.module('treadmill.cleanup')
    cls = mod.classes.get('Cleanup')
    ctx.require(cls is not None, 'cleanup.Cleanup', rule='C13.2')
    sites = 0
    for func in cls.live_methods():
        if not any(K.is_meth(c, 'finish') for c in K.calls(func.node)):
            continue
        graph = ctx.cfg(func)
        removals = []
        for node, call in K.nodes_calling(
                graph, lambda c: K.callee_text(c) in (
                    'fs.rm_safe', 'os.unlink', 'os.remove') and c.args):
            if 'cleanup_dir' in K.rtxt(func, call.args[0]):
                removals.append(node)
        finishes = [n for n, _c in K.nodes_calling(
            graph, lambda c: K.is_meth(c, 'finish'))]
        ctx.require(removals, 'removal of the clean-up link in %s' %
                    func.qualname, rule='C13.2', func=func)
        for node in removals:
            sites += 1
            after = C.reach_after(node, edge_ok=C.no_exc)
            late = [f for f in finishes if f in after]
            ctx.ob('C13.2', func, node, not late,
                   'the clean-up link is removed after the clean-up has run '
                   '(no finish() is reachable after the removal)',
                   construct='clean-up link removed last')
    ctx.require(sites >= 1, 'routine of Cleanup that runs finish() and '
                'removes the link', rule='C13.2')


def check(ctx):
    _cleanup_link_last(ctx)
    # whole-package OWNER clauses: cheap enough for every run (one parse of
    # the package, a text prefilter per module)
    _owner_package(ctx)
    _generation_id(ctx)
    # shared with C15.2: container name <-> instance name mapping
    # (appcfg.app_name / _fmt_unique_name / gen_uniqueid)
    from . import c15
    with ctx.shared({'C15': 'C13.1'}):
        c15._unique(ctx)
    acm = ctx.index.get_class(ACM, 'AppCfgMgr')
    sync, term, graph, loop, cvar, ksync = _kinds(ctx, acm)
    _handover(ctx, acm, term)
    _terminal_files(ctx, sync, graph, loop)
    _started_or_cleaned(ctx, sync, graph, loop)
    _abort_flag_first(ctx)
    _configure_result(ctx, acm)
    _keep_running(ctx, acm, sync, graph, loop, cvar, ksync)
    _gating(ctx, acm)
    _wiring(ctx, acm)
    _queue_dispatch(ctx)
    _starts_idle(ctx, acm)
    _running_owner(ctx, acm)
    _nothing_dropped(ctx, sync, graph, loop, cvar)


_A = 'lib/python/treadmill/appcfgmgr.py'
_MO = 'lib/python/treadmill/monitor.py'

MUTANTS = [
    ('revert-F29-cleanup-branch-drops-entry-of-newer-generation', [(_A, """                if cached.get(appname) == container:
                    cached.pop(appname, None)
""", """                cached.pop(appname, None)
""")], 'C13.7'),
    ('foreign-writer-of-the-running-dir', [('lib/python/treadmill/cleanup.py', '        cleanup_link = os.path.join(self.tm_env.cleanup_dir, instance)\n        try:\n            container_dir = os.readlink(cleanup_link)\n', '        cleanup_link = os.path.join(self.tm_env.cleanup_dir, instance)\n        fs.rm_safe(os.path.join(self.tm_env.running_dir, instance))\n        try:\n            container_dir = os.readlink(cleanup_link)\n')], 'C13.6'),
    ('cleanup-test-instance-only', [(_A, """            elif (os.path.exists(os.path.join(self.tm_env.cleanup_dir,
                                              appname)) or
                  os.path.exists(os.path.join(self.tm_env.cleanup_dir,
                                              container))):
""", """            elif os.path.exists(os.path.join(self.tm_env.cleanup_dir,
                                             appname)):
""")], 'C13.1'),
    ('cleanup-test-container-only', [(_A, """            elif (os.path.exists(os.path.join(self.tm_env.cleanup_dir,
                                              appname)) or
                  os.path.exists(os.path.join(self.tm_env.cleanup_dir,
                                              container))):
""", """            elif os.path.exists(os.path.join(self.tm_env.cleanup_dir,
                                             container)):
""")], 'C13.1'),
    ('running-test-by-instance', [(_A, """            if (os.path.exists(running_link) and
                    os.path.basename(
                        self._resolve_running_link(running_link)
                    ) == container):
""", """            if os.path.exists(running_link):
""")], 'C13.1'),
    ('terminate-two-steps', [(_A, """            fs.replace(instance_run_link, container_cleanup_link)
""", """            fs.symlink_safe(container_cleanup_link, container_dir)
            fs.rm_safe(instance_run_link)
""")], 'C13.2'),
    ('monitor-two-steps', [(_MO, """            fs.replace(running, cleanup)
""", """            fs.symlink_safe(cleanup, os.readlink(running))
            os.unlink(running)
""")], 'C13.2'),
    ('oom-not-terminal', [(_A, """                    for cleanup_file in ['exitinfo', 'aborted', 'oom']:
""", """                    for cleanup_file in ['exitinfo', 'aborted']:
""")], 'C13.3'),
    ('reconfigure-despite-terminal-file', [(_A, """                        if os.path.exists(path):
                            _LOGGER.debug('Found cleanup file %r', path)
                            break
                    else:
                        if self._configure(appname):
                            needs_cleanup = False
                            _LOGGER.debug('Added existing app %r', appname)
""", """                        if os.path.exists(path):
                            _LOGGER.debug('Found cleanup file %r', path)
                            break
                    if self._configure(appname):
                        needs_cleanup = False
                        _LOGGER.debug('Added existing app %r', appname)
""")], 'C13.3'),
    ('terminate-always', [(_A, """                if appname not in cached or cached[appname] != container:
                    self._terminate(appname)
                else:
                    _LOGGER.info('Ignoring %s as it is running', appname)
                    cached.pop(appname, None)
""", """                self._terminate(appname)
""")], 'C13.4'),
    ('terminate-when-cached', [(_A, """                if appname not in cached or cached[appname] != container:
""", """                if appname in cached:
""")], 'C13.4'),
    ('created-reconfigures-running', [(_A, """        elif os.path.islink(os.path.join(self.tm_env.running_dir,
                                         instance_name)):
            _LOGGER.warning('Event on already configured %r',
                            instance_name)
            return

""", "")], 'C13.4'),
    ('deleted-dot-before-ready', [(_A, """        instance_name = os.path.basename(event_file)
        if instance_name == eventmgr.READY_FILE:
            _LOGGER.info('Cache folder not ready.'
                         ' Stopping processing of events.')
            self._is_active = False
            return

        elif instance_name[0] == '.':
            # Ignore all dot files
            return

        elif self._is_active is False:
            # Ignore all deleted events while we are not running""", """        instance_name = os.path.basename(event_file)
        if instance_name[0] == '.':
            # Ignore all dot files
            return

        elif instance_name == eventmgr.READY_FILE:
            _LOGGER.info('Cache folder not ready.'
                         ' Stopping processing of events.')
            self._is_active = False
            return

        elif self._is_active is False:
            # Ignore all deleted events while we are not running""")], 'C13.5'),
    ('deleted-acts-when-inactive', [(_A, """        elif self._is_active is False:
            # Ignore all deleted events while we are not running
            _LOGGER.debug('Inactive in deleted event handler.')
            return

        else:
            self._terminate(instance_name)""", """        else:
            self._terminate(instance_name)""")], 'C13.5'),
    ('running-link-by-sync', [(_A, """                if needs_cleanup:
                    fs.symlink_safe(
                        os.path.join(self.tm_env.cleanup_dir, appname),
""", """                if needs_cleanup and appname in cached:
                    fs.symlink_safe(
                        os.path.join(self.tm_env.running_dir, appname),
                        os.path.join(self.tm_env.apps_dir, container)
                    )
                elif needs_cleanup:
                    fs.symlink_safe(
                        os.path.join(self.tm_env.cleanup_dir, appname),
""")], 'C13.6'),
    ('pop-after-terminate', [(_A, """                else:
                    _LOGGER.info('Ignoring %s as it is running', appname)
                    cached.pop(appname, None)
""", """                else:
                    _LOGGER.info('Ignoring %s as it is running', appname)

                cached.pop(appname, None)
""")], 'C13.7'),
    ('pop-any-generation', [(_A, """                needs_cleanup = True
                if appname in cached and cached[appname] == container:
""", """                needs_cleanup = True
                if appname in cached:
""")], 'C13.7'),
    ('final-loop-skips', [(_A, """        for appname in six.iterkeys(cached):
            if self._configure(appname):
""", """        for appname in six.iterkeys(cached):
            if appname in configured:
                continue
            if self._configure(appname):
""")], 'C13.7'),
]

REFACTORS = [
    ('terminate-condition-rewritten', [(_A, """                if appname not in cached or cached[appname] != container:
                    self._terminate(appname)
                else:
                    _LOGGER.info('Ignoring %s as it is running', appname)
                    cached.pop(appname, None)
""", """                if appname in cached and cached[appname] == container:
                    _LOGGER.info('Ignoring %s as it is running', appname)
                    cached.pop(appname, None)
                else:
                    self._terminate(appname)
""")]),
    ('cleanup-tests-swapped', [(_A, """            elif (os.path.exists(os.path.join(self.tm_env.cleanup_dir,
                                              appname)) or
                  os.path.exists(os.path.join(self.tm_env.cleanup_dir,
                                              container))):
""", """            elif (os.path.exists(os.path.join(self.tm_env.cleanup_dir,
                                              container)) or
                  os.path.exists(os.path.join(self.tm_env.cleanup_dir,
                                              appname))):
""")]),
    ('log-text-changed', [(_A, """                    _LOGGER.info('Ignoring %s as it is running', appname)
""", """                    _LOGGER.info('Keeping %s', appname)
""")]),
    ('terminal-list-extended', [(_A, """                    for cleanup_file in ['exitinfo', 'aborted', 'oom']:
""", """                    for cleanup_file in ['exitinfo', 'aborted', 'oom',
                                         'terminated']:
""")]),
]

# sweep-driven clauses (DESIGN 9.7)
MUTANTS += [
    ('deleted-events-not-wired', [(_A, """        watch.on_deleted = self._on_deleted
""", """        watch.on_deleted = self._on_modified
""")], 'C13.5'),
    ('cache-events-not-processed', [(_A, """                watch.process_events(max_events=5)
""", """                _LOGGER.debug('cache events pending')
""")], 'C13.5'),
    ('failed-configure-stays-cached', [(_A, """                    # configure step failed, skip.
                    fs.rm_safe(event_file)
""", """                    # configure step failed, skip.
""")], 'C13.6'),
    ('aborted-configure-stays-cached', [(_A, """                                         why=err.reason,
                                         payload=traceback.format_exc())
                fs.rm_safe(event_file)
""", """                                         why=err.reason,
                                         payload=traceback.format_exc())
""")], 'C13.6'),
]

REFACTORS += [
    ('watcher-local-renamed', [(_A, """        watch = dirwatch.DirWatcher(self.tm_env.cache_dir)
        watch.on_created = self._on_created
        watch.on_modified = self._on_modified
        watch.on_deleted = self._on_deleted
""", """        cache_dir = self.tm_env.cache_dir
        watch = dirwatch.DirWatcher(cache_dir)
        watch.on_deleted = self._on_deleted
        watch.on_created = self._on_created
        watch.on_modified = self._on_modified
""")]),
]
