"""C14 - node VIPs, firewall rule files and endpoint specs have exactly one
owner (structural clauses; siblings VipMgr / RuleMgr / EndpointsMgr)."""

import ast

from .. import cfg as C
from .. import norm as N
from . import common as K

VIP = 'treadmill.vipfile'
RULE = 'treadmill.rulefile'
EP = 'treadmill.endpoints'
NET = 'treadmill.services.network_service'

EXPLANATION = """
C14.1 exclusive create: ownership links are created with os.symlink (fails
when the name exists); the create routines contain no replacing primitive
(symlink_safe, rename, replace, unlink) and the EEXIST handler gives up
(returns false / re-raises) unless the recorded owner is the caller.  C14.2
owner-only release: every os.unlink of the release routines is dominated by
*equality* of the link's recorded owner (basename of readlink) with the
caller's owner (the owner-less regular-file mode of endpoints excepted by
name).  C14.3 garbage collection unlinks only inside the ENOENT handler of
os.stat(link) (stat follows the link: the owner is gone), in all three
collectors.  C14.4 every address reaching VipMgr._alloc is checked `in
self._cidr` or drawn from self._cidr.hosts().  C14.5 the network service
allocates only for a request it does not know yet and frees with the same
owner key it allocated with.  C14.6 the base path and the owner path, which
relpath() combines into the link target, are canonicalised by the same
function.  The EEXIST comparison operand of the three managers is reported as
a sibling deviation note, not a violation.
Added by the seeding rounds - C14.1 create routines use no replacing
primitive; C14.2 VipMgr.initialize removes only addresses of its own network;
C14.4 the candidate address is drawn from or checked against the configured
network before _alloc; C14.5 the request is forgotten before its address is
freed and freed with the same owner key; C14.6 base and owner path are
canonicalised by the same function.
Sweep: C14.1 / C14.2 / C14.5 every errno test in the managers and the network service tolerates exactly its benign code; C14.3 synchronize ends with the collector; C14.4 alloc hands out an address only after _alloc succeeded for it.
Sixth round: C14.4 an address given back by the network service is also dropped from its remembered devices.
Seventh round: C14.1 on EEXIST the routine gives up unless the recorded owner (the basename the link resolves to) equals the caller's owner parameter itself - no derived or partial comparison.
Eighth round: C14.2 every unlink_all of the runtime package names the container as owner.
Tenth round: C14.1 the owner an existing link is compared with on EEXIST is the parameter the new link is made to point at (sibling agreement of the three create routines; F31: create_spec compared with the instance name, repaired in /repo); C14.4 the claimer of the address manager is found by role.
Does NOT decide reachable-state invariants under concurrent owners.
"""

ASSUMPTIONS = [
    'os.symlink fails with EEXIST when the name exists; os.stat follows '
    'symbolic links and fails with ENOENT on a dangling link',
]

MIN_OBLIGATIONS = 22
MIN_PER_RULE = {'C14.1': 6, 'C14.2': 4, 'C14.3': 6, 'C14.4': 2, 'C14.5': 3,
                'C14.6': 2}

_REPLACERS = ('fs.symlink_safe', 'os.replace', 'os.rename', 'fs.replace',
              'os.unlink', 'os.remove', 'fs.rm_safe', 'shutil.move')


def _managers(ctx):
    index = ctx.index
    vip = index.get_class(VIP, 'VipMgr')
    rule = index.get_class(RULE, 'RuleMgr')
    epm = index.get_class(EP, 'EndpointsMgr')
    return vip, rule, epm


def _local_defs(func):
    out = {}
    for sub in K.walk_no_nested(func.node):
        if isinstance(sub, ast.Assign) and len(sub.targets) == 1 and \
                isinstance(sub.targets[0], ast.Name):
            out.setdefault(sub.targets[0].id, []).append(sub.value)
    return out


def _create(ctx, vip, rule, epm):
    nz = N.Normaliser()
    creators = []
    for cls in (vip, rule, epm):
        for func in cls.live_methods():
            if any(isinstance(s, ast.Call) and
                   K.callee_text(s) in ('os.symlink', 'fs.symlink_safe',
                                        'os.link')
                   for s in K.walk_no_nested(func.node)):
                creators.append(func)
    ctx.require(len(creators) >= 3, 'create routines of the three managers '
                                    '(found %d)' % len(creators), rule='C14.1')
    notes = []
    for func in creators:
        graph = ctx.cfg(func)
        links = [s for s in K.walk_no_nested(func.node)
                 if isinstance(s, ast.Call) and K.callee_text(s) in (
                     'os.symlink', 'fs.symlink_safe', 'os.link')]
        ctx.ob('C14.1', func, links[0], all(
            K.callee_text(s) == 'os.symlink' for s in links),
               'the ownership link is created with os.symlink, which fails '
               'when the name is taken',
               construct='exclusive create primitive in %s' %
               func.qualname)
        bad = [s for s in K.walk_no_nested(func.node)
               if isinstance(s, ast.Call) and
               K.callee_text(s) in _REPLACERS]
        ctx.ob('C14.1', func, bad[0] if bad else None, not bad,
               'the create routine has no replacing primitive (found %s)' %
               [K.callee_text(b) for b in bad],
               construct='no replace in %s' % func.qualname)
        # EEXIST handler
        tests = [n for n in graph.nodes if n.kind == 'test' and
                 'EEXIST' in K.test_text(func, n)]
        ctx.ob('C14.1', func, tests[0] if tests else None, bool(tests),
               'the create routine handles EEXIST explicitly',
               construct='EEXIST handler of %s' % func.qualname)
        defs = _local_defs(func)
        # the parameter(s) the new link is made to point at: "the caller"
        # of the tolerance below is *that* owner, not any parameter (the
        # instance name a spec is filed under is not its owner)
        linked = set()
        for lk in links:
            if lk.args:
                todo = [lk.args[0]]
                seen_ = set()
                while todo:
                    cur = todo.pop()
                    for nm in N.mentions(cur):
                        if nm in func.params():
                            linked.add(nm)
                        elif nm in defs and nm not in seen_:
                            seen_.add(nm)
                            todo.extend(defs[nm])
        for test in tests:
            for edge in test.succ:
                if edge.kind != 'true':
                    continue
                # from the EEXIST branch the normal exit is reached only by
                # (a) return False, or (b) the false edge of an
                # `existing_owner != <caller>` test
                def same_owner(e, func=func, defs=defs, linked=linked):
                    # <what the existing link records> == <a parameter of
                    # the routine>, both as they are (a comparison of parts
                    # of them - the instance without the container id -
                    # takes a link of another container for the caller's)
                    params = set(func.params()) & linked if linked \
                        else set(func.params())
                    for atom in nz.facts_of_edge(e):
                        if not (atom.key[0] == 'cmp' and
                                atom.key[1] == '==' and
                                len(atom.key[2]) == 2):
                            continue
                        terms = [t for t, _c in atom.key[2]]
                        exp = []
                        for t in terms:
                            if t in defs and len(defs[t]) == 1:
                                exp.append(N.txt(defs[t][0]))
                            else:
                                exp.append(t)
                        recorded = [x for x in exp if 'readlink(' in x and (
                            x.startswith('os.readlink(') or
                            x.startswith('os.path.basename(os.readlink('))]
                        caller = [x for x in exp if x in params or (
                            x.startswith('os.path.basename(') and
                            x[17:-1] in params)]
                        if recorded and caller:
                            return True
                    return False

                def gives_up(node):
                    if node.kind == 'raise_stmt':
                        return True
                    if node.kind == 'return':
                        val = node.ast.value
                        return isinstance(val, ast.Constant) and \
                            val.value is False
                    return False
                path = K.find_path(test, [graph.exit], cut_node=gives_up,
                                   cut_edge=lambda e, t=test:
                                   (e.src is t and e.kind != 'true') or
                                   same_owner(e), follow_exc=False)
                ctx.ob('C14.1', func, test, path is None,
                       'an existing link is never taken over: on EEXIST the '
                       'routine gives up unless the recorded owner is the '
                       'caller', path=K.describe(path) if path else None)
            # sibling note: what is the recorded owner compared with?
            for node in graph.nodes:
                if node.kind == 'test' and 'existing_owner' in N.txt(
                        node.ast):
                    notes.append('%s: %s' % (func.qualname,
                                             N.txt(node.ast)))
    if notes:
        ctx.note('EEXIST comparisons of the sibling managers: %s' %
                 '; '.join(notes))


def _is_owner_equality(atom, defs, ctx=None, func=None):
    """recorded owner (basename of readlink, possibly via a local) ==
    caller's owner (or its basename)."""
    key = atom.key
    if key[0] != 'cmp' or key[1] != '==':
        return False
    terms = [t for t, _c in key[2]]
    if len(terms) != 2:
        return False

    def expand(text):
        if text in defs and len(defs[text]) == 1:
            text = N.txt(defs[text][0])
        if ctx is not None and func is not None and text.endswith(')'):
            # a tiny accessor: read through to what it returns
            try:
                call = ast.parse(text, mode='eval').body
            except SyntaxError:
                return text
            if isinstance(call, ast.Call):
                inner = K.inline_expr_call(ctx.index, func, call)
                if inner is not None:
                    return N.txt(inner)
        return text
    exp = [expand(t) for t in terms]
    link = [e for e in exp if 'readlink' in e and 'basename' in e]
    if not link:
        # os.path.basename(existing_owner) with existing_owner = readlink
        link = [e for e in exp if 'basename(' in e and any(
            'readlink' in expand(a) for a in
            [e[e.index('basename(') + 9:-1]])]
    caller = [e for e in exp if e in ('owner',
                                      'os.path.basename(owner)')]
    return bool(link) and bool(caller)


def _release(ctx, vip, rule, epm):
    nz = N.Normaliser()
    funcs = []
    for cls, names in ((vip, ('free',)), (rule, ('unlink_rule',)),
                       (epm, ('unlink_spec', 'unlink_all'))):
        for name in names:
            func = cls.methods.get(name)
            ctx.require(func is not None, '%s.%s' % (cls.name, name))
            funcs.append(func)
    for func in funcs:
        graph = ctx.cfg(func)
        defs = _local_defs(func)
        unlinks = K.nodes_calling(graph, lambda c: K.callee_text(c) in (
            'os.unlink', 'os.remove'))
        ctx.require(unlinks, 'os.unlink in %s' % func.qualname, rule='C14.2')
        for node, _call in unlinks:
            def ok_edge(edge):
                for atom in nz.facts_of_edge(edge):
                    if _is_owner_equality(atom, defs, ctx, func):
                        return True
                    if func.cls is epm and atom.key[0] == 'truth' and \
                            not atom.key[2] and atom.key[1] == 'owner':
                        return True      # owner-less mode (named)
                return False
            loop = K.enclosing_for(graph, node)
            ok = K.guarded_by(graph, node, ok_edge, start=loop)
            if not ok:
                # the verdict may travel through a local ("owned"): judged
                # path-sensitively - a name bound to a condition passes on
                # what the condition establishes, a constant prunes
                def owner_ok(atom, func=func, defs=defs):
                    if _is_owner_equality(atom, defs, ctx, func):
                        return True
                    return func.cls is epm and atom.key[0] == 'truth' and \
                        not atom.key[2] and atom.key[1] == 'owner'
                bad = K.unestablished_path(
                    graph, [node], {'owner': owner_ok}, start=loop)
                ok = bad is None
            ctx.ob('C14.2', func, node, ok,
                   'released only when the recorded owner (basename of the '
                   'link target) equals the caller' if ok else
                   'the release is not guarded by equality of the recorded '
                   'owner with the caller (a non-owner can release it)')


_REMOVERS = ('os.unlink', 'os.remove', 'fs.rm_safe', 'fs.rmtree_safe',
             'shutil.rmtree', 'os.rename', 'os.replace', 'fs.replace')


def _every_removal(ctx, vip, rule, epm):
    """No other routine of the three managers removes an ownership link:
    besides the owner-checked releases (C14.2) and the collectors of dangling
    links (C14.3) only VipMgr.initialize does, and only for addresses of its
    own network."""
    nz = N.Normaliser()
    known = {'free', 'unlink_rule', 'unlink_spec', 'unlink_all',
             'garbage_collect'}
    funcs = []
    for cls in (vip, rule, epm):
        funcs.extend(cls.live_methods())
        funcs.extend(f for f in cls.module.live_functions()
                     if f.cls is None)
    seen = set()
    for func in funcs:
        if id(func) in seen:
            continue
        seen.add(id(func))
        graph = None
        for sub in K.walk_no_nested(func.node):
            if not (isinstance(sub, ast.Call) and
                    K.callee_text(sub) in _REMOVERS):
                continue
            if func.name in known:
                continue
            graph = graph or ctx.cfg(func)
            site = [n for n, _c in K.nodes_calling(graph,
                                                   lambda c: c is sub)]
            if not site:
                continue
            ok = False
            if func.cls in (rule, epm) and func.name == 'initialize':
                # named: the rule / endpoint directory has one manager per
                # node; node initialisation starts from an empty directory
                ctx.ok('C14.2', func, site[0],
                       'node initialisation empties the directory this '
                       'manager alone owns',
                       construct='removal in %s' % func.qualname)
                continue
            if func.cls is vip and func.name == 'initialize':
                loop = K.enclosing_for(graph, site[0])
                ok = K.guarded_by(graph, site[0], lambda e: any(
                    a.key[0] == 'in' and a.key[3] and
                    a.key[2] == 'self._cidr'
                    for a in nz.facts_of_edge(e)), start=loop)
            ctx.ob('C14.2', func, site[0], ok,
                   'the start-up sweep removes only addresses of its own '
                   'network (in self._cidr)' if ok else
                   '%s removes an ownership link outside the owner-checked '
                   'releases and the collectors of dangling links%s' % (
                       func.qualname,
                       ' (the sweep is not restricted to its own network)'
                       if func.name == 'initialize' else ''),
                   construct='removal in %s' % func.qualname)


def _collect(ctx, vip, rule):
    index = ctx.index
    nz = N.Normaliser()
    funcs = [vip.methods.get('garbage_collect'),
             rule.methods.get('garbage_collect'),
             index.module(EP).functions.get('garbage_collect')]
    ctx.require(all(funcs), 'three garbage collectors', rule='C14.3')
    for func in funcs:
        graph = ctx.cfg(func)
        unlinks = K.nodes_calling(graph, lambda c: K.callee_text(c) in (
            'os.unlink', 'os.remove', 'fs.rm_safe'))
        ctx.require(unlinks, 'unlink in %s' % func.fq, rule='C14.3')
        for node, call in unlinks:
            target = N.txt(call.args[0])
            loop = K.enclosing_for(graph, node)
            enoent = K.guarded_by(
                graph, node, lambda e: any(
                    a.key[0] == 'cmp' and a.key[1] == '==' and
                    len(a.key[2]) == 2 and
                    'errno.ENOENT' in [t for t, _c in a.key[2]] and
                    any(t.endswith('.errno') for t, _c in a.key[2])
                    for a in nz.facts_of_edge(e)), start=loop)
            ctx.ob('C14.3', func, node, enoent,
                   'reclaimed only under errno == ENOENT')
            # the handler belongs to a try whose body is os.stat(link)
            stats = [n for n, c in K.nodes_calling(
                graph, lambda c: K.callee_text(c) == 'os.stat' and c.args
                and N.txt(c.args[0]) == target)]
            via = K.guarded_by(
                graph, node, lambda e: e.kind == 'exc' and e.src in stats,
                start=loop) if stats else False
            other = [n for n, c in K.nodes_calling(
                graph, lambda c: K.callee_text(c) in (
                    'os.lstat', 'os.path.exists', 'os.path.lexists',
                    'os.path.islink', 'os.readlink'))]
            ctx.ob('C14.3', func, node, via and not other,
                   'and only when os.stat(%s) - which follows the link - '
                   'failed' % target,
                   construct='%s in the handler of os.stat' % node.text(40))


def _claimer(vip):
    """The method of the address manager that claims one address for an
    owner: the one creating the link (os.symlink) - by role, whatever it is
    called."""
    inner = vip.methods.get('_alloc')
    if inner is not None:
        return inner
    for func in vip.methods.values():
        if any(K.callee_text(c) == 'os.symlink' for c in K.calls(func.raw)) \
                and len(func.params()) == 3:
            return func
    return None


def _in_network(ctx, vip):
    nz = N.Normaliser()
    inner = _claimer(vip)
    ctx.require(inner is not None, 'VipMgr._alloc')
    n = 0
    for func in vip.live_methods():
        graph = None
        for sub in K.walk_no_nested(func.node):
            if isinstance(sub, ast.Call) and K.is_meth(sub, inner.name) and \
                    K.recv_text(sub) == 'self' and len(sub.args) == 2:
                graph = graph or ctx.cfg(func)
                n += 1
                site = [x for x in graph.nodes if any(
                    c is sub for c in C.node_calls(x))][0]
                arg = N.txt(sub.args[1])
                loop = K.enclosing_for(graph, site, arg)
                if loop is None:
                    # the candidate is a conversion of the loop variable
                    # kept in a local of its own: candidate = str(host),
                    # bound in the iteration before the call
                    for cand in graph.nodes:
                        if cand.kind != 'stmt' or not isinstance(
                                cand.ast, ast.Assign) or \
                                N.txt(cand.ast.targets[0]) != arg:
                            continue
                        val = cand.ast.value
                        if isinstance(val, ast.Call) and \
                                K.callee_text(val) == 'str' and \
                                len(val.args) == 1 and \
                                isinstance(val.args[0], ast.Name):
                            outer = K.enclosing_for(graph, site,
                                                    val.args[0].id)
                            if outer is not None and K.guarded_by(
                                    graph, site,
                                    lambda e, c=cand: e.src is c,
                                    start=outer):
                                loop = outer
                drawn = loop is not None and \
                    'self._cidr.hosts()' in N.txt(loop.ast.iter)
                checked = K.guarded_by(graph, site, lambda e, a=arg: any(
                    at.key[0] == 'in' and at.key[3] and
                    at.key[2] == 'self._cidr' and a in at.key[1]
                    for at in nz.facts_of_edge(e)))
                ctx.ob('C14.4', func, site, drawn or checked,
                       'the address handed to _alloc is %s' % (
                           'drawn from self._cidr.hosts()' if drawn else
                           'checked to be in self._cidr' if checked else
                           'neither drawn from nor checked against the '
                           'configured network'))
    ctx.require(n >= 2, 'call sites of VipMgr._alloc', rule='C14.4')


def _service(ctx):
    index = ctx.index
    nz = N.Normaliser()
    mod = index.module(NET)
    cls = mod.classes.get('NetworkResourceService')
    ctx.require(cls is not None, 'NetworkResourceService')
    create = cls.methods.get('on_create_request')
    delete = cls.methods.get('on_delete_request')
    ctx.require(create and delete, 'on_create_request/on_delete_request',
        rule='C14.5')
    graph = ctx.cfg(create)
    cdefs = _local_defs(create)
    allocs = K.nodes_calling(graph, lambda c: K.is_meth(c, 'alloc') and
                             'vips' in (K.recv_text(c) or ''))
    ctx.require(allocs, 'vips.alloc in on_create_request', rule='C14.5')
    rid = create.params()[1]

    def key_of(text, defs):
        if text in defs and len(defs[text]) == 1:
            return N.txt(defs[text][0])
        return text
    for node, call in allocs:
        ok = K.guarded_by(graph, node, lambda e: any(
            a.key[0] == 'in' and not a.key[3] and
            a.key[2] == 'self._devices' and
            key_of(a.key[1], cdefs) == rid for a in nz.facts_of_edge(e)))
        ctx.ob('C14.5', create, node, ok,
               'an IP is allocated only for a request not known yet (a '
               'repeated request re-uses its IP)')
        ctx.ob('C14.5', create, node,
               key_of(N.txt(call.args[0]), cdefs) == rid,
               'the owner key of the allocation is the request id',
               construct='alloc owner key')
    dgraph = ctx.cfg(delete)
    ddefs = _local_defs(delete)
    did = delete.params()[1]
    frees = K.nodes_calling(dgraph, lambda c: K.is_meth(c, 'free') and
                            'vips' in (K.recv_text(c) or ''))
    ctx.require(frees, 'vips.free in on_delete_request', rule='C14.5')
    for node, call in frees:
        ok = key_of(N.txt(call.args[0]), ddefs) == did and \
            "['ip']" in K.rtxt(delete, call.args[1])
        ctx.ob('C14.5', delete, node, ok,
               'the IP recorded for the request is freed with the same '
               'owner key (the request id)')
        # the service forgets the request before it frees the address: a
        # failure after the free must not leave a record that a repeated
        # request would be answered from (the IP may be someone else's by
        # then)
        dropped = K.guarded_by(dgraph, node, lambda e: e.kind != 'exc' and any(
            K.is_meth(c, 'pop') and K.recv_text(c) == 'self._devices' and
            c.args and key_of(N.txt(c.args[0]), ddefs) == did
            for c in C.node_calls(e.src)))
        ctx.ob('C14.5', delete, node, dropped,
               'the request is removed from the service state before its '
               'IP is freed',
               construct='state dropped before free')


def _paths(ctx, vip, rule):
    for cls in (vip, rule):
        init = cls.methods.get('__init__')
        ctx.require(init is not None, '%s.__init__' % cls.name)
        fn = {}
        for sub in K.walk_no_nested(init.node):
            if isinstance(sub, ast.Assign) and N.txt(sub.targets[0]) in (
                    'self._base_path', 'self._owner_path') and \
                    isinstance(sub.value, ast.Call):
                fn[N.txt(sub.targets[0])] = K.callee_text(sub.value)
        uses_rel = any(isinstance(s, ast.Call) and
                       K.callee_text(s) == 'os.path.relpath'
                       for f in cls.live_methods()
                       for s in K.walk_no_nested(f.node))
        ok = len(fn) == 2 and len(set(fn.values())) == 1
        ctx.ob('C14.6', init, None, ok or not uses_rel,
               'base path and owner path are canonicalised by the same '
               'function (%s); relpath() between them yields a target that '
               'resolves from the link directory' % fn,
               construct='%s path canonicalisation' % cls.name)


def _discipline(ctx, vip, rule, epm):
    """C14.1 / C14.2 / C14.3: the create, release and collect routines of
    the three managers (and the module-level collector of the endpoints)
    tolerate exactly the benign race - the link is already there / already
    gone - and raise everything else; and VipMgr.alloc hands out an address
    only when its atomic claim succeeded."""
    judged = 0
    for cls in (vip, rule, epm):
        for func in cls.live_methods():
            judged += K.tolerance_polarity(ctx, 'C14.3' if 'collect' in
                                           func.name else 'C14.1', func)
    for func in epm.module.live_functions():
        if func.cls is None and 'collect' in func.name:
            judged += K.tolerance_polarity(ctx, 'C14.3', func)
    ctx.require(judged >= 6, 'errno tests in the managers (found %d)' %
                judged, rule='C14.1')
    alloc = vip.methods.get('alloc')
    ctx.require(alloc is not None, 'VipMgr.alloc')
    graph = ctx.cfg(alloc)
    nz = N.Normaliser()
    for ret in [n for n in graph.nodes if n.kind == 'return' and
                n.ast.value is not None]:
        val = N.txt(ret.ast.value)

        def claimed(edge, val=val):
            for a in nz.facts_of_edge(edge):
                if a.key[0] == 'truth' and a.key[2] and \
                        a.key[1].startswith('self.%s(' % (
                            _claimer(vip).name if _claimer(vip) else
                            '_alloc')) and \
                        a.key[1].endswith(', %s)' % val):
                    return True
            return False
        ctx.ob('C14.4', alloc, ret, K.guarded_by(graph, ret, claimed),
               'an address is handed to the caller only after _alloc claimed '
               'it for that owner (%s)' % val, construct='alloc result')


def _service_discipline(ctx):
    """C14.5 / C14.3: the network service tolerates exactly "already gone"
    when it tears a request down, and its periodic synchronisation runs the
    collector of dangling addresses."""
    svcmod = ctx.index.module('treadmill.services.network_service')
    svc = svcmod.classes.get('NetworkResourceService')
    ctx.require(svc is not None, 'NetworkResourceService')
    judged = 0
    for func in svc.live_methods():
        judged += K.tolerance_polarity(ctx, 'C14.5', func)
    ctx.require(judged >= 1, 'errno tests of the network service',
                rule='C14.5')
    sync = svc.methods.get('synchronize')
    ctx.require(sync is not None, 'NetworkResourceService.synchronize')
    graph = ctx.cfg(sync)
    gcs = [n for n, c in K.nodes_calling(
        graph, lambda c: K.is_meth(c, 'garbage_collect'))]
    skip = K.find_path(graph.entry, [graph.exit],
                       cut_node=lambda n: n in gcs, follow_exc=False)
    ctx.ob('C14.3', sync, gcs[0] if gcs else None,
           bool(gcs) and skip is None,
           'every synchronisation of the network service collects the '
           'addresses whose owner is gone', construct='collector is run')
    # the service re-uses the address it remembers for a request
    # (self._devices): an address that is given back is forgotten in the same
    # step, or a retry of the request re-uses an address that meanwhile
    # belongs to somebody else
    for func in svc.live_methods():
        fgraph = ctx.cfg(func)
        frees = [n for n, c in K.nodes_calling(
            fgraph, lambda c: K.is_meth(c, 'free') and
            (K.recv_text(c) or '').endswith('_vips'))]

        def forgets(node):
            if any(K.is_meth(c, 'pop') and
                   (K.recv_text(c) or '').endswith('_devices')
                   for c in C.node_calls(node)):
                return True
            return node.kind == 'stmt' and isinstance(
                node.ast, ast.Delete) and any(
                    isinstance(t, ast.Subscript) and
                    N.txt(t.value).endswith('_devices')
                    for t in node.ast.targets)
        forgot = [n for n in fgraph.nodes if forgets(n)]
        for node in frees:
            before = K.guarded_by(fgraph, node, lambda e: e.src in forgot and
                                  e.kind != 'exc')
            after = K.find_path(node, [fgraph.exit, fgraph.raise_exit],
                                cut_node=lambda n: n in forgot,
                                follow_exc=True) is None
            ctx.ob('C14.4', func, node, before or after,
                   'an address given back is also dropped from the '
                   'remembered devices of the service',
                   construct='freed address forgotten')


def _runtime_release_owner(ctx):
    """C14.2: only the owner releases.  The endpoint-spec manager lets a
    caller leave the owner out (node services drop their own spec that way,
    by a name nobody else uses); the container runtime may not: its
    clean-up runs for an instance name that a newer container of the same
    instance may already use, so every unlink_all of the runtime package
    names the container as owner."""
    ctx.index.load_all()
    sites = 0
    for mod in list(ctx.index.modules.values()):
        if not mod.name.startswith('treadmill.runtime') or \
                'unlink_all' not in mod.source:
            continue
        for func in mod.live_functions():
            for call in K.calls(func.node):
                if not K.is_meth(call, 'unlink_all'):
                    continue
                sites += 1
                owner = K.kwarg(call, 'owner')
                if owner is None and len(call.args) >= 4:
                    owner = call.args[3]
                ok = owner is not None and not (
                    isinstance(owner, ast.Constant) and owner.value is None)
                ctx.ob('C14.2', func, call, ok,
                       'the container runtime releases endpoint specs only '
                       'as their owner (unlink_all(..., owner=<container>))',
                       construct='runtime unlink_all names the owner')
    ctx.require(sites >= 1, 'unlink_all call in the runtime package',
                rule='C14.2')


def check(ctx):
    _runtime_release_owner(ctx)
    vip, rule, epm = _managers(ctx)
    _discipline(ctx, vip, rule, epm)
    _service_discipline(ctx)
    _create(ctx, vip, rule, epm)
    _release(ctx, vip, rule, epm)
    _every_removal(ctx, vip, rule, epm)
    _collect(ctx, vip, rule)
    _in_network(ctx, vip)
    _service(ctx)
    _paths(ctx, vip, rule)


_V = 'lib/python/treadmill/vipfile.py'
_R = 'lib/python/treadmill/rulefile.py'
_E = 'lib/python/treadmill/endpoints.py'
_N = 'lib/python/treadmill/services/network_service.py'

MUTANTS = [
    ('revert-F31-spec-tolerated-by-instance-name', [(_E, """                    if existing_owner != os.path.basename(owner):
""", """                    if existing_owner != appname:
""")], 'C14.1'),
    ('vip-alloc-takes-over', [(_V, """            os.symlink(os.path.relpath(owner_file, self._base_path), ip_file)
            _LOGGER.debug('Allocated %r for %r', new_ip, owner)
        except OSError as err:
            if err.errno == errno.EEXIST:
                return False
            raise
""", """            os.symlink(os.path.relpath(owner_file, self._base_path), ip_file)
            _LOGGER.debug('Allocated %r for %r', new_ip, owner)
        except OSError as err:
            if err.errno == errno.EEXIST:
                return not os.path.exists(ip_file)
            raise
""")], 'C14.1'),
    ('rule-create-safe-symlink', [(_R, """            os.symlink(
                os.path.relpath(owner_file, self._base_path),
                rule_file
            )
            _LOGGER.info('Created %r for %r', filename, owner)
""", """            fs.symlink_safe(
                rule_file,
                os.path.relpath(owner_file, self._base_path)
            )
            _LOGGER.info('Created %r for %r', filename, owner)
""")], 'C14.1'),
    ('rule-create-ignores-other-owner', [(_R, """                existing_owner = os.path.basename(os.readlink(rule_file))
                if existing_owner != owner:
                    raise
            else:
                raise

    def unlink_rule""", """                pass
            else:
                raise

    def unlink_rule""")], 'C14.1'),
    ('vip-free-suffix-match', [(_V, """            ip_owner = os.path.basename(os.readlink(path))
            if ip_owner != owner:
""", """            ip_owner = os.readlink(path)
            if not ip_owner.endswith(owner):
""")], 'C14.2'),
    ('rule-unlink-no-owner-check', [(_R, """            existing_owner = os.path.basename(os.readlink(rule_file))
            if existing_owner != owner:
                _LOGGER.critical('%r tried to free %r that it does not own',
                                 owner, filename)
                return
            os.unlink(rule_file)
""", """            os.unlink(rule_file)
""")], 'C14.2'),
    ('spec-unlink-all-keeps-going', [(_E, """                        _LOGGER.critical(
                            '%r tried to free %r that it does not own',
                            owner,
                            filename
                        )
                        continue
""", """                        _LOGGER.critical(
                            '%r tried to free %r that it does not own',
                            owner,
                            filename
                        )
""")], 'C14.2'),
    ('vip-gc-lstat', [(_V, """                _link_st = os.stat(link)
""", """                _link_st = os.lstat(link)
""")], 'C14.3'),
    ('rule-gc-any-error', [(_R, """            except OSError as err:
                if err.errno == errno.ENOENT:
                    _LOGGER.warning('Reclaimed: %r', rule)
""", """            except OSError as err:
                if err.errno in (errno.ENOENT, errno.EACCES):
                    _LOGGER.warning('Reclaimed: %r', rule)
""")], 'C14.3'),
    ('spec-gc-unconditional', [(_E, """        try:
            os.stat(link)

        except OSError as err:
            if err.errno == errno.ENOENT:
                _LOGGER.warning('Reclaimed: %r', spec)
""", """        try:
            os.stat(link)
            if not os.path.islink(link):
                os.unlink(link)

        except OSError as err:
            if err.errno == errno.ENOENT:
                _LOGGER.warning('Reclaimed: %r', spec)
""")], 'C14.3'),
    ('picked-ip-unchecked', [(_V, """            if ipaddress.IPv4Address(picked_ip) not in self._cidr:
                raise ValueError('IP not in CIDR')
            if not self._alloc(owner, picked_ip):""", """            if not self._alloc(owner, picked_ip):""")], 'C14.4'),
    ('service-always-allocates', [(_N, """            if app_unique_name not in self._devices:
                # VIPs allocation (the owner is the resource link)
                ip = self._vips.alloc(rsrc_id)
                self._devices[app_unique_name] = {
                    'ip': ip
                }
            else:
                # Re-read what IP we assigned before
                ip = self._devices[app_unique_name]['ip']
""", """            ip = self._vips.alloc(rsrc_id)
            self._devices[app_unique_name] = {
                'ip': ip
            }
""")], 'C14.5'),
    ('service-free-other-key', [(_N, """                self._vips.free(app_unique_name, dev_info['ip'])
""", """                self._vips.free(veth, dev_info['ip'])
""")], 'C14.5'),
    ('rule-base-abspath', [(_R, """        self._base_path = os.path.realpath(base_path)
""", """        self._base_path = os.path.abspath(base_path)
""")], 'C14.6'),
]

REFACTORS = [
    ('vip-free-inline', [(_V, """            ip_owner = os.path.basename(os.readlink(path))
            if ip_owner != owner:
""", """            if os.path.basename(os.readlink(path)) != owner:
""")]),
    ('rule-unlink-positive', [(_R, """            existing_owner = os.path.basename(os.readlink(rule_file))
            if existing_owner != owner:
                _LOGGER.critical('%r tried to free %r that it does not own',
                                 owner, filename)
                return
            os.unlink(rule_file)
            _LOGGER.debug('Removed %r', filename)
""", """            existing_owner = os.path.basename(os.readlink(rule_file))
            if existing_owner == owner:
                os.unlink(rule_file)
                _LOGGER.debug('Removed %r', filename)
            else:
                _LOGGER.critical('%r tried to free %r that it does not own',
                                 owner, filename)
""")]),
    ('gc-errno-swapped', [(_V, """            except OSError as err:
                if err.errno == errno.ENOENT:
                    _LOGGER.warning('Reclaimed: %r', link)
""", """            except OSError as err:
                if errno.ENOENT == err.errno:
                    _LOGGER.warning('Reclaimed: %r', link)
""")]),
]
