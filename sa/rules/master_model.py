"""Recognisers shared by C09 / C10 / C11: placement-record operations of the
master and loader."""

import ast

from .. import cfg as C
from .. import norm as N
from . import common as K


def local_defs(func):
    """name -> list of assigned value expressions (function-wide)."""
    out = {}
    for sub in K.walk_no_nested(func.node):
        if isinstance(sub, ast.Assign) and len(sub.targets) == 1 and \
                isinstance(sub.targets[0], ast.Name):
            out.setdefault(sub.targets[0].id, []).append(sub.value)
    return out


def is_record_path(expr, defs, depth=0):
    """expr denotes the path of one instance's placement record:
    z.path.placement(<server>, <instance>) or
    os.path.join(<placement node>, <instance>).  Returns
    (server_text, instance_text) or None."""
    if depth > 3:
        return None
    if isinstance(expr, ast.Call):
        name = K.callee_text(expr)
        if name.endswith('path.placement') and len(expr.args) == 2:
            return N.txt(expr.args[0]), N.txt(expr.args[1])
        if name == 'os.path.join' and len(expr.args) == 2:
            base = expr.args[0]
            srv = node_path_server(base, defs, depth + 1)
            if srv is not None:
                return srv, N.txt(expr.args[1])
    if isinstance(expr, ast.Name) and expr.id in defs:
        vals = [is_record_path(v, defs, depth + 1) for v in defs[expr.id]]
        vals = [v for v in vals if v]
        if vals and len(vals) == len(defs[expr.id]):
            return vals[0]
    return None


def node_path_server(expr, defs, depth=0):
    """expr denotes z.path.placement(<server>) - the per-server node."""
    if depth > 3:
        return None
    if isinstance(expr, ast.Call) and \
            K.callee_text(expr).endswith('path.placement') and \
            len(expr.args) == 1:
        return N.txt(expr.args[0])
    if isinstance(expr, ast.Name) and expr.id in defs:
        vals = [node_path_server(v, defs, depth + 1) for v in defs[expr.id]]
        vals = [v for v in vals if v]
        if vals and len(vals) == len(defs[expr.id]):
            return vals[0]
    return None


def record_ops(ctx, func):
    """[(node, op, (server, instance), call)] for backend put/update/delete
    of an instance placement record inside func."""
    graph = ctx.cfg(func)
    defs = local_defs(func)
    out = []
    for node in graph.nodes:
        for call in C.node_calls(node):
            if K.is_meth(call, 'put', 'update', 'delete') and \
                    (K.recv_text(call) or '').endswith('backend') and \
                    call.args:
                rec = is_record_path(call.args[0], defs)
                if rec is not None:
                    out.append((node, call.func.attr, rec, call))
    return graph, out


def publication_routines(ctx):
    """Master methods that both delete and write instance placement
    records."""
    master = ctx.index.get_class(K.MASTER, 'Master')
    out = []
    for func in master.live_methods():
        _g, ops = record_ops(ctx, func)
        kinds = set(op for _n, op, _r, _c in ops)
        if 'delete' in kinds and ('put' in kinds or 'update' in kinds):
            out.append(func)
    return master, out


def before_after(loop):
    """Names bound to the old and the new server by a loop over the
    placement tuples (instance, before, exp_before, after, exp_after)."""
    if loop is not None and isinstance(loop.ast.target, ast.Tuple) and \
            len(loop.ast.target.elts) == 5:
        elts = loop.ast.target.elts
        return N.txt(elts[1]), N.txt(elts[3])
    return 'before', 'after'


def leaf_defs(defs, name, seen=None):
    """Definitions of a local with plain copies (x = y) followed to what y
    was assigned."""
    seen = seen if seen is not None else set()
    out = []
    for val in defs.get(name, []):
        if isinstance(val, ast.Name) and val.id in defs and \
                val.id not in seen:
            seen.add(val.id)
            out.extend(leaf_defs(defs, val.id, seen))
        else:
            out.append(val)
    return out


def stamp_names(func, facts):
    """(presence stamp local, placement stamp local) of the comparison
    guarding a verbatim restore, whatever the locals are called: the two
    sides of a `<=` both read from a node's creation time.  Which node each
    one is read from is judged by C11.2."""
    defs = local_defs(func)
    pname, tname = 'presence_time', 'placement_time'
    for fact in facts:
        key = fact.key
        if key[0] == 'cmp' and key[1] in ('<=', '<') and \
                len(key[2]) == 2 and all(
                    t.isidentifier() and any(
                        'ctime' in N.txt(v) for v in leaf_defs(defs, t))
                    for t, _c in key[2]):
            pname = [t for t, c in key[2] if c > 0][0]
            tname = [t for t, c in key[2] if c < 0][0]
    return pname, tname
